#!/bin/bash
# Offline setup: build the analysis driver, warm the dependency target dirs and the fact cache.
set -e
cd "$(dirname "$0")"
export CARGO_NET_OFFLINE=true
python3 -m engine.rulekit.facts build
python3 - <<'PY'
from engine.rulekit import facts
print("facts:", facts.generate())
facts.controls()
print("controls ok")
PY
if [ -x ./witness/build.sh ]; then ./witness/build.sh warm || true; fi
echo "setup done"
