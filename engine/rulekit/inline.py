"""MIR inlining over factgen's JSON: a copy of a function body in which calls to functions of the same crate are replaced
by the callee's blocks (locals and blocks renumbered, arguments assigned to the callee's parameter locals, `return` turned into
an assignment of the callee's return place to the call's destination + a jump to the call's target).

Why: the path rules (dominance, origin tracing, result flow) are stated on an entry point of the public API. Whether a step
sits in the entry point itself or in a private helper it calls ("extract function" / "inline function" refactorings) must not
matter, so the rules run on the body with the crate-local, non-recursive callees inlined.

Not inlined: functions without MIR in this crate (other crates, trait methods without resolved instance), closures (they stay
aggregate values; calling them is a call of `Fn::call`), coroutines (async fn bodies are state machines driven elsewhere),
members of a recursive cycle, and whatever the `stop` predicate names (the anchors a rule wants to see as calls).
Unwind edges of inlined code are dropped (the CFG used by the rules ignores unwinding)."""
import copy
import re

from . import mir as M
from . import thread as T

BLOCK_KEYS = ("target", "unwind", "otherwise", "imaginary", "drop")


def _rename(node, loff, boff, in_term=False):
    """In-place renumbering of locals (+loff) and, inside terminators, of block references (+boff)."""
    if isinstance(node, dict):
        if "l" in node and isinstance(node["l"], int):
            node["l"] += loff
        if "index" in node and isinstance(node["index"], int) and len(node) == 1:
            node["index"] += loff
        for k, v in node.items():
            if isinstance(v, (dict, list)):
                _rename(v, loff, boff, in_term)
    elif isinstance(node, list):
        for v in node:
            _rename(v, loff, boff, in_term)


def _rename_term(t, loff, boff):
    _rename(t, loff, 0)
    for k in BLOCK_KEYS:
        if k in t and isinstance(t[k], int):
            t[k] += boff
    if t.get("k") == "switch":
        t["targets"] = [[v, bb + boff] for v, bb in t["targets"]]


def _mentioned(o, acc, consts=False):
    """fn items (and, with `consts`, named constants) that appear as operands"""
    if isinstance(o, dict):
        if o.get("k") == "const":
            if o.get("fn_path"):
                acc.add(o.get("inst_path") or o["fn_path"])
            if consts and o.get("uneval"):
                acc.add(o["uneval"])
            return
        for v in o.values():
            _mentioned(v, acc, consts)
    elif isinstance(o, list):
        for v in o:
            _mentioned(v, acc, consts)


def _is_const_item(fact):
    return str(fact.get("kind") or "").lower().startswith(("const", "static", "assocconst", "inlineconst"))


def _erased(ty):
    """a type's text without lifetimes and binders (to compare a function pointer type with a function's signature)"""
    t = re.sub(r"for<[^>]*>\s*", "", ty or "")
    t = re.sub(r"'\w+", "", t)
    t = re.sub(r"\s+", "", t)
    for _ in range(3):
        t = t.replace("<,", "<").replace(",,", ",").replace(",>", ">").replace("<>", "")
    return t.replace("&mut", "&mut ")


def _fn_pointer_signature(ty):
    """(parameter types, return type) of `fn(A, B) -> R` (erased), None for anything else"""
    t = _erased(ty)
    if not t.startswith("fn("):
        return None
    depth, i = 0, 2
    for i in range(2, len(t)):
        depth += t[i] in "(<[" 
        depth -= t[i] in ")>]"
        if depth == 0:
            break
    inner, rest = t[3:i], t[i + 1:]
    params, cur, depth = [], "", 0
    for ch in inner:
        if ch == "," and depth == 0:
            params.append(cur)
            cur = ""
            continue
        depth += ch in "(<["
        depth -= ch in ")>]"
        cur += ch
    if cur:
        params.append(cur)
    return params, (rest[2:] if rest.startswith("->") else "()")


def recursive_fns(crate, without=None):
    """paths of functions of the crate that lie on a call cycle (resolved callees, closures attributed to their parent); with
    `without`, edges into that function are ignored"""
    graph = {}
    for b in crate.bodies:
        if not b.get("mir"):
            continue
        owner = b["path"]
        while "::{closure#" in owner:
            owner = owner.rsplit("::{closure#", 1)[0]
        B = M.Body(b)
        for _, t in B.calls():
            for p in {M.Body.callee(t), M.Body.callee_decl(t)}:
                if p and crate.body(p) is not None and p != without:
                    graph.setdefault(owner, set()).add(p)
        # functions used as values and named constants (tables of function pointers): what is mentioned can be called
        ment = set()
        _mentioned(b["mir"]["blocks"], ment, True)
        for p in ment:
            if crate.body(p) is not None and p != without and p != owner:
                graph.setdefault(owner, set()).add(p)
    rec = set()
    for start in graph:
        seen, st = set(), list(graph.get(start, ()))
        while st:
            x = st.pop()
            if x == start:
                rec.add(start)
                break
            if x in seen:
                continue
            seen.add(x)
            st.extend(graph.get(x, ()))
    return rec


class Inliner:
    def __init__(self, crate, stop=lambda path: False, max_blocks=6000, max_depth=8, head=None, closures=True, thread=True):
        self.crate = crate
        self.thread = thread
        self.head = head
        self.closures = closures   # also inline direct calls of closure literals (`let f = |x| ..; f(a)`)
        self.stop = (lambda p: p == head or stop(p)) if head else stop
        # with a head, calls to the head stay calls; every cycle through the head is thereby cut, so the other members of its
        # recursion can be inlined (cycles that avoid the head stay non-inlinable)
        self.rec = recursive_fns(crate, without=head)
        self.max_blocks = max_blocks
        self.max_depth = max_depth
        self.inlined = []  # (callee path, call site span) in the order of inlining

    def _closure_callee(self, out, t):
        """`Fn::call(&closure, (args,))` on a closure literal of this body: (closure path, its fact, [argument operands])"""
        f = t.get("func") or {}
        decl = f.get("fn_path") or ""
        if not decl.endswith(("ops::Fn::call", "ops::FnMut::call_mut", "ops::FnOnce::call_once")) or len(t.get("args", [])) != 2:
            return None
        B = M.Body(out)
        os_ = M.trace(B, t["args"][0], M.IDENTITY_CALLS)
        # (a closure that is reached through a capture of another closure arrives behind a dereference)
        if len(os_) != 1 or os_[0].kind != "aggregate" or not os_[0].rv.get("closure") or [p_ for p_ in (os_[0].proj or []) if p_ != "deref"]:
            return None
        cpath = os_[0].rv["closure"]
        cb = self.crate.body(cpath)
        if cb is None or not cb.get("mir") or cb["mir"].get("coroutine") or cpath in self.rec:
            return None
        # the arguments arrive as one tuple
        tup = t["args"][1]
        n = cb["mir"]["arg_count"] - 1
        if tup.get("k") not in ("copy", "move"):
            return None if n else (cpath, cb, [])
        args = []
        for k in range(n):
            pl = copy.deepcopy(tup["p"])
            pl["proj"] = list(pl.get("proj") or []) + [{"f": str(k), "i": k, "v": None}]
            args.append({"k": tup["k"], "p": pl})
        return cpath, cb, args

    AWAIT_IDENT = M.IDENTITY_CALLS + ("future::IntoFuture::into_future", "Pin::<Ptr>::new_unchecked", "pin::Pin::<Ptr>::new_unchecked",
                                      "Pin::<Ptr>::new", "ops::DerefMut::deref_mut", "Pin::<Ptr>::as_mut")

    def _await_callee(self, out, t):
        """`Future::poll` on the future returned by a local `async fn g(args)`: (coroutine path, its fact, operands captured by the
        coroutine in upvar order). The body of g's coroutine then runs in place of the poll."""
        f = t.get("func") or {}
        if not (f.get("fn_path") or "").endswith("future::Future::poll") or len(t.get("args", [])) != 2:
            return None
        B = M.Body(out)
        os_ = M.trace(B, t["args"][0], self.AWAIT_IDENT)
        if len(os_) != 1 or os_[0].kind != "call":
            return None
        gt = os_[0].term
        gpath, gfact = None, None
        for p in ((gt.get("func") or {}).get("inst_path"), (gt.get("func") or {}).get("fn_path")):
            b = self.crate.body(p) if p else None
            if b is not None and b.get("mir") and not b.get("closure"):
                gpath, gfact = p, b
                break
        if gfact is None or gpath in self.rec or self.stop(gpath):
            return None
        agg = None
        for blk in gfact["mir"]["blocks"]:
            for st in blk["stmts"]:
                if st["k"] == "assign" and st["p"]["l"] == 0 and st["rv"]["k"] == "aggregate" and st["rv"].get("ak") == "coroutine":
                    agg = st["rv"]
        if agg is None:
            return None
        cfact = self.crate.body(agg["closure"])
        if cfact is None or not cfact.get("mir"):
            return None
        ops = []
        for op in agg["ops"]:
            if op.get("k") in ("copy", "move") and not op["p"].get("proj") and 1 <= op["p"]["l"] <= gfact["mir"]["arg_count"]:
                ops.append(copy.deepcopy(gt["args"][op["p"]["l"] - 1]))
            else:
                return None
        return agg["closure"], cfact, ops

    # `opt.is_some_and(f)` = match opt { Some(x) => f(x), None => false };  `opt.is_none_or(f)` = .. None => true
    OPTION_PREDICATES = {"Option::<T>::is_some_and": 0, "Option::<T>::is_none_or": 1}

    def _desugar_option_predicate(self, out, blk, t):
        """A call of an Option predicate combinator on a closure literal / function item is replaced by the match it stands for
        (the call of `f` is then an ordinary call that the inliner takes in). Returns the blocks to revisit, or None."""
        f = t.get("func") or {}
        decl = f.get("fn_path") or ""
        none_value = next((v for k, v in self.OPTION_PREDICATES.items() if decl.endswith(k)), None)
        none_operand = None
        if none_value is None and decl.endswith("Option::<T>::map_or") and len(t.get("args", [])) == 3 and t.get("target") is not None:
            # `opt.map_or(default, f)` = match opt { Some(x) => f(x), None => default }
            none_operand = t["args"][1]
            t = dict(t, args=[t["args"][0], t["args"][2]])
            none_value = 0
        if none_value is None or len(t.get("args", [])) != 2 or t.get("target") is None:
            return None
        opt, fn = t["args"]
        if opt.get("k") not in ("copy", "move"):
            return None
        m = out["mir"]
        sp = t.get("sp")
        callee = None
        if fn.get("k") == "const" and fn.get("fn_path"):
            callee = ("fn", fn)
        elif fn.get("k") in ("copy", "move"):
            os_ = M.trace(M.Body(out), fn, M.IDENTITY_CALLS)
            if len(os_) == 1 and os_[0].kind == "aggregate" and os_[0].rv.get("closure") and not os_[0].proj:
                callee = ("closure", fn)
        if callee is None:
            return None

        def local(ty):
            m["locals"].append({"i": len(m["locals"]), "ty": ty, "user": False, "from": "desugared " + decl.rsplit("::", 1)[-1]})
            return len(m["locals"]) - 1

        def block(stmts, term):
            m["blocks"].append({"i": len(m["blocks"]), "stmts": stmts, "term": term, "from": blk.get("from")} if blk.get("from") else
                               {"i": len(m["blocks"]), "stmts": stmts, "term": term})
            return len(m["blocks"]) - 1

        payload_ty = (f.get("gargs") or ["?"])[0]
        d, x = local("isize"), local(payload_ty)
        opt_place = copy.deepcopy(opt["p"])
        some_place = copy.deepcopy(opt["p"])
        some_place["proj"] = list(some_place.get("proj") or []) + [{"downcast": "Some"}, {"f": "0", "i": 0, "v": "Some"}]
        none_rv = ({"k": "use", "op": copy.deepcopy(none_operand)} if none_operand is not None else
                   {"k": "use", "op": {"k": "const", "ty": "bool", "bits": none_value, "text": "true" if none_value else "false"}})
        none_bb = block([{"k": "assign", "p": copy.deepcopy(t["dest"]), "rv": none_rv, "sp": sp}],
                        {"k": "goto", "target": t["target"], "sp": sp})
        take = [{"k": "assign", "p": {"l": x}, "rv": {"k": "use", "op": {"k": opt["k"], "p": some_place}}, "sp": sp}]
        if callee[0] == "fn":
            some_bb = block(take, {"k": "call", "func": copy.deepcopy(fn), "args": [{"k": "move", "p": {"l": x}}], "dest": copy.deepcopy(t["dest"]),
                                   "target": t["target"], "sp": sp, "fn_sp": t.get("fn_sp")})
        else:
            tup, r = local("(" + payload_ty + ",)"), local("&closure")
            take.append({"k": "assign", "p": {"l": tup}, "rv": {"k": "aggregate", "ak": "tuple", "ops": [{"k": "move", "p": {"l": x}}]}, "sp": sp})
            take.append({"k": "assign", "p": {"l": r}, "rv": {"k": "ref", "bk": "Shared", "p": copy.deepcopy(fn["p"])}, "sp": sp})
            some_bb = block(take, {"k": "call", "func": {"k": "const", "ty": "desugared", "fn_path": "std::ops::Fn::call", "gargs": [], "text": "Fn::call"},
                                   "args": [{"k": "move", "p": {"l": r}}, {"k": "move", "p": {"l": tup}}], "dest": copy.deepcopy(t["dest"]),
                                   "target": t["target"], "sp": sp, "fn_sp": t.get("fn_sp")})
        blk["stmts"].append({"k": "assign", "p": {"l": d}, "rv": {"k": "discr", "p": opt_place}, "sp": sp})
        blk["term"] = {"k": "switch", "discr": {"k": "move", "p": {"l": d}}, "targets": [[1, some_bb]], "otherwise": none_bb, "sp": sp,
                       "desugared": decl}
        return [some_bb]

    ARRAY_ITER = M.IDENTITY_CALLS + ("[T]>::iter", "IntoIterator::into_iter", "iter::Iterator::by_ref", "[T; N]>::iter", "array::<impl [T; N]>::iter")

    SEARCHES = tuple("iter::Iterator::" + k for k in ("find", "any", "all", "try_for_each"))

    def _unroll_array_search(self, out, blk, t):
        """`[a, b, c].iter().find(p)` / `.any(p)` / `.all(p)` over an array literal with a closure literal: the elements are tried in
        order, which is what the call does. The call becomes the chain of `p(&a)`, `p(&b)`, .. (ordinary calls of the closure, which
        the inliner takes in); tables of rows that a check walks through are then straight-line code."""
        f = t.get("func") or {}
        decl = f.get("fn_path") or ""
        kind = next((k for k in ("find", "any", "all", "try_for_each") if decl.endswith("iter::Iterator::" + k)), None)
        if kind is None or len(t.get("args", [])) != 2 or t.get("target") is None or (t.get("dest") or {}).get("proj"):
            return None
        if kind == "try_for_each" and not str(out["mir"]["locals"][t["dest"]["l"]].get("ty", "")).replace(" ", "").startswith(("std::result::Result<(),", "core::result::Result<(),")):
            return None         # (only the Result<(), E> form of the short-circuit: the first Err ends the walk and is the answer)
        B = M.Body(out)
        os_ = M.trace(B, t["args"][0], self.ARRAY_ITER)
        if len(os_) != 1 or os_[0].kind != "aggregate" or os_[0].rv.get("ak") != "array" or [p_ for p_ in (os_[0].proj or []) if p_ != "deref"]:
            return None
        elems = os_[0].rv["ops"]
        if not (1 <= len(elems) <= 8):
            return None
        clo = t["args"][1]
        fn_item = None
        if clo.get("k") == "const" and clo.get("fn_path"):
            fn_item = clo               # `.any(Facet::is_set)`: a function item in the place of a closure literal
        else:
            if clo.get("k") not in ("copy", "move") or clo["p"].get("proj"):
                return None
            cs_ = M.trace(B, clo, M.IDENTITY_CALLS)
            if len(cs_) == 1 and cs_[0].kind == "const" and cs_[0].const.get("fn_path") and not cs_[0].proj:
                fn_item = cs_[0].const
            elif len(cs_) != 1 or cs_[0].kind != "aggregate" or not cs_[0].rv.get("closure"):
                return None
        m = out["mir"]
        sp = t.get("sp")

        def local(ty):
            m["locals"].append({"i": len(m["locals"]), "ty": ty, "user": False, "from": "unrolled " + kind})
            return len(m["locals"]) - 1

        def block(stmts, term):
            nb = {"i": len(m["blocks"]), "stmts": stmts, "term": term}
            if blk.get("from"):
                nb["from"] = blk["from"]
            m["blocks"].append(nb)
            return nb["i"]
        dest, target = copy.deepcopy(t["dest"]), t["target"]
        # the block that runs when no element made the closure decide
        if kind == "find":
            end_rv = {"k": "aggregate", "ak": "adt", "adt": "std::option::Option", "variant": "None", "ops": []}
        elif kind == "try_for_each":
            unit = local("()")
            end_rv = {"k": "aggregate", "ak": "adt", "adt": "std::result::Result", "variant": "Ok", "fields": ["0"], "ops": [{"k": "move", "p": {"l": unit}}]}
        else:
            end_rv = {"k": "use", "op": {"k": "const", "ty": "bool", "bits": 1 if kind == "all" else 0, "text": "true" if kind == "all" else "false"}}
        nxt = block([{"k": "assign", "p": copy.deepcopy(dest), "rv": end_rv, "sp": sp}], {"k": "goto", "target": target, "sp": sp})
        revisit = []
        for el in reversed(elems):
            if el.get("k") in ("copy", "move"):
                el_place = copy.deepcopy(el["p"])
                pre = []
            else:
                tmp = local("?")
                el_place = {"l": tmp}
                pre = [{"k": "assign", "p": {"l": tmp}, "rv": {"k": "use", "op": copy.deepcopy(el)}, "sp": sp}]
            r, rr, tup, cr = local("&elem"), local("&&elem"), local("(arg,)"), local("&mut closure")
            res = local("bool" if kind != "try_for_each" else out["mir"]["locals"][t["dest"]["l"]].get("ty", "?"))
            if kind == "try_for_each":
                hit_rv = {"k": "use", "op": {"k": "move", "p": {"l": res}}}
            elif kind == "find":
                hit_rv = {"k": "aggregate", "ak": "adt", "adt": "std::option::Option", "variant": "Some", "fields": ["0"], "ops": [{"k": "copy", "p": {"l": r}}]}
            else:
                hit_rv = {"k": "use", "op": {"k": "const", "ty": "bool", "bits": 0 if kind == "all" else 1, "text": "false" if kind == "all" else "true"}}
            hit = block([{"k": "assign", "p": copy.deepcopy(dest), "rv": hit_rv, "sp": sp}], {"k": "goto", "target": target, "sp": sp})
            if kind == "try_for_each":
                # the walk ends at the first Err, which is the answer
                d = local("isize")
                sw = block([{"k": "assign", "p": {"l": d}, "rv": {"k": "discr", "p": {"l": res}}, "sp": sp}],
                           {"k": "switch", "discr": {"k": "move", "p": {"l": d}}, "targets": [[0, nxt]], "otherwise": hit, "sp": sp, "unrolled": decl})
            else:
                # find / any stop at the first `true`, all stops at the first `false`
                stop_on = 0 if kind == "all" else 1
                sw = block([], {"k": "switch", "discr": {"k": "move", "p": {"l": res}}, "targets": [[0, hit if stop_on == 0 else nxt]],
                                "otherwise": nxt if stop_on == 0 else hit, "sp": sp, "unrolled": decl})
            arg = {"k": "move", "p": {"l": rr}} if kind == "find" else {"k": "copy", "p": {"l": r}}
            stmts = pre + [
                {"k": "assign", "p": {"l": r}, "rv": {"k": "ref", "bk": "Shared", "p": el_place}, "sp": sp},
                {"k": "assign", "p": {"l": rr}, "rv": {"k": "ref", "bk": "Shared", "p": {"l": r}}, "sp": sp},
            ]
            if fn_item is not None:
                call = block(stmts, {"k": "call", "func": copy.deepcopy(fn_item), "args": [arg], "dest": {"l": res}, "target": sw, "sp": sp, "fn_sp": t.get("fn_sp"),
                                     "through_pointer": True})
            else:
                stmts += [
                    {"k": "assign", "p": {"l": tup}, "rv": {"k": "aggregate", "ak": "tuple", "ops": [arg]}, "sp": sp},
                    {"k": "assign", "p": {"l": cr}, "rv": {"k": "ref", "bk": "Shared", "p": copy.deepcopy(clo["p"])}, "sp": sp},
                ]
                call = block(stmts, {"k": "call", "func": {"k": "const", "ty": "unrolled", "fn_path": "std::ops::FnMut::call_mut", "gargs": [], "text": "FnMut::call_mut"},
                                     "args": [{"k": "move", "p": {"l": cr}}, {"k": "move", "p": {"l": tup}}], "dest": {"l": res}, "target": sw, "sp": sp, "fn_sp": t.get("fn_sp")})
            revisit.append(call)
            nxt = call
        blk["term"] = {"k": "goto", "target": nxt, "sp": sp, "unrolled": decl}
        return revisit

    def _late_searches(self, out, work, late):
        """a search over a table that a helper hands out (`self.bounds().iter().try_for_each(..)`) can be unrolled only once the
        helper has been taken in: when the work list has run dry, the searches that are left are looked at once more"""
        if not self.closures or late[0] >= 4:
            return False
        late[0] += 1
        for blk in out["mir"]["blocks"]:
            t = blk.get("term") or {}
            if t.get("k") == "call" and not t.get("unroll_tried_late") and ((t.get("func") or {}).get("fn_path") or "").endswith(self.SEARCHES):
                t["unroll_tried_late"] = True
                again = self._unroll_array_search(out, blk, t)
                if again is not None:
                    work.extend((b, 0) for b in again)
        return bool(work)

    def _indirect_callee(self, out, t):
        """a call through a function pointer / callable local that is, on every path, one closure literal of this body (a table row
        `("minInclusive", bound, |value, min| value < min)` called as `violated(value, bound)`): (closure path, fact, argument operands)"""
        f = t.get("func") or {}
        if f.get("k") not in ("copy", "move"):
            return None
        os_ = M.trace(M.Body(out), f, M.IDENTITY_CALLS)
        if len(os_) != 1 or os_[0].kind != "aggregate" or not os_[0].rv.get("closure") or [p_ for p_ in (os_[0].proj or []) if p_ != "deref"]:
            return None
        if os_[0].rv.get("ops"):
            return None      # only closures without captures coerce to function pointers
        cpath = os_[0].rv["closure"]
        cb = self.crate.body(cpath)
        if cb is None or not cb.get("mir") or cb["mir"].get("coroutine") or cpath in self.rec:
            return None
        if cb["mir"]["arg_count"] - 1 != len(t.get("args", [])):
            return None
        return cpath, cb, list(t["args"])

    def _holds_callables(self, ty):
        """can a value of this type carry a function of the crate (function pointer, trait object, generic, or a type of the crate
        that has such a member)?"""
        if not hasattr(self, "_callable_adts"):
            self._callable_adts = set()
            adts = list(self.crate.items.get("structs", [])) + list(self.crate.items.get("enums", []))
            raw = lambda ty_: any(w in ty_ for w in ("fn(", "dyn ", "Fn(", "FnMut(", "FnOnce(", "impl "))
            changed = True
            while changed:
                changed = False
                for a in adts:
                    if a["path"] in self._callable_adts:
                        continue
                    for v in a.get("variants", []):
                        for fl in v.get("fields", []):
                            ty_ = fl.get("ty") or ""
                            if raw(ty_) or re.fullmatch(r"[A-Z]\w{0,2}", ty_.replace("&mut ", "").replace("&", "").strip()) \
                                    or any(c in ty_ for c in self._callable_adts):
                                self._callable_adts.add(a["path"])
                                changed = True
        t = ty or "?"
        if t == "?" or any(w in t for w in ("fn(", "dyn ", "Fn(", "FnMut(", "FnOnce(", "impl ", "{closure")):
            return True
        if re.search(r"(^|[<(&, ])[A-Z]\w{0,2}($|[>), ])", t):
            return True      # a generic parameter
        return any(c in t for c in self._callable_adts)

    def _tables_mentioned_from(self, p):
        """named constants mentioned by a function of the crate and by what it mentions"""
        found = set()
        seen, st = set(), [p]
        while st:
            x = st.pop()
            if x in seen:
                continue
            seen.add(x)
            xb = self.crate.body(x)
            if xb is None or not xb.get("mir"):
                continue
            acc = set()
            _mentioned(xb["mir"]["blocks"], acc, True)
            for y in acc:
                yb = self.crate.body(y)
                if yb is not None and _is_const_item(yb):
                    found.add(("const", y))
                elif yb is not None:
                    st.append(y)
        return found

    def _tables_behind(self, B, op, depth=0):
        """the named constants / function items / closure literals a value can have been taken from (through lookups: a call's result
        is taken to come from its arguments and from what the callee mentions); None when it can come from somewhere else"""
        found = set()
        for o in M.trace(B, op, M.IDENTITY_CALLS):
            if o.kind == "const":
                if o.const.get("uneval"):
                    found.add(("const", o.const["uneval"]))
                elif o.const.get("fn_path"):
                    found.add(("fn", o.const.get("inst_path") or o.const["fn_path"]))
            elif o.kind == "aggregate":
                if o.rv.get("closure") and not o.rv.get("ops"):
                    found.add(("closure", o.rv["closure"]))
                    continue
                if o.rv.get("closure"):
                    found |= self._tables_mentioned_from(o.rv["closure"])    # a predicate / projection handed to a lookup
                for a in o.rv.get("ops", []):
                    r = self._tables_behind(B, a, depth + 1) if depth < 6 else None
                    if r is None:
                        return None
                    found |= r
            elif o.kind == "call" and "l" in (o.term.get("dest") or {}) and not self._holds_callables(B.locals[o.term["dest"]["l"]].get("ty")):
                continue     # what it returns (a string, a number, ..) cannot carry a function
            elif o.kind == "call" and depth < 8:
                for p in {M.Body.callee(o.term), M.Body.callee_decl(o.term)}:
                    if p and self.crate.body(p) is not None:
                        found |= self._tables_mentioned_from(p)
                for a in o.term.get("args", []):
                    r = self._tables_behind(B, a, depth + 1)
                    if r is None:
                        return None
                    found |= r
            elif o.kind in ("arg", "upvar", "unknown"):
                l = getattr(o, "local", None)
                ty = B.locals[l].get("ty") if l is not None and l < len(B.locals) else None
                if self._holds_callables(ty):
                    return None
            elif o.kind == "op":
                continue
            else:
                return None
        return found

    def _table_entries(self, path, seen=None):
        """function items and closure literals (without captures) in the initialiser of a named constant, nested constants included"""
        seen = seen if seen is not None else set()
        if path in seen:
            return {}
        seen.add(path)
        cb = self.crate.body(path)
        out = {}
        if cb is None or not cb.get("mir"):
            return out
        acc = set()
        _mentioned(cb["mir"]["blocks"], acc, True)
        for y in acc:
            yb = self.crate.body(y)
            if yb is None or not yb.get("mir"):
                continue
            if _is_const_item(yb):
                out.update(self._table_entries(y, seen))
            elif not yb.get("closure") and not yb["mir"].get("coroutine"):
                out[y] = ("fn", yb)
        for blk in cb["mir"]["blocks"]:
            for st in blk["stmts"]:
                if st["k"] == "assign" and st["rv"]["k"] == "aggregate" and st["rv"].get("closure") and not st["rv"].get("ops"):
                    yb = self.crate.body(st["rv"]["closure"])
                    if yb is not None and yb.get("mir"):
                        out[st["rv"]["closure"]] = ("closure", yb)
        return out

    def _devirtualise(self, out, blk, t):
        """a call through a function pointer whose value was looked up in tables of the crate (named constants holding function items
        and closures without captures): the callee is one of the entries whose signature fits. The call becomes a choice (a switch on
        a value nothing is known about) between direct calls of the candidates, which the inliner then takes in. A pointer that can
        come from anywhere else (a parameter, a member) is left alone."""
        f = t.get("func") or {}
        if f.get("k") not in ("copy", "move") or t.get("devirtualised"):
            return None
        m = out["mir"]
        ty = m["locals"][f["p"]["l"]].get("ty") if not f["p"].get("proj") else None
        sig = _fn_pointer_signature(ty) if ty else None
        if sig is None:
            return None
        srcs = self._tables_behind(M.Body(out), f)
        if not srcs:
            return None
        entries = {}
        for kind, p in srcs:
            if kind == "const":
                entries.update(self._table_entries(p))
            else:
                cb = self.crate.body(p)
                if cb is not None and cb.get("mir"):
                    entries[p] = (kind, cb)
        n = len(t.get("args", []))
        cands = []
        for p, (kind, cb) in sorted(entries.items()):
            cm = cb["mir"]
            own = cm["arg_count"] - (1 if kind == "closure" else 0)
            if own != n or len(sig[0]) != n:
                continue
            first = 2 if kind == "closure" else 1
            ptys = [_erased(cm["locals"][first + k].get("ty")) for k in range(n)]
            if ptys != sig[0] or _erased(cm["locals"][0].get("ty")) != sig[1]:
                continue
            cands.append((p, kind))
        if not cands or len(cands) > 12:
            return None
        sp = t.get("sp")
        sel = len(m["locals"])
        m["locals"].append({"i": sel, "ty": "usize", "user": False, "from": "devirtualised"})
        new_blocks = []
        for p, kind in cands:
            ct = copy.deepcopy(t)
            ct["devirtualised"] = True
            stmts = []
            if kind == "fn":
                ct["func"] = {"k": "const", "ty": "devirtualised", "fn_path": p, "inst_path": p, "gargs": [], "text": p}
            else:
                tmp = len(m["locals"])
                m["locals"].append({"i": tmp, "ty": ty, "user": False, "from": "devirtualised"})
                stmts.append({"k": "assign", "p": {"l": tmp}, "rv": {"k": "aggregate", "ak": "closure", "closure": p, "ops": []}, "sp": sp})
                ct["func"] = {"k": "move", "p": {"l": tmp}}
            nb = {"i": len(m["blocks"]), "stmts": stmts, "term": ct}
            if blk.get("from"):
                nb["from"] = blk["from"]
            m["blocks"].append(nb)
            new_blocks.append(nb["i"])
        blk["term"] = {"k": "switch", "discr": {"k": "copy", "p": {"l": sel}}, "targets": [[k, b_] for k, b_ in enumerate(new_blocks[:-1])],
                       "otherwise": new_blocks[-1], "sp": sp, "devirtualised": [p for p, _ in cands]}
        return new_blocks

    def _callee_fact(self, t):
        f = t.get("func") or {}
        if f.get("k") != "const":
            return None, None
        for p in (f.get("inst_path"), f.get("fn_path")):
            if not p:
                continue
            b = self.crate.body(p)
            if b is None or not b.get("mir") or b.get("closure") or b["mir"].get("coroutine"):
                continue
            if p in self.rec or self.stop(p):
                return None, None
            if b["mir"]["arg_count"] != len(t.get("args", [])):
                continue
            return p, b
        return None, None

    def body(self, fact):
        """A new fact body (deep copy) with crate-local calls inlined; `fact["inlined"]` lists what was inlined."""
        out = copy.deepcopy(fact)
        m = out["mir"]
        self.inlined = []
        work = [(i, 0) for i in range(len(m["blocks"]))]
        late = [0]
        while work or self._late_searches(out, work, late):
            bi, depth = work.pop()
            blk = m["blocks"][bi]
            t = blk.get("term") or {}
            if t.get("k") != "call" or depth >= self.max_depth or len(m["blocks"]) > self.max_blocks:
                continue
            if self.closures:
                again = self._desugar_option_predicate(out, blk, t)
                if again is None:
                    again = self._unroll_array_search(out, blk, t)
                if again is not None:
                    work.extend((b, depth) for b in again)
                    continue
            p, cb = self._callee_fact(t)
            call_args = t.get("args", [])
            awaited = None
            indirect = None
            if cb is None and self.closures:
                indirect = self._indirect_callee(out, t)
                if indirect is None:
                    again = self._devirtualise(out, blk, t)
                    if again is not None:
                        work.extend((b, depth) for b in again)
                        continue
            if indirect is not None:
                p, cb, rest = indirect
                # the closure's own environment parameter: an empty closure value, by reference
                env_l = len(m["locals"])
                m["locals"].append({"i": env_l, "ty": "{closure env}", "user": False, "from": p})
                envr = len(m["locals"])
                m["locals"].append({"i": envr, "ty": "&{closure env}", "user": False, "from": p})
                blk["stmts"].append({"k": "assign", "p": {"l": env_l}, "rv": {"k": "aggregate", "ak": "closure", "closure": p, "ops": []}, "sp": t.get("sp"), "inl": "env"})
                blk["stmts"].append({"k": "assign", "p": {"l": envr}, "rv": {"k": "ref", "bk": "Shared", "p": {"l": env_l}}, "sp": t.get("sp"), "inl": "env"})
                call_args = [{"k": "move", "p": {"l": envr}}] + rest
            elif cb is None:
                cc = self._closure_callee(out, t) if self.closures else None
                if cc is None:
                    awaited = self._await_callee(out, t) if self.closures else None
                    if awaited is None:
                        continue
                    p, cb, captured = awaited
                    call_args = []
                else:
                    p, cb, rest = cc
                    call_args = [t["args"][0]] + rest
            cm = copy.deepcopy(cb["mir"])
            loff = len(m["locals"])
            boff = len(m["blocks"])
            for loc in cm["locals"]:
                loc = dict(loc)
                loc["i"] += loff
                loc["from"] = p
                loc["user"] = False
                if loc["i"] == loff:
                    loc["inl_ret"] = True   # the callee's return place
                m["locals"].append(loc)
            for v in cm.get("vars", []):
                v = copy.deepcopy(v)
                _rename(v, loff, 0)
                m["vars"].append(v)
            dest, target = t["dest"], t.get("target")
            for cblk in cm["blocks"]:
                nb = {"i": cblk["i"] + boff, "stmts": cblk["stmts"], "term": cblk.get("term") or {"k": "unreachable"}, "from": p}
                _rename(nb["stmts"], loff, 0)
                ct = nb["term"]
                _rename_term(ct, loff, boff)
                ct.pop("unwind", None)
                if ct.get("k") == "return" and awaited is not None:
                    # the coroutine finished: the poll yields Poll::Ready(result)
                    nb["stmts"].append({"k": "assign", "p": copy.deepcopy(dest),
                                        "rv": {"k": "aggregate", "ak": "adt", "adt": "std::task::Poll", "variant": "Ready",
                                               "ops": [{"k": "move", "p": {"l": loff, "proj": None}}]},
                                        "sp": t.get("sp"), "inl": "return"})
                    nb["term"] = {"k": "goto", "target": target, "sp": t.get("sp")} if target is not None else {"k": "unreachable", "sp": t.get("sp")}
                elif ct.get("k") == "return":
                    nb["stmts"].append({"k": "assign", "p": copy.deepcopy(dest), "rv": {"k": "use", "op": {"k": "move", "p": {"l": loff, "proj": None}}},
                                        "sp": t.get("sp"), "inl": "return"})
                    nb["term"] = {"k": "goto", "target": target, "sp": t.get("sp")} if target is not None else {"k": "unreachable", "sp": t.get("sp")}
                elif ct.get("k") == "resume":
                    nb["term"] = {"k": "unreachable", "sp": ct.get("sp")}
                m["blocks"].append(nb)
                work.append((nb["i"], depth + 1))
            if awaited is not None:
                # the coroutine's environment: its captured values are the arguments of the async fn; _1 of the body refers to it
                env_l = len(m["locals"])
                m["locals"].append({"i": env_l, "ty": "{coroutine env of " + p + "}", "user": False, "from": p})
                blk["stmts"].append({"k": "assign", "p": {"l": env_l, "proj": None},
                                     "rv": {"k": "aggregate", "ak": "coroutine", "closure": p, "ops": captured}, "sp": t.get("sp"), "inl": "env"})
                blk["stmts"].append({"k": "assign", "p": {"l": loff + 1, "proj": None}, "rv": {"k": "ref", "bk": "Mut", "p": {"l": env_l, "proj": None}},
                                     "sp": t.get("sp"), "inl": "arg"})
                blk["stmts"].append({"k": "assign", "p": {"l": loff + 2, "proj": None}, "rv": {"k": "use", "op": t["args"][1]}, "sp": t.get("sp"), "inl": "arg"})
                # the poll of an inlined body never reports Pending to this level: take the Ready arm
                if target is not None:
                    tb = m["blocks"][target]
                    tt = tb.get("term") or {}
                    if tt.get("k") == "switch" and any(st.get("k") == "assign" and st["rv"].get("k") == "discr" and st["rv"]["p"]["l"] == dest["l"] for st in tb["stmts"]):
                        ready = [bb for v, bb in tt["targets"] if v == 0]
                        if ready:
                            tb["term"] = {"k": "goto", "target": ready[0], "sp": tt.get("sp"), "was": "switch on Poll"}
            for k, a in enumerate(call_args):
                blk["stmts"].append({"k": "assign", "p": {"l": loff + 1 + k, "proj": None}, "rv": {"k": "use", "op": a}, "sp": t.get("sp"), "inl": "arg"})
            blk["term"] = {"k": "goto", "target": boff, "sp": t.get("sp"), "inlined_call": p}
            self.inlined.append((p, t.get("sp")))
        out["inlined"] = list(self.inlined)
        if self.closures:
            unrolled = 0
            for _ in range(6):          # (nested / several loops: one per round)
                if not unroll_array_loop(out):
                    break
                unrolled += 1
            if unrolled:
                out["unrolled_loops"] = unrolled
            resolve_fn_item_pointers(out)
        if (self.inlined or out.get("unrolled_loops")) and self.thread:
            # the joins at inlined returns make failing paths seem able to continue: separate them (see thread.py)
            out = T.thread(out)
        return out


def _map_locals(node, lmap):
    """a deep copy of a statement / terminator with the locals in `lmap` replaced"""
    if isinstance(node, list):
        return [_map_locals(x, lmap) for x in node]
    if isinstance(node, dict):
        out = {}
        for k, v in node.items():
            if k == "l" and isinstance(v, int):
                out[k] = lmap.get(v, v)
            else:
                out[k] = _map_locals(v, lmap)
        return out
    return node


def unroll_array_loop(fact, max_rows=8):
    """`for row in [r0, r1, ..]` over an array built in this very body (a table of rows: names, bounds, comparison functions) runs its
    body once per row, in order: the loop is replaced by that many copies of its body, each with its row in place of the element
    (locals assigned inside the body get a copy per round, so that every copy reads as straight-line code). Returns True when a loop
    was unrolled. Only the plain shape is taken: `into_iter` of the array value, one `next` call, a switch on its result."""
    m = fact["mir"]
    B = M.Body(fact)
    for ibb, it in B.calls():
        if not (M.Body.callee_decl(it) or "").endswith("iter::IntoIterator::into_iter") or it.get("unrolled") or not it.get("args"):
            continue
        os_ = M.trace(B, it["args"][0], ())
        if len(os_) != 1 or os_[0].kind != "aggregate" or os_[0].rv.get("ak") != "array" or os_[0].proj:
            continue
        rows = os_[0].rv["ops"]
        if not (1 <= len(rows) <= max_rows):
            continue
        nexts = []
        for nbb, nt in B.calls():
            if (M.Body.callee_decl(nt) or "").endswith("iter::Iterator::next") and nt.get("args"):
                if any(o.kind == "call" and o.bb == ibb for o in M.trace(B, nt["args"][0], ())):
                    nexts.append((nbb, nt))
        if len(nexts) != 1:
            continue
        hbb, ht = nexts[0]
        if ht.get("target") is None or (ht.get("dest") or {}).get("proj"):
            continue
        opt = ht["dest"]["l"]
        sbb = ht["target"]
        sw = B.term(sbb)
        if sw.get("k") != "switch":
            continue
        none_t = [b for v, b in sw["targets"] if v == 0]
        some_t = [b for v, b in sw["targets"] if v == 1]
        if len(none_t) != 1 or len(some_t) != 1:
            continue
        exit_bb, body_bb = none_t[0], some_t[0]
        # the body: what is reachable from the Some arm without passing the header again
        region, st = set(), [body_bb]
        while st:
            x = st.pop()
            if x in region or x == hbb:
                continue
            region.add(x)
            st.extend(y for y in B.succ[x] if y != hbb)
        if hbb in region or sbb in region or len(region) > 400:
            continue
        if not any(hbb in B.succ[x] for x in region):
            continue      # no way back: not a loop
        blocks = m["blocks"]
        # locals that get a value inside the body: one copy per round
        assigned = set()
        for x in region:
            for s_ in blocks[x]["stmts"]:
                if s_["k"] == "assign" and not s_["p"].get("proj"):
                    assigned.add(s_["p"]["l"])
                if s_["k"] in ("storage_live",) and isinstance(s_.get("l"), int):
                    assigned.add(s_["l"])
            t_ = blocks[x].get("term") or {}
            if t_.get("k") == "call" and "l" in (t_.get("dest") or {}) and not t_["dest"].get("proj"):
                assigned.add(t_["dest"]["l"])
        assigned.discard(0)
        assigned = {l for l in assigned if l > m["arg_count"]}
        assigned.add(opt)       # (the element of each round is a value of its own)
        entries = []
        clones = []
        for i, row in enumerate(rows):
            lmap = {}
            for l in sorted(assigned):
                nl = dict(m["locals"][l])
                nl["i"] = len(m["locals"])
                nl["from_round"] = i
                m["locals"].append(nl)
                lmap[l] = nl["i"]
            bmap = {x: len(blocks) + k for k, x in enumerate(sorted(region))}
            entries.append(bmap[body_bb])
            clones.append((lmap, bmap))
            for x in sorted(region):
                src = blocks[x]
                nb = {"i": bmap[x], "stmts": _map_locals(src["stmts"], lmap), "term": _map_locals(src.get("term") or {"k": "unreachable"}, lmap)}
                for key in ("from", "orig"):
                    if key in src:
                        nb[key] = src[key]
                nb["round"] = i
                blocks.append(nb)
        for i, (lmap, bmap) in enumerate(clones):
            nxt = entries[i + 1] if i + 1 < len(entries) else exit_bb
            for x in sorted(region):
                t_ = blocks[bmap[x]]["term"]
                for key in BLOCK_KEYS:
                    if isinstance(t_.get(key), int):
                        t_[key] = nxt if t_[key] == hbb else bmap.get(t_[key], t_[key])
                if t_.get("k") == "switch":
                    t_["targets"] = [[v, (nxt if b == hbb else bmap.get(b, b))] for v, b in t_["targets"]]
            entry = blocks[bmap[body_bb]]
            entry["stmts"] = [{"k": "assign", "p": {"l": lmap[opt]}, "rv": {"k": "aggregate", "ak": "adt", "adt": "std::option::Option", "variant": "Some",
                                                                    "fields": ["0"], "ops": [copy.deepcopy(rows[i])]}, "sp": ht.get("sp"), "inl": "row"}] + entry["stmts"]
        it["unrolled"] = True
        blocks[hbb] = dict(blocks[hbb], stmts=list(blocks[hbb]["stmts"]), term={"k": "goto", "target": entries[0], "sp": ht.get("sp"), "unrolled_loop": len(rows)})
        return True
    return False


BLOCK_KEYS = ("target", "otherwise", "imaginary", "drop", "real")


def resolve_fn_item_pointers(fact):
    """a call through a function pointer whose value is, on every path, one function item (`let cmp: fn(&i128, &i128) -> bool =
    i128::ge; cmp(a, b)`, a row of a table after unrolling) is a call of that function"""
    B = M.Body(fact)
    n = 0
    for bb, t in B.calls():
        f = t.get("func") or {}
        if f.get("k") not in ("copy", "move"):
            continue
        os_ = M.trace(B, f, M.IDENTITY_CALLS)
        if os_ and all(o.kind == "const" and o.const.get("fn_path") for o in os_) and len({(o.const.get("inst_path"), o.const["fn_path"], tuple(o.const.get("gargs") or ())) for o in os_}) == 1:
            t["func"] = copy.deepcopy(os_[0].const)
            t["through_pointer"] = True
            n += 1
    return n


def inlined_body(crate, path, stop=lambda p: False, **kw):
    """M.Body of `path` with crate-local non-recursive callees inlined (None when the function has no MIR)."""
    fact = crate.body(path)
    if fact is None or not fact.get("mir"):
        return None
    inl = Inliner(crate, stop, **kw)
    return M.Body(inl.body(fact))


def collapsed_body(crate, head, stop=lambda p: False, **kw):
    """Body of `head` with everything crate-local inlined except calls to `head` itself: a recursion through helper functions
    becomes direct recursion, so that 'what happens before the recursive call' is a statement about one CFG."""
    fact = crate.body(head)
    if fact is None or not fact.get("mir"):
        return None
    return M.Body(Inliner(crate, stop, head=head, **kw).body(fact))


def closure_sites(B):
    """[(bb, closure path)] for every closure literal created in the (reachable part of the) body"""
    out = []
    for i in sorted(B.reach):
        for s in B.blocks[i]["stmts"]:
            if s["k"] == "assign" and s["rv"]["k"] == "aggregate" and s["rv"].get("closure"):
                out.append((i, s["rv"]["closure"]))
    return out


def calls_through_closures(crate, B, pred, head=None, _depth=0):
    """Calls satisfying pred(term) in B and in the closures created in B (transitively). Yields (site_bb in B, term, where) with
    where = None for a call in B itself, or the closure's (collapsed) Body for a call inside a closure created at site_bb."""
    for bb, t in B.calls():
        if pred(t):
            yield bb, t, None
    if _depth > 3:
        return
    for bb, cpath in closure_sites(B):
        fact = crate.body(cpath)
        if fact is None or not fact.get("mir"):
            continue
        CB = M.Body(Inliner(crate, head=head).body(fact))
        for _, t, _w in calls_through_closures(crate, CB, pred, head, _depth + 1):
            yield bb, t, CB
