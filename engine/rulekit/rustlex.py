"""A small Rust lexer, enough to classify the lexical context of a hole inside an emitted template fragment:
string literal / raw string / char literal / line comment / doc comment / block comment / identifier / other code."""

HOLE = "\x00"


def contexts(text):
    """`text` contains HOLE markers (one per hole). Returns for each marker, in order, a dict:
    {ctx: 'string'|'raw_string'|'char'|'line_comment'|'doc_comment'|'block_comment'|'ident'|'code', left: str, right: str}"""
    out = []
    i = 0
    n = len(text)
    state = "code"
    depth = 0
    raw_hashes = 0
    ident_start = None
    while i < n:
        c = text[i]
        if state == "code":
            if c == HOLE:
                left = text[i - 1] if i > 0 else ""
                right = text[i + 1] if i + 1 < n else ""
                is_ident = _identish(left) or _identish(right) or _ident_position(text, i)
                out.append({"ctx": "ident" if is_ident else "code", "left": text[max(0, i - 24):i], "right": text[i + 1:i + 25]})
                i += 1
                continue
            if text.startswith("//", i):
                state = "doc_comment" if text.startswith("///", i) or text.startswith("//!", i) else "line_comment"
                i += 2
                continue
            if text.startswith("/*", i):
                state = "block_comment"
                depth = 1
                i += 2
                continue
            if c == '"':
                state = "string"
                i += 1
                continue
            if c == "r" and i + 1 < n and text[i + 1] in '#"' and not (i > 0 and _identish(text[i - 1])):
                j = i + 1
                h = 0
                while j < n and text[j] == "#":
                    h += 1
                    j += 1
                if j < n and text[j] == '"':
                    state = "raw_string"
                    raw_hashes = h
                    i = j + 1
                    continue
            if c == "'":
                # char literal or lifetime: 'x' / '\n' are chars; 'a (no closing quote soon) is a lifetime
                if i + 2 < n and (text[i + 2] == "'" or (text[i + 1] == "\\" and "'" in text[i + 2:i + 8])):
                    state = "char"
                    i += 1
                    continue
            i += 1
            continue
        if state == "string":
            if c == HOLE:
                out.append({"ctx": "string", "left": text[max(0, i - 24):i], "right": text[i + 1:i + 25]})
            elif c == "\\":
                i += 2
                continue
            elif c == '"':
                state = "code"
            i += 1
            continue
        if state == "raw_string":
            if c == HOLE:
                out.append({"ctx": "raw_string", "left": text[max(0, i - 24):i], "right": text[i + 1:i + 25]})
            elif c == '"' and text[i + 1:i + 1 + raw_hashes] == "#" * raw_hashes:
                state = "code"
                i += 1 + raw_hashes
                continue
            i += 1
            continue
        if state == "char":
            if c == HOLE:
                out.append({"ctx": "char", "left": text[max(0, i - 24):i], "right": text[i + 1:i + 25]})
            elif c == "\\":
                i += 2
                continue
            elif c == "'":
                state = "code"
            i += 1
            continue
        if state in ("line_comment", "doc_comment"):
            if c == HOLE:
                out.append({"ctx": state, "left": text[max(0, i - 24):i], "right": text[i + 1:i + 25]})
            elif c == "\n":
                state = "code"
            i += 1
            continue
        if state == "block_comment":
            if c == HOLE:
                out.append({"ctx": "block_comment", "left": text[max(0, i - 24):i], "right": text[i + 1:i + 25]})
                i += 1
                continue
            if text.startswith("/*", i):
                depth += 1
                i += 2
                continue
            if text.startswith("*/", i):
                depth -= 1
                i += 2
                if depth == 0:
                    state = "code"
                continue
            i += 1
            continue
    return out


def _identish(ch):
    return bool(ch) and (ch.isalnum() or ch == "_")


def _ident_position(text, i):
    """Hole standing alone where the grammar expects an identifier / path segment: after `struct `, `mod `, `fn `, `type `,
    `pub `, `self.`, `::`, `impl `, `for `, before `::`, before `:` in a field, etc."""
    left = text[:i].rstrip(" ")
    right = text[i + 1:].lstrip(" ")
    for kw in ("struct", "mod", "fn", "type", "enum", "trait", "impl", "for", "pub", "let", "use", "const", "static"):
        if left.endswith(kw) and (len(left) == len(kw) or not _identish(left[-len(kw) - 1])):
            return True
    if left.endswith(("::", ".", "<", "(", ",", ":", "->", "&", "=")) and (right.startswith(("::", ">", "<", ")", ",", ";", "{", "(")) or right == "" or right.startswith("\n")):
        # a type / path / expression position filled entirely by the hole
        return True
    if right.startswith(("::", ":")) and not right.startswith(":?"):
        return True
    return False
