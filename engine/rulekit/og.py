"""P5 provenance normal forms and P7 output-grammar extraction over normalised HIR.

A *writer function* is any non-test function that (transitively) formats into an `io::Write` / `fmt::Formatter`
sink. For each one the extractor produces, in source order, its *events*:
  Emit  - a write!/writeln! into the sink: literal parts, holes (with provenance normal form, format trait)
  Call  - a call of another writer function (callee, argument normal forms)
each with its *context*: the chain of enclosing loops (`star`, with the normal form of the iterated collection and any
adapters) and branches (`alt`, with the normal form of the condition and the branch taken).
Anything that writes through a construct outside the recognised idioms raises `Unrecognised` (rules report it)."""
import re
from . import hir as H
from .hir import Unrecognised

IDENTITY_METHODS = {"as_ref", "as_str", "as_deref", "clone", "to_owned", "borrow", "deref", "as_mut", "into", "iter",
                    "to_string", "as_slice", "cloned", "to_path_buf", "as_path", "into_iter", "iter_mut", "copied"}
import os as _os
CANON = _os.environ.get("OG_CANON", "1") != "0"

NUMERIC_TYPES = ("i8", "i16", "i32", "i64", "i128", "isize", "u8", "u16", "u32", "u64", "u128", "usize", "f32", "f64")

IDENTITY_FNS = ("convert::AsRef::as_ref", "clone::Clone::clone", "string::ToString::to_string", "convert::Into::into",
                "convert::From::from", "borrow::ToOwned::to_owned")


# ---- normal forms ---------------------------------------------------------------------------
# ("param", name) ("field", base, name) ("call", path, args...) ("lit", v) ("elem", iter) ("payload", variant, base)
# ("format", parts) ("ifelse", cond, a, b) ("match", scrut, arms) ("const", path) ("local", name)
# ("map", recv, body) ("joinmap", iter, body, sep) ("tuple", items) ("unknown", desc) ("binop", op, a, b) ("not", a)
# ("islet", pat, base)  ("closure", ...)

def nf_str(n, depth=0):
    if not isinstance(n, tuple):
        return repr(n)
    if depth > 8:
        return "…"
    k = n[0]
    r = lambda x: nf_str(x, depth + 1)
    if k == "param":
        return n[1]
    if k == "field":
        return f"{r(n[1])}.{n[2]}"
    if k == "call":
        name = n[1].rsplit("::", 1)[-1] if isinstance(n[1], str) else str(n[1])
        return f"{name}({', '.join(r(a) for a in n[2])})"
    if k == "lit":
        return repr(n[1])
    if k == "elem":
        return f"each({r(n[1])})"
    if k == "payload":
        return f"{n[1]}⟨{r(n[2])}⟩"
    if k == "format":
        return "fmt(" + "".join(p[1] if p[0] == "lit" else "{" + r(p[1]) + "}" for p in n[1]) + ")"
    if k == "ifelse":
        return f"if {r(n[1])} then {r(n[2])} else {r(n[3])}"
    if k == "match":
        return f"match {r(n[1])} [" + "; ".join(f"{p} => {r(v)}" for p, v in n[2]) + "]"
    if k == "const":
        return n[1].rsplit("::", 1)[-1]
    if k == "local":
        return n[1]
    if k == "map":
        return f"{r(n[1])}.map(→{r(n[2])})"
    if k == "joinmap":
        return f"join({r(n[1])} → {r(n[2])}, {n[3]!r})"
    if k == "tuple":
        return "(" + ", ".join(r(x) for x in n[1]) + ")"
    if k == "list":
        return "[" + ", ".join((r(x[1]) if x[0] == "item" else f"*{r(x[1])}→{r(x[2])}") for x in n[1]) + "]"
    if k == "binop":
        return f"({r(n[2])} {n[1]} {r(n[3])})"
    if k == "not":
        return f"!{r(n[1])}"
    if k == "islet":
        return f"{r(n[2])} is {n[1]}"
    if k == "unknown":
        return f"?{n[1]}"
    if k == "closure":
        node = _CLOSURES.get(n[1])
        return "closure@" + (str(H.sp(node[0])).rsplit("/", 1)[-1] if node else "?")
    if k == "apply":
        return f"{r(n[1])}({', '.join(r(a) for a in n[2])})"
    return str(n)


def nf_roots(n, out=None):
    """Leaves of a normal form: params, consts, literals, locals, unknowns."""
    if out is None:
        out = []
    if not isinstance(n, tuple):
        return out
    k = n[0]
    if k in ("param", "const", "lit", "local", "unknown", "tok"):
        out.append(n)      # ("tok", label): a loop element named by the sampler
    elif k == "field":
        nf_roots(n[1], out)
    elif k == "call":
        for a in n[2]:
            nf_roots(a, out)
    elif k in ("elem",):
        nf_roots(n[1], out)
    elif k == "apply":
        nf_roots(n[1], out)
        for a in n[2]:
            nf_roots(a, out)
    elif k == "closure":
        for _k, v in (n[2] if len(n) > 2 else ()):
            nf_roots(v, out)
    elif k == "payload":
        nf_roots(n[2], out)
    elif k == "format":
        for p in n[1]:
            if p[0] == "hole":
                nf_roots(p[1], out)
    elif k == "ifelse":
        for x in n[1:]:
            nf_roots(x, out)
    elif k == "match":
        nf_roots(n[1], out)
        for _, v in n[2]:
            nf_roots(v, out)
    elif k in ("map",):
        nf_roots(n[1], out)
        nf_roots(n[2], out)
    elif k == "joinmap":
        nf_roots(n[1], out)
        nf_roots(n[2], out)
    elif k == "tuple":
        for x in n[1]:
            nf_roots(x, out)
    elif k == "list":
        for x in n[1]:
            for y in x[1:]:
                nf_roots(y, out)
    elif k == "binop":
        nf_roots(n[2], out)
        nf_roots(n[3], out)
    elif k in ("not",):
        nf_roots(n[1], out)
    elif k == "islet":
        nf_roots(n[2], out)
    return out


_GARGS = {}        # (callee path, argument normal forms) -> the types its generic parameters were given at that call
_CLOSURES = {}     # id of a closure's syntax node -> (node, environment at its definition); the nodes live as long as the facts do


def nf_subst(n, mapping):
    """Substitute ("param", name) leaves."""
    if not isinstance(n, tuple):
        return n
    if n[0] == "param":
        return mapping.get(n[1], n)
    if n[0] == "closure":
        # a closure value leaving the function that made it (returned, or handed on inside a result): what it captured from that
        # function's parameters travels with it and is applied when the closure is
        if len(n) > 2:
            return ("closure", n[1], tuple((k, nf_subst(v, mapping)) for k, v in n[2]))
        return ("closure", n[1], tuple(sorted(mapping.items(), key=lambda kv: kv[0])))
    if n[0] == "apply":
        return ("apply", nf_subst(n[1], mapping), tuple(nf_subst(a, mapping) for a in n[2]))
    if n[0] == "format":
        return ("format", tuple((p if p[0] == "lit" else ("hole", nf_subst(p[1], mapping)) + tuple(p[2:])) for p in n[1]))
    if n[0] == "match":
        return ("match", nf_subst(n[1], mapping), tuple((p, nf_subst(v, mapping)) for p, v in n[2]))
    if n[0] == "call":
        return ("call", n[1], tuple(nf_subst(a, mapping) for a in n[2])) + tuple(n[3:])
    if n[0] == "tuple":
        return ("tuple", tuple(nf_subst(a, mapping) for a in n[1]))
    if n[0] == "list":
        return ("list", tuple(tuple([x[0]] + [nf_subst(y, mapping) for y in x[1:]]) for x in n[1]))
    return tuple(nf_subst(x, mapping) if isinstance(x, tuple) else x for x in n)


def nf_calls(n, out=None):
    """All ("call", path, ...) nodes on the spine and inside a normal form (outermost first)."""
    if out is None:
        out = []
    if not isinstance(n, tuple):
        return out
    if n[0] == "call":
        out.append(n)
        for a in n[2]:
            nf_calls(a, out)
        return out
    for x in n[1:]:
        if isinstance(x, tuple):
            if x and isinstance(x[0], str):
                nf_calls(x, out)
            else:
                for y in x:
                    if isinstance(y, tuple):
                        nf_calls(y, out)
                        for z in y:
                            if isinstance(z, tuple):
                                nf_calls(z, out)
    return out


class Env:
    def __init__(self, parent=None):
        self.m = {}
        self.parent = parent

    def get(self, i):
        e = self
        while e is not None:
            if i in e.m:
                return e.m[i]
            e = e.parent
        return None

    def child(self):
        return Env(self)


def project(nf, i, n=None):
    """component i of a tuple-valued normal form: literal tuples are indexed, conditionals are distributed over"""
    if isinstance(nf, tuple):
        if nf[0] == "tuple" and (n is None or len(nf[1]) == n) and i < len(nf[1]):
            return nf[1][i]
        if nf[0] == "ifelse":
            return ("ifelse", nf[1], project(nf[2], i, n), project(nf[3], i, n))
        if nf[0] == "match":
            return ("match", nf[1], tuple((lab, project(v, i, n)) for lab, v in nf[2]))
    return ("field", nf, str(i))


def bind_pattern(pat, nf, env):
    """Bind the variables of a pattern to projections of `nf`."""
    k = pat.get("k")
    if k == "Binding":
        env.m[pat["id"]] = nf
        if pat.get("sub"):
            bind_pattern(pat["sub"], nf, env)
    elif k in ("Ref", "Box", "Deref"):
        bind_pattern(pat["pat"], nf, env)
    elif k == "Tuple":
        for i, p in enumerate(pat["pats"]):
            bind_pattern(p, project(nf, i, len(pat["pats"])), env)
    elif k == "TupleStruct":
        vp = (pat["path"].get("path") or "?").rsplit("::", 1)[-1]
        pats = pat["pats"]
        for i, p in enumerate(pats):
            base = ("payload", vp, nf)
            bind_pattern(p, base if len(pats) == 1 else ("field", base, str(i)), env)
    elif k == "Struct":
        vp = (pat["path"].get("path") or "?")
        is_variant = pat["path"].get("dk") in ("Variant", "Ctor")
        for f in pat["fields"]:
            if is_variant:
                short = vp.rsplit("::", 1)[-1]
                base = ("payload", short, nf)
                # single positional field of Some/Ok/...: payload itself
                tgt = base if (f["name"] == "0" and len(pat["fields"]) == 1) else ("field", base, f["name"])
            else:
                tgt = ("field", nf, f["name"])
            bind_pattern(f["pat"], tgt, env)
    elif k in ("Wild", "Expr", "Missing", "Never", "Range"):
        pass
    elif k == "Or":
        for p in pat["pats"]:
            bind_pattern(p, nf, env)
    elif k == "Slice":
        for p in pat.get("before", []) + pat.get("after", []):
            bind_pattern(p, ("elem", nf), env)
    else:
        raise Unrecognised(f"pattern kind {k}", pat)


def nf_replace(n, old, new):
    """structural replacement of a sub-form"""
    if n == old:
        return new
    if not isinstance(n, tuple):
        return n
    return tuple(nf_replace(x, old, new) for x in n)


def _some_payload(v):
    """(value, condition) of `payload Some` of v: looks through Option::map"""
    if isinstance(v, tuple) and v[0] == "map":
        inner_val, inner_cond = ("payload", "Some", v[1]), ("islet", "Some(_)", v[1])
        return v[2], inner_cond
    if isinstance(v, tuple) and v[0] == "call" and v[1] == "Some" and len(v[2]) == 1:
        return v[2][0], None
    return ("payload", "Some", v), ("islet", "Some(_)", v)


def _list_items(nf):
    """items of a sequence-valued normal form, in list-builder notation: ('item', v) | ('star', src, v[, 'conditional'])"""
    if isinstance(nf, tuple) and nf[0] == "list":
        return list(nf[1])
    if isinstance(nf, tuple) and nf[0] == "tuple":
        return [("item", x) for x in nf[1]]
    src, val, conds = iter_view(nf)
    return [("star", src, val) if not conds else ("star", src, val, "conditional", tuple(c for c, _b in conds))]


def _opt_view(nf):
    """(condition, value) of an Option-valued normal form: the value it holds when it is Some, and when that is; None if unknown"""
    if not isinstance(nf, tuple):
        return None
    if nf[0] == "call" and nf[1] == "Some" and len(nf[2]) == 1:
        return True, nf[2][0]
    if nf[0] == "map":
        return ("islet", "Some(_)", nf[1]), nf[2]
    if nf[0] == "ifelse":
        a, b = _opt_view(nf[2]), nf[3]
        if a is not None and a[0] is True and isinstance(b, tuple) and b[0] == "const" and str(b[1]).endswith("None"):
            return nf[1], a[1]
        return None
    if nf[0] in ("field", "param", "payload", "elem"):
        return ("islet", "Some(_)", nf), ("payload", "Some", nf)
    return None


def _items_of(expr, nf):
    """list-builder items of one side of a `chain`: an Option (or its `into_iter()`) is zero or one item"""
    x = H.strip(expr)
    ty = (x.get("adj_ty") or "") + " " + (x.get("ty") or "")
    if "option::Option<" in ty or "option::IntoIter<" in ty:
        ov = _opt_view(nf)
        if ov is not None:
            return [("item", ov[1])] if ov[0] is True else [("opt", ov[0], ov[1])]
    return _list_items(nf)


def iter_view(it):
    """(source, element value, conditions): an iterator chain `src.filter(p).map(f).filter_map(g)` read as a loop over `src` whose
    body sees `element value` when all `conditions` [(cond_nf, True)] hold. Adaptors that change which elements are visited in a
    way a loop body could not (take, skip, step_by, rev, zip, chain, ..) are not looked through: they stay the source."""
    if isinstance(it, tuple) and it[0] == "call" and isinstance(it[1], str) and it[1].startswith("iter::") and len(it[2]) == 2:
        name = it[1][6:]
        recv, body = it[2]
        if name in ("map", "filter", "filter_map", "inspect"):
            src, val, conds = iter_view(recv)
            body2 = nf_replace(body, ("elem", recv), val)
            if name == "map":
                return src, body2, conds
            if name == "inspect":
                return src, val, conds
            if name == "filter":
                return src, val, conds + [(body2, True)]
            v, c = _some_payload(body2)
            return src, v, conds + ([(c, True)] if c is not None else [])
    return it, ("elem", it), []


def pat_label(p):
    return H.pat_desc(p)


def bool_tuple_match(scrut, arms):
    """`match (a, b) { (true, _) => .., (false, true) => .., (false, false) => .. }` over a tuple of booleans: per arm the
    condition under which it is taken *given that the earlier arms were not* (None for an arm that takes everything left), or None
    when the match is not of that form."""
    if not (isinstance(scrut, tuple) and scrut[0] == "tuple"):
        return None
    n = len(scrut[1])
    rows = []
    for a in arms:
        if a.get("guard"):
            return None
        p = a["pat"]
        if p.get("k") == "Wild":
            rows.append([None] * n)
            continue
        if p.get("k") != "Tuple" or len(p["pats"]) != n:
            return None
        row = []
        for q in p["pats"]:
            if q.get("k") == "Wild" or (q.get("k") == "Binding" and not q.get("sub")):
                row.append(None)
            elif q.get("k") == "Expr" and q.get("lit") == "bool":
                row.append(bool(q["v"]))
            else:
                return None
        rows.append(row)
    import itertools
    remaining = set(itertools.product([True, False], repeat=n))
    conds = []
    for row in rows:
        taken = {a for a in remaining if all(v is None or a[j] == v for j, v in enumerate(row))}
        if taken == remaining:
            conds.append(None)          # everything that is left: the else branch
            remaining = set()
            continue
        # literals of the row that actually discriminate among what is left
        lits = []
        for j, v in enumerate(row):
            if v is None:
                continue
            if all(a[j] == v for a in remaining):
                continue
            lits.append(scrut[1][j] if v else ("not", scrut[1][j]))
        c = lits[0] if lits else ("lit", True)
        for l in lits[1:]:
            c = ("binop", "And", c, l)
        conds.append(c)
        remaining -= taken
    return conds


def _strip_result_use(e):
    """`x?`, `x.unwrap()`, `x.expect(..)`, `x.ok()`: the expression x"""
    e = H.strip(e)
    for _ in range(3):
        if e.get("k") == "Try":
            e = H.strip(e["e"])
        elif e.get("k") == "MethodCall" and e["name"] in ("unwrap", "expect", "ok", "unwrap_or_default") and H.strip(e["recv"]).get("k") == "MethodCall":
            e = H.strip(e["recv"])
        else:
            break
    return e


def _assume_equal(nf, cond):
    """nf under the condition `x == "literal"`: x is that literal there"""
    if not (isinstance(cond, tuple) and cond[0] == "binop" and cond[1] == "Eq"):
        return nf
    a, b = cond[2], cond[3]
    if isinstance(a, tuple) and a[0] == "lit" and not (isinstance(b, tuple) and b[0] == "lit"):
        a, b = b, a
    if not (isinstance(b, tuple) and b[0] == "lit" and isinstance(b[1], str)) or (isinstance(a, tuple) and a[0] == "lit"):
        return nf

    def sub(n):
        if n == a:
            return b
        if isinstance(n, tuple):
            return tuple(sub(x) if isinstance(x, tuple) else x for x in n)
        return n
    return sub(nf)


def _fold_literal_format(nf):
    """a format whose pieces are all literal text is that text"""
    if isinstance(nf, tuple) and nf[0] == "format":
        out = []
        for p in nf[1]:
            if p[0] == "lit":
                out.append(p[1])
            elif p[0] == "hole" and isinstance(p[1], tuple) and p[1][0] == "lit" and isinstance(p[1][1], str) and (len(p) < 3 or p[2] == "display"):
                out.append(p[1][1])
            else:
                return nf
        return ("lit", "".join(out))
    return nf


def _is_local(e, lid):
    e = H.strip(e)
    while e.get("k") == "AddrOf" or (e.get("k") == "Unary" and e.get("op") == "Deref"):
        e = H.strip(e["e"])
    return e.get("k") == "Path" and e.get("res") == "local" and e.get("id") == lid


def _returned_value(e):
    """`{ return v; }` / `return v`: the expression v, else None"""
    e = H.strip(e)
    if e.get("k") == "Ret":
        return e.get("e")
    if e.get("k") == "Block":
        b = e["b"]
        if not b["stmts"] and b.get("tail"):
            return _returned_value(b["tail"])
        if len(b["stmts"]) == 1 and not b.get("tail") and b["stmts"][0].get("k") in ("Semi", "Expr"):
            return _returned_value(b["stmts"][0]["e"])
    return None


def _two_way_split(arms):
    """`match v { Variant(..) => a, _ => b }`: one pattern against everything else, no guards: reads as `if let Variant(..) = v`"""
    if len(arms) != 2 or any(a.get("guard") for a in arms):
        return False
    last = H.strip(arms[1]["pat"])
    first = H.strip(arms[0]["pat"])
    return last.get("k") == "Wild" and first.get("k") in ("TupleStruct", "Struct", "Path", "Expr")


def _cow_arms(arms):
    """`match cow { Cow::Borrowed(..) => a, Cow::Owned(..) => b }` (either order, no guards)"""
    if len(arms) != 2 or any(a.get("guard") for a in arms):
        return False
    names = sorted(((H.strip(a["pat"]).get("path") or {}).get("path", "")).rsplit("::", 1)[-1] for a in arms if H.strip(a["pat"]).get("k") == "TupleStruct")
    return names == ["Borrowed", "Owned"]


def _is_failure_value(e):
    """`Err(..)` or `None`"""
    e = H.strip(e)
    if e.get("k") == "Call":
        return (H.callee_path(e) or "").rsplit("::", 1)[-1] == "Err" and (e.get("ty") or "").startswith(("std::result::Result<", "core::result::Result<"))
    return e.get("k") == "Path" and (e.get("path") or "").rsplit("::", 1)[-1] == "None" and (e.get("ty") or "").startswith(("std::option::Option<", "core::option::Option<"))


def _binding_arms(arms):
    """every arm's pattern is a plain binding or `_`; all but the last carry a guard, the last does not"""
    if len(arms) < 2:
        return False
    for i, a in enumerate(arms):
        p = a["pat"]
        if not (p.get("k") == "Wild" or (p.get("k") == "Binding" and not p.get("sub"))):
            return False
        if bool(a.get("guard")) != (i < len(arms) - 1):
            return False
    return True


def _guarded_or_else(arms):
    """`P(x) if g(x) => a, _ => b`"""
    return len(arms) == 2 and bool(arms[0].get("guard")) and not arms[1].get("guard") and _catch_all(arms[1]["pat"])


def _literal_match(arms):
    """<= 3 arms, each a string/char/bool/int literal (or an or-pattern of them) except a final wildcard / binding: reads as an
    if / else-if chain of equality tests. Larger matches are tables and stay opaque."""
    if not (2 <= len(arms) <= 3) or any(a.get("guard") for a in arms):
        return False
    last = arms[-1]["pat"]
    if not (last.get("k") == "Wild" or (last.get("k") == "Binding" and not last.get("sub"))):
        return False
    for a in arms[:-1]:
        p = a["pat"]
        if not (p.get("k") == "Expr" and "lit" in p):
            return False
    return True


def _matches_macro(arms):
    """`match x { P => true, _ => false }` (what `matches!` expands to)"""
    if len(arms) != 2 or any(a.get("guard") for a in arms) or arms[1]["pat"].get("k") != "Wild":
        return False
    bodies = [H.strip(a["body"]) for a in arms]
    return all(b.get("k") == "Lit" and b.get("lit") == "bool" for b in bodies)


def _bool_patterns(arms):
    """every arm pattern is a wildcard or a tuple of boolean literals / wildcards, without guards"""
    if not arms:
        return False
    for a in arms:
        if a.get("guard"):
            return False
        p = a["pat"]
        if p.get("k") == "Wild":
            continue
        if p.get("k") != "Tuple":
            return False
        for q in p["pats"]:
            if not (q.get("k") == "Wild" or (q.get("k") == "Expr" and q.get("lit") == "bool")):
                return False
    return True


def _same_pattern(l1, l2):
    """two pattern labels that match the same values: equal up to the names of the bindings"""
    import re as _re
    norm = lambda l: _re.sub(r"\b[a-z_][a-z0-9_]*\b", "_", l)
    return norm(l1) == norm(l2)


def _catch_all(pat):
    """`_` or a plain binding (`other`): matches whatever reaches it"""
    k = pat.get("k")
    if k == "Wild":
        return True
    if k == "Binding" and not pat.get("sub"):
        return True
    if k in ("Ref", "Deref", "Box"):
        return _catch_all(pat["pat"])
    return False


def option_match(labels, arms):
    """Index of the Some/Ok arm of a two-armed match over an Option/Result without guards, else None."""
    if len(labels) != 2 or any(a.get("guard") for a in arms):
        return None
    for i in (0, 1):
        other = labels[1 - i]
        if labels[i].startswith(("Some(", "Ok(")) and (other.rsplit("::", 1)[-1] in ("None", "_") or other.startswith("Err(")):
            return i
    return None


def _can_leave_loop(e):
    """may the expression end the enclosing loop or function (`break`, `return`, `?`)? (`continue` only ends the round)"""
    for x in H.exprs(e):
        if x.get("k") in ("Break", "Ret", "Try"):
            return True
    return False


class NF:
    """Expression -> normal form, for one function body (params are roots)."""

    def __init__(self, facts, consts=None):
        self.F = facts
        self.consts = consts or {}
        self._clos = _CLOSURES   # id -> (closure node, environment at its definition): closures bound to locals are applied at their calls

    def _const_literal(self, path):
        """a named constant of the crate whose value is one literal (`const PREFIX: &str = "mod_";`, a char, a number, a bool) is that
        literal: naming a value does not change it"""
        if not hasattr(self, "_const_lits"):
            self._const_lits = {}
        if path in self._const_lits:
            return self._const_lits[path]
        self._const_lits[path] = None
        b = self.F.lib.body(path) if hasattr(self.F, "lib") else None
        if b is None and hasattr(self.F, "lib") and path.startswith("zeep_lib::"):
            b = self.F.lib.body(path[len("zeep_lib::"):])
        if b is not None and b.get("hir") is not None and str(b.get("kind", "")).startswith("Const"):
            try:
                v = H.strip(H.norm_body(b)["value"])
            except Unrecognised:
                v = {}
            while v.get("k") == "Block" and not v["b"]["stmts"] and v["b"].get("tail"):
                v = H.strip(v["b"]["tail"])
            if v.get("k") == "Lit" and v.get("lit") in ("str", "char", "int", "bool") and "v" in v \
                    and not (isinstance(v["v"], str) and (len(v["v"]) > 120 or "\n" in v["v"])):      # (not the text of a whole file)
                self._const_lits[path] = ("lit", v["v"])
        return self._const_lits[path]

    def nf(self, e, env):
        if e is None:
            return ("unknown", "none")
        e = H.strip(e)
        k = e.get("k")
        if k == "Path":
            if e.get("res") == "local":
                v = env.get(e["id"])
                return v if v is not None else ("local", e.get("name", "?"))
            if e.get("res") == "def":
                if e.get("dk", "").startswith(("Const", "AssocConst", "Static")):
                    lit = self._const_literal(e["path"])
                    return lit if lit is not None else ("const", e["path"])
                return ("const", e.get("path", "?"))
            return ("unknown", str(e.get("res")))
        if k == "Field":
            return ("field", self.nf(e["e"], env), e["name"])
        if k in ("AddrOf", "Cast"):
            return self.nf(e["e"], env)
        if k == "Unary":
            if e["op"] == "Deref":
                return self.nf(e["e"], env)
            if e["op"] == "Not":
                return ("not", self.nf(e["e"], env))
            return ("call", "op::" + e["op"], (self.nf(e["e"], env),))
        if k == "Lit":
            return ("lit", e.get("v"))
        if k == "Format":
            return self.format_nf(e["fa"], env)
        if k == "FormatArgs":
            return self.format_nf(e, env)
        if k == "Binary":
            return ("binop", e["op"], self.nf(e["a"], env), self.nf(e["b"], env))
        if k == "Tup":
            return ("tuple", tuple(self.nf(x, env) for x in e["es"]))
        if k == "Try":
            return ("payload", "Ok", self.nf(e["e"], env))
        if k == "Await":
            return ("call", "await", (self.nf(e["e"], env),))
        if k == "Block":
            return self.block_value(e["b"], env)
        if k == "If":
            c = e["cond"]
            c = H.strip(c)
            env_t = env.child()
            if c.get("k") == "LetExpr":
                base = self.nf(c["init"], env)
                bind_pattern(c["pat"], base, env_t)
                cond = ("islet", pat_label(c["pat"]), base)
            else:
                cond = self.nf(c, env)
            a = self.nf(e["then"], env_t)
            b = self.nf(e["else"], env) if e.get("else") else ("lit", None)
            return ("ifelse", cond, a, b)
        if k == "Match":
            scrut = self.nf(e["scrut"], env)
            live_arms = [a for a in e["arms"] if not _diverges(a["body"])]
            if live_arms and len(live_arms) < len(e["arms"]):
                # arms that leave the function (`X => return ..`) produce no value: the value is that of the arms that stay (the rest
                # of the block runs on those arms only, see diverging_match_conditions)
                if len(live_arms) == 1 and not live_arms[0].get("guard"):
                    env_a = env.child()
                    bind_pattern(live_arms[0]["pat"], scrut, env_a)
                    return self.nf(live_arms[0]["body"], env_a)
                e = dict(e, arms=live_arms)
            arms = []
            for a in e["arms"]:
                env_a = env.child()
                bind_pattern(a["pat"], scrut, env_a)
                arms.append((pat_label(a["pat"]), self.nf(a["body"], env_a)))
            if len(arms) == 2 and not any(a.get("guard") for a in e["arms"]) and arms[1][0] == "_" \
                    and arms[0][1] in (("lit", True), ("lit", False)) and arms[1][1] == ("lit", not arms[0][1][1]):
                # `matches!(x, P)`: a test of the shape of x
                t = ("islet", arms[0][0], scrut)
                return t if arms[0][1][1] else ("not", t)
            if _binding_arms(e["arms"]):
                # `match v { x if g(x) => a, y => b }`: every pattern takes anything, the guards choose
                v = arms[-1][1]
                for a, (_, val) in reversed(list(zip(e["arms"], arms))[:-1]):
                    env_a = env.child()
                    bind_pattern(a["pat"], scrut, env_a)
                    v = ("ifelse", self.nf(a["guard"], env_a), val, v)
                return v
            if _literal_match(e["arms"]):
                v = arms[-1][1]
                for a, (_, val) in reversed(list(zip(e["arms"], arms))[:-1]):
                    v = ("ifelse", ("binop", "Eq", scrut, ("lit", a["pat"].get("v"))), val, v)
                return v
            btm = bool_tuple_match(scrut, e["arms"])
            if btm is not None:
                v = arms[-1][1]
                for (c, (_, val)) in reversed(list(zip(btm, arms))[:-1] if btm[-1] is None else list(zip(btm, arms))):
                    if c is None:
                        v = val
                    else:
                        v = ("ifelse", c, val, v)
                return v
            if len(arms) == 2 and e["arms"][0].get("guard") and not e["arms"][1].get("guard") and _catch_all(e["arms"][1]["pat"]):
                # `match v { P(x) if g(x) => a, _ => b }` is `if let P(x) = v && g(x) { a } else { b }`
                env_a = env.child()
                bind_pattern(e["arms"][0]["pat"], scrut, env_a)
                return ("ifelse", ("binop", "And", ("islet", arms[0][0], scrut), self.nf(e["arms"][0]["guard"], env_a)), arms[0][1], arms[1][1])
            if len(arms) == 2 and not any(a.get("guard") for a in e["arms"]):
                # `match opt { Some(x) => a, None => b }` is `if let Some(x) = opt { a } else { b }`
                labels = [l for l, _ in arms]
                for i in (0, 1):
                    if labels[i].startswith(("Some(", "Ok(")) and (labels[1 - i].rsplit("::", 1)[-1] in ("None", "_") or labels[1 - i].startswith("Err(")):
                        return ("ifelse", ("islet", labels[i], scrut), arms[i][1], arms[1 - i][1])
            return ("match", scrut, tuple(arms))
        if k == "MethodCall":
            return self.method_nf(e, env)
        if k == "Call" and '"vec"' in str(e.get("exp", "")) + str(e.get("exp0", "")):
            arr = [x for x in H.exprs(e) if x.get("k") == "Array"]
            if arr:
                return ("list", tuple(("item", self.nf(x, env)) for x in arr[0]["es"]))
            return ("unknown", "vec! of unrecognised shape")
        if k == "Call":
            path = H.callee_path(e) or "?"
            decl = H.decl_path(e) or path
            args = tuple(self.nf(a, env) for a in e["args"])
            if (decl.endswith("iter::once") or decl.endswith("once::once")) and len(args) == 1:
                return ("list", (("item", args[0]),))
            f0 = H.strip(e["f"])
            if f0.get("k") == "Path" and f0.get("res") == "local":
                fv = env.get(f0["id"])
                if isinstance(fv, tuple) and fv[0] == "closure" and fv[1] in self._clos:
                    return apply_closure_value(self, fv, list(args))
                if isinstance(fv, tuple) and fv[0] in ("param", "call", "apply", "field"):
                    return ("apply", fv, args)      # `read(child, &name)` with `read` a parameter of closure type
            if any(decl.endswith(s) for s in IDENTITY_FNS) and len(args) == 1:
                return args[0]
            if not args and decl.endswith(("string::String::new", "String::new")):
                return ("lit", "")
            f = H.strip(e["f"])
            if f.get("k") == "Path" and f.get("dk", "").startswith("Ctor"):
                short = (f.get("path") or "?").rsplit("::", 1)[-1]
                if short in ("Some", "Ok") and len(args) == 1:
                    return ("call", short, args)
                if "Struct" in f.get("dk", "") and self.F.lib.body(f.get("path") or "") is None and not (f.get("path") or "").startswith(("std::", "core::", "alloc::")):
                    return ("call", "ctor:" + (f.get("path") or "?"), args)   # a tuple struct of the crate: `Wrapper(x)`
            targs = tuple(g for g in (f.get("gargs") or []) if g in NUMERIC_TYPES)
            if targs and len(targs) == len(f.get("gargs") or []):
                return ("call", path, args, ("targs", targs))   # explicit numeric type arguments (`parse_facet::<i32>(..)`)
            ga = tuple(g for g in (f.get("gargs") or []) if not str(g).startswith("'"))
            if ga and hasattr(self.F, "lib") and self.F.lib.body(path) is not None and not any(re.fullmatch(r"[A-Z]\w{0,2}", str(g)) for g in ga):
                _GARGS[(path, args)] = ga       # what the generic parameters of a function of the crate stand for at this call
                _GARGS.setdefault(("*", path), set()).add(tuple(re.sub(r"&'\w+ ", "&", str(g)) for g in ga))
            return ("call", path, args)
        if k == "Struct":
            return ("call", "struct:" + (e["path"].get("path") or "?"),
                    tuple(("field_init", f["name"], self.nf(f["e"], env)) for f in e["fields"]))
        if k == "Closure":
            self._clos[id(e)] = (e, env)
            return ("closure", id(e))
        if k == "Index":
            return ("elem", self.nf(e["a"], env))
        if k == "Array":
            return ("tuple", tuple(self.nf(x, env) for x in e["es"]))
        if k == "Ret":
            return ("unknown", "return")
        return ("unknown", str(k))

    def block_value(self, b, env):
        env2 = env.child()
        for i, s in enumerate(b["stmts"]):
            if s.get("k") == "Let":
                rest = b["stmts"][i + 1:] + ([{"k": "Expr", "e": b["tail"]}] if b.get("tail") else [])
                self.bind_let(s, env2, rest)
            elif s.get("k") in ("Semi", "Expr"):
                # `if c { return v; }` followed by the rest of the block: the block's value is `if c { v } else { rest }`
                e = H.strip(s["e"])
                if e.get("k") == "If" and not e.get("else") and H.strip(e["cond"]).get("k") != "LetExpr":
                    rv = _returned_value(e["then"])
                    if rv is not None:
                        cond = self.nf(e["cond"], env2)
                        val = self.nf(rv, env2)
                        rest_b = {"stmts": b["stmts"][i + 1:], "tail": b.get("tail")}
                        return ("ifelse", cond, val, self.block_value(rest_b, env2))
        if b.get("tail"):
            return self.nf(b["tail"], env2)
        return ("lit", None)

    MUTATORS = {"push", "push_str", "extend", "insert", "append", "clear", "pop", "remove", "retain", "truncate", "sort",
                "sort_by", "sort_by_key", "sort_unstable", "dedup", "dedup_by_key", "reverse", "drain", "entry", "get_mut",
                "iter_mut", "swap", "clone_from", "extend_from_slice", "swap_remove", "split_off", "resize", "fill", "write_fmt",
                "write_str", "insert_str"}

    def _mutations(self, lid, stmts):
        """Expressions in `stmts` that may mutate local `lid`."""
        out = []
        for x in H.exprs(stmts):
            k = x.get("k")
            if k == "MethodCall":
                r = H.strip(x["recv"])
                if r.get("k") == "Path" and r.get("res") == "local" and r.get("id") == lid and x["name"] in self.MUTATORS:
                    out.append(x)
            elif k in ("Assign", "AssignOp"):
                a = H.strip(x["a"])
                while a.get("k") in ("Field", "Index"):
                    a = H.strip(a.get("e") or a.get("a"))
                if a.get("k") == "Path" and a.get("res") == "local" and a.get("id") == lid:
                    out.append(x)
            elif k == "AddrOf" and x.get("mut"):
                a = H.strip(x["e"])
                if a.get("k") == "Path" and a.get("res") == "local" and a.get("id") == lid:
                    out.append(x)
        return out

    def bind_let(self, s, env, rest=None):
        """Bind a `let`. `rest` = the statements following it in the same block (for mutable builders)."""
        init = s.get("init")
        if init is None:
            for i, name in H.pat_bindings(s["pat"]):
                env.m[i] = ("local", name)
            return
        v = self.nf(init, env)
        pat = s["pat"]
        i0 = H.strip(init)
        if pat.get("k") == "Binding" and i0.get("k") == "MethodCall" and i0["name"] == "to_string" and not i0["args"]:
            # `let text = value.to_string();`: a later `{text}` shows `value` with its Display, whose type is what matters
            rty = (H.strip(i0["recv"]).get("ty") or "")
            if rty and "str" not in rty.replace("&", "").strip().lower()[:6] and "String" not in rty:
                if not hasattr(self, "_shown_ty"):
                    self._shown_ty = {}
                self._shown_ty[pat["id"]] = rty
        if pat.get("k") == "Binding" and "Mut" in pat.get("mode", "") and rest is not None:
            muts = self._mutations(pat["id"], rest)
            if muts:
                v = self._builder(pat, v, rest, env, muts)
        bind_pattern(pat, v, env)

    def _single_push(self, lid, body, env):
        """The loop body consists of exactly one `v.push(e)`, possibly nested in `if` / `if let` guards (and `let`s that do
        not touch v). Returns (nf(e), conditional) or None."""
        body = H.strip(body)
        conditional = False
        self._push_conds = []   # the conditions the push sits under (read by the builder right after)
        cur_env = env
        for _ in range(6):
            k = body.get("k")
            if k == "Block":
                b = body["b"]
                stmts = [x for x in b["stmts"]]
                tail = b.get("tail")
                lets = [x for x in stmts if x.get("k") == "Let"]
                others = [x for x in stmts if x.get("k") in ("Semi", "Expr")] + ([{"k": "Expr", "e": tail}] if tail else [])
                if not others or any(self._mutations(lid, [l]) for l in lets):
                    return None
                cur_env = cur_env.child()
                for l in lets:
                    self.bind_let(l, cur_env)
                touching = [i_ for i_, o in enumerate(others) if self._mutations(lid, [o["e"]])]
                if len(touching) != 1:
                    return None
                at = touching[0]
                # statements that only skip the element (`if !wanted(x) { continue; }`) in front of the push are conditions of it; other
                # work of the round that neither touches the list nor can leave the loop (`break`, `return`, `?`) is none of its business
                for o in others[:at]:
                    dc = diverge_condition(self, o["e"], cur_env)
                    if dc is not None:
                        self._push_conds.append(("not", dc))
                        conditional = True
                    elif _can_leave_loop(o["e"]):
                        return None
                for o in others[at + 1:]:
                    if _can_leave_loop(o["e"]):
                        return None
                body = H.strip(others[at]["e"])
                continue
            if k == "If" and not body.get("else"):
                c = H.strip(body["cond"])
                if c.get("k") == "LetExpr":
                    base = self.nf(c["init"], cur_env)
                    cur_env = cur_env.child()
                    bind_pattern(c["pat"], base, cur_env)
                    self._push_conds.append(("islet", pat_label(c["pat"]), base))
                else:
                    self._push_conds.append(self.nf(c, cur_env))
                conditional = True
                body = H.strip(body["then"])
                continue
            if k == "Match" and len(body.get("arms", [])) == 2 and not any(a.get("guard") for a in body["arms"]):
                # `match lookup { Some(x) => { v.push(..) } None => return Err(..) }`: the push where the value is there; the other arm
                # leaves with the error (as `?` would)
                arms = body["arms"]
                hit = [a for a in arms if self._mutations(lid, [a["body"]])]
                other = [a for a in arms if a not in hit]
                if len(hit) == 1 and len(other) == 1:
                    rv = _returned_value(other[0]["body"])
                    if rv is not None and _is_failure_value(rv):
                        base = self.nf(body["scrut"], cur_env)
                        cur_env = cur_env.child()
                        bind_pattern(hit[0]["pat"], base, cur_env)
                        body = H.strip(hit[0]["body"])
                        continue
                return None
            if k == "MethodCall" and body["name"] == "push" and self._mutations(lid, [body]):
                return self.nf(body["args"][0], cur_env), conditional
            if k == "MethodCall" and body["name"] == "insert" and len(body["args"]) == 2 and self._mutations(lid, [body]) \
                    and "Map<" in (str(H.strip(body["recv"]).get("ty") or "") + str(H.strip(body["recv"]).get("adj_ty") or "")):
                # `map.insert(key, value)` in a loop: the map is the list of the pairs (as `collect` of pairs would be)
                return ("tuple", (self.nf(body["args"][0], cur_env), self.nf(body["args"][1], cur_env))), conditional
            if k == "MethodCall" and body["name"] == "extend" and len(body["args"]) == 1 and self._mutations(lid, [body]) \
                    and str(H.strip(body["args"][0]).get("ty") or "").replace("&", "").strip().startswith("std::option::Option<"):
                # `v.extend(opt)`: what the Option holds is pushed, when it holds something
                opt = self.nf(body["args"][0], cur_env)
                self._push_conds.append(("islet", "Some", opt))
                return ("payload", "Some", opt), True
            return None
        return None

    def _string_builder(self, pat, rest, env, start=None):
        """text-builder idiom: `let mut s = String::new();` followed by `s.push_str(x)` statements and loops of the form
        `for (i, x) in it.enumerate() { if i > 0 { s.push_str(SEP) } s.push_str(f(x)) }` (or without separator). The value is the
        concatenation, loops as joins. None when the local is touched in any other way."""
        lid = pat["id"]
        parts = []
        if start is not None:
            parts = list(start[1]) if start[0] == "format" else [("lit", start[1])]
        env2 = env.child()

        def text_of(e, en):
            v = self.nf(e, en)
            if v[0] == "format":
                return list(v[1])
            if v[0] == "lit" and isinstance(v[1], str):
                return [("lit", v[1])]
            return [("hole", v, "display", "?")]
        for st in rest:
            k = st.get("k")
            if k == "Let" and st["pat"].get("k") == "Wild" and st.get("init") is not None:
                st = {"k": "Semi", "e": st["init"]}   # `let _ = write!(s, ..);`
                k = "Semi"
            if k == "Let":
                if self._mutations(lid, [st]):
                    return None
                self.bind_let(st, env2)
                continue
            e = H.strip(st.get("e")) if k in ("Semi", "Expr") else None
            if e is None or not self._mutations(lid, [e]):
                continue
            e = _strip_result_use(e)
            if e.get("k") == "MethodCall" and e["name"] in ("push_str", "push") and len(self._mutations(lid, [e])) == 1:
                parts += text_of(e["args"][0], env2)
                continue
            if e.get("k") == "If" and not e.get("else") and H.strip(e["cond"]).get("k") != "LetExpr":
                # `if c { s.push(x) }`: the text so far, with x appended when c holds (c may test the text so far)
                inner = [y for y in H.exprs(e["then"]) if y.get("k") == "MethodCall" and y["name"] in ("push_str", "push")]
                tb = H.strip(e["then"])
                only = tb.get("k") == "Block" and len(tb["b"]["stmts"]) + (1 if tb["b"].get("tail") else 0) == 1
                if len(inner) == 1 and only and len(self._mutations(lid, [e])) == 1 and _is_local(inner[0]["recv"], lid):
                    sofar = parts[0][1] if len(parts) == 1 and parts[0][0] == "hole" else ("format", tuple(parts))
                    env_c = env2.child()
                    env_c.m[lid] = sofar
                    cond = self.nf(e["cond"], env_c)
                    more = ("format", tuple(parts + text_of(inner[0]["args"][0], env_c)))
                    more = _fold_literal_format(_assume_equal(more, cond))
                    parts = [("hole", ("ifelse", cond, more, sofar), "display", "?")]
                    continue
                return None
            if e.get("k") == "MethodCall" and e["name"] == "write_fmt" and _is_local(e["recv"], lid):
                parts += text_of(e["args"][0], env2)
                continue
            if e.get("k") == "For":
                it = self.nf(e["iter"], env2)
                idx_id = None
                pat2 = e["pat"]
                if it[0] == "call" and str(it[1]).rsplit("::", 1)[-1] == "enumerate" and it[2] and pat2.get("k") == "Tuple" and len(pat2["pats"]) == 2:
                    it = it[2][0]
                    ip = pat2["pats"][0]
                    idx_id = ip.get("id") if ip.get("k") == "Binding" else None
                    pat2 = pat2["pats"][1]
                src, val, conds = iter_view(it)
                if conds and idx_id is not None:
                    return None
                guard = [c_ if b_ else ("not", c_) for c_, b_ in conds]     # what a round has to meet to append its text at all
                env3 = env2.child()
                bind_pattern(pat2, val, env3)
                body = H.strip(e["body"])
                if body.get("k") != "Block":
                    return None
                stmts = [x for x in body["b"]["stmts"]] + ([{"k": "Expr", "e": body["b"]["tail"]}] if body["b"].get("tail") else [])
                sep = ""
                pieces = []
                for j, x in enumerate(stmts):
                    xg = H.strip(x.get("e")) if x.get("k") in ("Semi", "Expr") else None
                    if xg is not None and xg.get("k") == "If" and not xg.get("else") and idx_id is None and H.strip(xg["cond"]).get("k") != "LetExpr" \
                            and self._mutations(lid, [xg]) and not pieces:
                        # `if wanted(x) { other.push(x); text.push_str(&format!(..)) }`: the round's text under a condition; what else the
                        # round does (and cannot leave the loop with) is not the text's business
                        tb = H.strip(xg["then"])
                        inner = (list(tb["b"]["stmts"]) + ([{"k": "Expr", "e": tb["b"]["tail"]}] if tb["b"].get("tail") else [])) if tb.get("k") == "Block" else []
                        env4 = env3.child()
                        got = None
                        okb = True
                        for y in inner:
                            if y.get("k") == "Let":
                                if self._mutations(lid, [y]):
                                    okb = False
                                    break
                                self.bind_let(y, env4)
                                continue
                            ye = H.strip(y.get("e")) if y.get("k") in ("Semi", "Expr") else None
                            if ye is None:
                                continue
                            ye = _strip_result_use(ye)
                            if not self._mutations(lid, [ye]):
                                if _can_leave_loop(ye):
                                    okb = False
                                    break
                                continue
                            if got is None and ye.get("k") == "MethodCall" and ye["name"] in ("push_str", "push") and _is_local(ye["recv"], lid):
                                got = text_of(ye["args"][0], env4)
                            elif got is None and ye.get("k") == "MethodCall" and ye["name"] == "write_fmt" and _is_local(ye["recv"], lid):
                                got = text_of(ye["args"][0], env4)
                            else:
                                okb = False
                                break
                        if okb and got is not None:
                            guard.append(self.nf(xg["cond"], env3))
                            pieces += got
                            continue
                        return None
                    if x.get("k") == "Let" and x["pat"].get("k") == "Wild" and x.get("init") is not None:
                        x = {"k": "Semi", "e": x["init"]}
                    if x.get("k") == "Let":
                        if self._mutations(lid, [x]):
                            return None
                        self.bind_let(x, env3)
                        continue
                    xe = H.strip(x.get("e")) if x.get("k") in ("Semi", "Expr") else None
                    if xe is None:
                        continue
                    if xe.get("k") == "If" and not xe.get("else") and idx_id is not None and not pieces and not sep:
                        c = H.strip(xe["cond"])
                        a_, b_ = (H.strip(c.get("a")), H.strip(c.get("b"))) if c.get("k") == "Binary" else (None, None)
                        on_idx = a_ is not None and a_.get("k") == "Path" and a_.get("id") == idx_id and b_.get("k") == "Lit" and b_.get("v") == 0 and c.get("op") in ("Gt", "Ne")
                        inner = [y for y in H.exprs(xe["then"]) if y.get("k") == "MethodCall" and y["name"] in ("push_str", "push")]
                        if on_idx and len(inner) == 1 and len(self._mutations(lid, [xe])) == 1:
                            sv = self.nf(inner[0]["args"][0], env3)
                            if sv[0] == "lit" and isinstance(sv[1], str):
                                sep = sv[1]
                                continue
                        return None
                    xe = _strip_result_use(xe)
                    if xe.get("k") == "MethodCall" and xe["name"] in ("push_str", "push") and len(self._mutations(lid, [xe])) == 1:
                        pieces += text_of(xe["args"][0], env3)
                        continue
                    if xe.get("k") == "MethodCall" and xe["name"] == "write_fmt" and _is_local(xe["recv"], lid):
                        pieces += text_of(xe["args"][0], env3)
                        continue
                    if self._mutations(lid, [xe]):
                        return None
                body_nf = ("format", tuple(pieces)) if not (len(pieces) == 1 and pieces[0][0] == "hole") else pieces[0][1]
                if guard:
                    gc = guard[0]
                    for g_ in guard[1:]:
                        gc = ("binop", "And", gc, g_)
                    body_nf = ("ifelse", gc, body_nf, ("lit", ""))      # a round that does not meet the conditions appends nothing
                # element references are in terms of ("elem", src) through iter_view's value
                parts.append(("hole", ("joinmap", src, body_nf, sep), "display", "?"))
                continue
            return None
        if len(parts) == 1 and parts[0][0] == "hole":
            return parts[0][1]
        return ("format", tuple(parts))

    def _builder(self, pat, init, rest, env, muts):
        """list-builder idiom: `let mut v = vec![..]; for x in it { v.push(e) }` / straight `v.push(e)`."""
        lid = pat["id"]
        if init[0] == "call" and str(init[1]).endswith(("Vec::<T>::new", "vec::Vec::<T>::new", "Vec::<T>::with_capacity", "vec::Vec::<T>::with_capacity")):
            init = ("list", ())       # (a capacity is no content)
        if init[0] == "call" and not init[2] and str(init[1]).rsplit("::", 1)[-1] in ("new", "default") and any(
                w in (H.strip(pat).get("ty") or "") for w in ("OrderedMap<", "BTreeMap<", "HashMap<", "Vec<", "BTreeSet<")):
            init = ("list", ())       # an empty map / list of the crate or of std, filled below
        is_string = (H.strip(pat).get("ty") or "").replace(" ", "") in ("std::string::String", "String", "alloc::string::String")
        if init[0] == "call" and (str(init[1]).endswith(("String::new", "string::String::new")) and not init[2]
                                  or is_string and str(init[1]).endswith(("String::with_capacity", "string::String::with_capacity"))):
            sb = self._string_builder(pat, rest, env)
            if sb is not None:
                return sb
        elif is_string and (init[0] == "lit" and isinstance(init[1], str) or init[0] == "format"):
            sb = self._string_builder(pat, rest, env, start=init)
            if sb is not None:
                return sb
        elif is_string and init[0] == "call" and str(init[1]).endswith("String::with_capacity"):
            sb = self._string_builder(pat, rest, env)
            if sb is not None:
                return sb
        elif is_string and init[0] not in ("unknown", "list"):
            # any other text to start from (`let mut s = f(x); if c { s.push('_') }`)
            sb = self._string_builder(pat, rest, env, start=("format", (("hole", init, "display", "?"),)))
            if sb is not None:
                return sb
        if init[0] != "list":
            # `let mut x = <init>; x.clone_from(&y);` at statement level: x == y afterwards
            if len(muts) == 1 and muts[0].get("k") == "MethodCall" and muts[0]["name"] == "clone_from":
                for st in rest:
                    e = H.strip(st.get("e")) if st.get("k") in ("Semi", "Expr") else None
                    if e is muts[0] or (e is not None and e.get("hid") == muts[0].get("hid") and e.get("k") == "MethodCall"):
                        env2 = env.child()
                        for st2 in rest:
                            if st2 is st:
                                break
                            if st2.get("k") == "Let":
                                self.bind_let(st2, env2)
                        return self.nf(muts[0]["args"][0], env2)
            if is_string and init[0] not in ("unknown",):
                rb = self._rewritten_in_loop(pat, init, rest, env)
                if rb is not None:
                    return rb
            fl = self._found_by_loop(pat, init, rest, env)
            if fl is not None:
                return fl
            return ("unknown", f"mutated local {pat['name']}")
        items = list(init[1])
        accounted = 0
        env2 = env.child()
        for st in rest:
            k = st.get("k")
            if k == "Let":
                if self._mutations(lid, [st]):
                    return ("unknown", f"mutated local {pat['name']}")
                self.bind_let(st, env2)
                continue
            e = H.strip(st.get("e")) if k in ("Semi", "Expr") else None
            if e is None:
                continue
            m = self._mutations(lid, [e])
            if not m:
                continue
            if e.get("k") == "MethodCall" and e["name"] == "push" and len(m) == 1:
                items.append(("item", self.nf(e["args"][0], env2)))
                accounted += 1
                continue
            if e.get("k") == "MethodCall" and e["name"] in ("extend", "extend_from_slice") and len(m) == 1 and len(e["args"]) == 1 and _is_local(e["recv"], lid):
                # `v.extend(more)`: the elements of `more` in order (an array literal, a constant array, another list, an iterator)
                more = self.nf(e["args"][0], env2)
                if more[0] == "const":
                    more = self._const_array(more[1]) or more
                if more[0] == "tuple":
                    items += [("item", x) for x in more[1]]
                elif more[0] == "list":
                    items += list(more[1])
                elif more[0] in ("const", "unknown", "local"):
                    return ("unknown", f"local {pat['name']} is extended with a value that could not be read")
                else:
                    items += _list_items(more)
                accounted += 1
                continue
            if e.get("k") == "For":
                it = self.nf(e["iter"], env2)
                src, val, conds = iter_view(it)
                env3 = env2.child()
                bind_pattern(e["pat"], val, env3)
                found = self._single_push(lid, e["body"], env3)
                if found is not None and len(m) == 1:
                    arg_nf, conditional = found
                    all_conds = tuple(c for c, _b in conds) + tuple(getattr(self, "_push_conds", []))
                    conditional = conditional or bool(conds)
                    items.append(("star", src, arg_nf) if not conditional else ("star", src, arg_nf, "conditional", all_conds))
                    accounted += 1
                    continue
            return ("unknown", f"local {pat['name']} is mutated through an unrecognised construct")
        if accounted != len(muts):
            return ("unknown", f"local {pat['name']} is mutated outside the enclosing block")
        return ("list", tuple(items))

    def _found_by_loop(self, pat, init, rest, env):
        """`let mut x = None; for c in it { if p(c) { x = Some(c); break; } }`: x is `it.find(p)` — the search written by hand. None when
        the local is touched in any other way."""
        lid = pat["id"]
        is_none = (init[0] == "const" and str(init[1]).rsplit("::", 1)[-1] == "None") or init == ("lit", None) or nf_str(init) == "None"
        if not is_none:
            return None
        loop = None
        env2 = env.child()
        for st in rest:
            k = st.get("k")
            if k == "Let":
                if self._mutations(lid, [st]):
                    return None
                if loop is None:
                    self.bind_let(st, env2)
                continue
            e = H.strip(st.get("e")) if k in ("Semi", "Expr") else None
            if e is None or not self._mutations(lid, [e]):
                continue
            if e.get("k") != "For" or loop is not None:
                return None
            loop = e
        if loop is None:
            return None
        body = H.strip(loop["body"])
        stmts = (list(body["b"]["stmts"]) + ([{"k": "Expr", "e": body["b"]["tail"]}] if body["b"].get("tail") else [])) if body.get("k") == "Block" else []
        if len(stmts) != 1 or stmts[0].get("k") not in ("Semi", "Expr"):
            return None
        iff = H.strip(stmts[0]["e"])
        if iff.get("k") != "If" or iff.get("else") is not None or H.strip(iff["cond"]).get("k") == "LetExpr":
            return None
        then = H.strip(iff["then"])
        ts = (list(then["b"]["stmts"]) + ([{"k": "Expr", "e": then["b"]["tail"]}] if then["b"].get("tail") else [])) if then.get("k") == "Block" else []
        if len(ts) != 2:
            return None
        asg, brk = H.strip(ts[0].get("e") or {}), H.strip(ts[1].get("e") or {})
        if asg.get("k") != "Assign" or brk.get("k") != "Break" or not _is_local(asg["a"], lid):
            return None
        it = self.nf(loop["iter"], env2)
        src, val, conds = iter_view(it)
        env3 = env2.child()
        bind_pattern(loop["pat"], val, env3)
        stored = self.nf(asg["b"], env3)
        if stored != ("call", "Some", (val,)):
            return None
        pred = self.nf(iff["cond"], env3)
        for c_, b_ in conds:
            pred = ("binop", "And", c_ if b_ else ("not", c_), pred)
        return ("call", "iter::find", (src, pred))

    def _rewritten_in_loop(self, pat, init, rest, env):
        """A text buffer that keeps its first value as a stem and gets a new tail every round of one loop:
        `let mut s = stem(); let n = s.len(); loop { .. use s ..; s.truncate(n); write!(s, "{x}") }`. Its value wherever it is read is
        the stem, or the stem followed by what one round appended: ("ifelse", <a later round>, stem + tail, stem). None when the local
        is touched in any other way."""
        lid = pat["id"]
        stem_len = None
        loop = None
        for st in rest:
            k = st.get("k")
            if k == "Let":
                if self._mutations(lid, [st]):
                    return None
                i0 = H.strip(st["init"]) if st.get("init") is not None else None
                if loop is None and i0 is not None and i0.get("k") == "MethodCall" and i0["name"] == "len" and not i0["args"] and _is_local(i0["recv"], lid) \
                        and st["pat"].get("k") == "Binding":
                    stem_len = st["pat"]["id"]
                continue
            e = H.strip(st.get("e")) if k in ("Semi", "Expr") else None
            if e is None or not self._mutations(lid, [e]):
                continue
            if e.get("k") != "Loop" or loop is not None:
                return None
            loop = e
        if loop is None or stem_len is None:
            return None
        tail = []
        truncated = False
        for m in self._mutations(lid, [loop]):
            if m.get("k") != "MethodCall":
                return None
            if m["name"] == "truncate" and len(m["args"]) == 1 and _is_local(m["args"][0], stem_len) and not tail:
                truncated = True
            elif m["name"] == "write_fmt" and truncated and H.strip(m["args"][0]).get("k") == "FormatArgs":
                tail.append(("hole", ("unknown", "what a round of the loop appends"), "display", "?"))
            elif m["name"] in ("push_str", "push") and truncated and len(m["args"]) == 1:
                tail.append(("hole", ("unknown", "what a round of the loop appends"), "display", "?"))
            else:
                return None
        if not truncated or not tail:
            return None
        stem = ("hole", init, "display", "?")
        return ("ifelse", ("unknown", "a later round of the loop"), ("format", (stem,) + tuple(tail)), init)

    def _const_array(self, path):
        """("tuple", items) for a constant of the crate that is an array literal"""
        for b in self.F.lib.bodies:
            if b["path"] == path and str(b.get("kind", "")).startswith(("Const", "Static")) and b.get("hir") is not None:
                try:
                    nb = H.norm_body(b)
                except Unrecognised:
                    return None
                v = H.strip(nb["value"])
                while v.get("k") == "AddrOf":
                    v = H.strip(v["e"])
                if v.get("k") == "Array":
                    return ("tuple", tuple(self.nf(x, Env()) for x in v["es"]))
        return None

    def format_nf(self, fa, env):
        parts = []
        for p in fa["parts"]:
            if p[0] == "lit":
                parts.append(("lit", p[1]))
            else:
                h = fa["holes"][p[1]]
                a = H.strip(h["arg"])
                v = self.nf(a, env)
                if v[0] == "lit" and isinstance(v[1], str) and h["trait"] == "debug" and not h.get("spec") and "str" in (a.get("ty") or "") \
                        and all(32 <= ord(c_) < 127 for c_ in v[1]):
                    # Debug of a (plain ASCII) string literal is the literal in quotes, `"` and `\` escaped: part of the template text
                    quoted = '"' + v[1].replace("\\", "\\\\").replace('"', '\\"') + '"'
                    if parts and parts[-1][0] == "lit":
                        parts[-1] = ("lit", parts[-1][1] + quoted)
                    else:
                        parts.append(("lit", quoted))
                    continue
                if v[0] == "lit" and isinstance(v[1], str) and h["trait"] == "display" and not h.get("spec") and "str" in (a.get("ty") or ""):
                    # Display of a string literal is the literal: part of the template text
                    if parts and parts[-1][0] == "lit":
                        parts[-1] = ("lit", parts[-1][1] + v[1])
                    else:
                        parts.append(("lit", v[1]))
                    continue
                hty = a.get("ty") or "?"
                if a.get("k") == "Path" and a.get("res") == "local" and a.get("id") in getattr(self, "_shown_ty", {}) and h["trait"] == "display":
                    hty = self._shown_ty[a["id"]]
                for gname, gty in (getattr(self, "_tymap", None) or {}).items():
                    hty = re.sub(r"\b" + re.escape(gname) + r"\b", gty, hty)      # inside `helper::<i32>`: a hole of type T is an i32
                parts.append(("hole", v, h["trait"], hty))
        merged = []
        for p in parts:
            if p[0] == "lit" and merged and merged[-1][0] == "lit":
                merged[-1] = ("lit", merged[-1][1] + p[1])
            else:
                merged.append(p)
        return ("format", tuple(merged))

    def closure_apply(self, clo, arg_nfs, env):
        """Normal form of the closure body with its parameters bound to arg_nfs."""
        clo = H.strip(clo)
        if clo.get("k") != "Closure":
            # a path to a function used as a callback (e.g. ToString::to_string)
            p = self.nf(clo, env)
            if isinstance(p, tuple) and p[0] == "closure" and p[1] in self._clos:
                # a closure bound to a local and handed over by name (`let f = |n| ..; x.is_some_and(f)`)
                return apply_closure_value(self, p, arg_nfs)
            if p[0] == "const" and any(p[1].endswith(s) for s in IDENTITY_FNS) and len(arg_nfs) == 1:
                return arg_nfs[0]
            if p[0] == "const":
                return ("call", p[1], tuple(arg_nfs))
            # a callable that is a parameter of this function, or what a helper returned: applied once the value is known
            return ("apply", p, tuple(arg_nfs))
        body = clo["body"]
        env2 = env.child()
        for pat, a in zip(body["params"], arg_nfs):
            bind_pattern(pat, a, env2)
        return self.nf(body["value"], env2)

    def method_nf(self, e, env):
        name = e["name"]
        path = e.get("inst_path") or e.get("path") or name
        recv = self.nf(e["recv"], env)
        args = e["args"]
        if name in IDENTITY_METHODS and not args:
            return recv
        if name == "chain" and len(args) == 1 and "Iterator" in (e.get("path") or ""):
            # `a.chain(b)`: the elements of a, then those of b (an Option on either side is zero or one element)
            return ("list", tuple(_items_of(e["recv"], recv)) + tuple(_items_of(args[0], self.nf(args[0], env))))
        if name == "then" and len(args) == 1 and "bool" in (e.get("path") or "") + (H.strip(e["recv"]).get("ty") or ""):
            return ("ifelse", recv, ("call", "Some", (self.closure_apply(args[0], [], env),)), ("const", "std::option::Option::None"))
        if name == "then_some" and len(args) == 1 and "bool" in (e.get("path") or "") + (H.strip(e["recv"]).get("ty") or ""):
            return ("ifelse", recv, ("call", "Some", (self.nf(args[0], env),)), ("const", "std::option::Option::None"))
        if name in ("map", "and_then", "is_some_and", "is_ok_and", "map_or", "map_or_else", "filter", "inspect", "find", "any",
                    "position", "filter_map", "unwrap_or_else", "ok_or_else", "for_each", "flat_map", "all", "find_map", "take_while",
                    "skip_while"):
            if "Iterator" in (e.get("path") or "") or (recv[0] == "call" and str(recv[1]).endswith(("children", "split", "chars", "lines"))):
                # iterator adapters keep the spine explicit
                clo = args[-1] if args else None
                body = self.closure_apply(clo, [("elem", recv)], env) if clo is not None else ("unknown", "no-closure")
                return ("call", "iter::" + name, (recv, body))
            if name in ("map", "and_then"):
                carrier = "Ok" if "result::Result" in (e.get("path") or "") else "Some"
                body = self.closure_apply(args[0], [("payload", carrier, recv)], env)
                # (`and_then`'s closure yields an Option / Result itself: marked, so that nobody takes its value for the payload)
                return ("map", recv, body) if name == "map" else ("map", recv, body, "flat")
            if name in ("is_some_and",):
                return ("call", "is_some_and", (recv, self.closure_apply(args[0], [("payload", "Some", recv)], env)))
            if name in ("filter",):
                # Option::filter(pred): Some(x) only if pred(x)
                return ("call", "Option::filter", (recv, self.closure_apply(args[0], [("payload", "Some", recv)], env)))
            if name in ("is_ok_and",):
                return ("call", "is_ok_and", (recv, self.closure_apply(args[0], [("payload", "Ok", recv)], env)))
            if name == "map_or":
                return ("ifelse", ("islet", "Some(_)", recv), self.closure_apply(args[1], [("payload", "Some", recv)], env),
                        self.nf(args[0], env))
            if name == "map_or_else":
                return ("ifelse", ("islet", "Some(_)", recv), self.closure_apply(args[1], [("payload", "Some", recv)], env),
                        self.closure_apply(args[0], [], env))
            if name in ("ok_or_else", "unwrap_or_else"):
                return ("call", name, (recv,))
        if name == "collect":
            return recv
        if name == "join" and recv[0] == "call" and recv[1] == "iter::map":
            return ("joinmap", recv[2][0], recv[2][1], self.nf(args[0], env)[1] if self.nf(args[0], env)[0] == "lit" else "?")
        if name == "parse" and not args and len(e.get("gargs") or []) == 1 and e["gargs"][0] in NARROW_INTEGERS:
            # the text of a number read into a type that does not hold every number a schema may write there: the type is part of
            # what the step does (`"4294967296".parse::<u32>()` fails)
            return ("call", path, (recv,), ("targs", (e["gargs"][0],)))
        return ("call", path, (recv,) + tuple(self.nf(a, env) for a in args))


# ---- output grammar ---------------------------------------------------------------------------

def _concrete_type_of(e):
    """the type of an expression before it was coerced to a trait object (references and boxes peeled), None if it is `dyn` itself"""
    x = H.strip(e)
    ty = x.get("ty") or ""
    t = ty
    for w in ("&mut ", "&", "std::boxed::Box<", "std::rc::Rc<", "std::sync::Arc<"):
        while t.startswith(w):
            t = t[len(w):]
            if w.endswith("<") and t.endswith(">"):
                t = t[:-1]
    t = t.strip()
    if not t or t.startswith("dyn ") or t == "!":
        return None
    return t


def _conjuncts(cond):
    """the conditions that hold on the branch where `cond` does: `if let Some(x) = opt.filter(p)` is taken when `opt` is Some and p
    holds of what it holds"""
    if isinstance(cond, tuple) and cond[0] == "islet" and str(cond[1]).startswith("Some(") and isinstance(cond[2], tuple) \
            and cond[2][0] == "call" and cond[2][1] == "Option::filter" and len(cond[2][2]) == 2:
        inner = ("islet", cond[1], cond[2][2][0])
        return _conjuncts(inner) + (("alt", nf_simplify(cond[2][2][1]), True),)
    if isinstance(cond, tuple) and cond[0] == "islet" and str(cond[1]).startswith("Some(") and isinstance(cond[2], tuple) and cond[2][0] == "ifelse":
        # `if c { None } else { opt }` is Some: c does not hold and `opt` is Some (and the other way round)
        c_, a_, b_ = cond[2][1], cond[2][2], cond[2][3]
        is_none = lambda v: isinstance(v, tuple) and ((v[0] == "const" and str(v[1]).rsplit("::", 1)[-1] == "None") or v == ("lit", None))
        if is_none(a_) and not is_none(b_):
            return (("alt", c_, False),) + _conjuncts(("islet", cond[1], b_))
        if is_none(b_) and not is_none(a_):
            return (("alt", c_, True),) + _conjuncts(("islet", cond[1], a_))
    if isinstance(cond, tuple) and cond[0] == "islet" and str(cond[1]).startswith("Some(") and isinstance(cond[2], tuple) \
            and cond[2][0] == "call" and cond[2][1] == "Some" and len(cond[2][2]) == 1:
        return ()      # `Some(x)` is Some
    return (("alt", cond, True),)


def _plain_local(e):
    e = H.strip(e)
    while e.get("k") == "AddrOf" or (e.get("k") == "Unary" and e.get("op") == "Deref"):
        e = H.strip(e["e"])
    return e.get("id") if e.get("k") == "Path" and e.get("res") == "local" else None


def _sink_type(ty):
    """the type of a parameter through which a writer function receives the output sink"""
    t = ty.replace("&mut ", "").replace("&", "").strip()
    if ty.replace(" ", "").replace("alloc::", "std::") == "&mutstd::string::String":
        return True      # a text buffer handed in to be appended to
    return t == "W" or "std::fmt::Formatter" in t or "dyn std::io::Write" in t or "dyn std::fmt::Write" in t or (t.isidentifier() and t[:1].isupper() and len(t) <= 3)


class _FlushMark:
    """where a text buffer is written to the sink as a whole"""
    kind = "flush"

    def __init__(self, name, ctx):
        self.name = name
        self.ctx = ctx


def _replay_buffers(events, buffers):
    """What was put into a text buffer comes out where the buffer is written to the sink, in the order in which it was put in (a buffer
    filled inside a loop that also writes to the sink itself comes out after the loop: a second walk over the same elements)."""
    marks = [e for e in events if getattr(e, "kind", None) == "flush"]
    if not marks:
        return events
    names = {n_: i_ for i_, n_ in buffers.items()}

    def sink_local(e):
        sink = getattr(e, "sink", None)
        sk = H.strip(sink) if isinstance(sink, dict) else None
        while isinstance(sk, dict) and (sk.get("k") == "AddrOf" or (sk.get("k") == "Unary" and sk.get("op") == "Deref")):
            sk = H.strip(sk["e"])
        return sk

    # a buffer is replayed only where that is what happens: something else reaches the output between what was put into the buffer
    # and the point where the buffer is written. Where everything in between goes into text buffers (the buffer itself, or a `&mut
    # String` parameter of a helper that stands for it), the order in which it was written is the order in which it comes out
    for m in marks:
        first = next((i_ for i_, e in enumerate(events) if getattr(e, "kind", None) == "emit" and isinstance(sink_local(e), dict)
                      and buffers.get(sink_local(e).get("id")) == m.name), None)
        mi = events.index(m)
        between = events[first:mi] if first is not None else []
        def goes_out(e):
            if getattr(e, "kind", None) == "call":
                return not any(isinstance(a_, tuple) and a_ and a_[0] == "param" and str(a_[1]).startswith("buffer:") for a_ in (getattr(e, "args", None) or []))
            if getattr(e, "kind", None) != "emit" or not isinstance(sink_local(e), dict):
                return False
            ty_ = ((sink_local(e).get("ty") or "") + " " + (sink_local(e).get("adj_ty") or "")).replace("alloc::", "std::")
            return "string::String" not in ty_ and "str" != ty_.strip()
        to_output = [e for e in between if goes_out(e)]
        if not to_output:
            m.name = None        # nothing to reorder for this buffer
    marks = [m for m in marks if m.name is not None]
    if not marks:
        return [e for e in events if getattr(e, "kind", None) != "flush"]
    held = {}
    out = []
    for e in events:
        if getattr(e, "kind", None) == "flush":
            if e.name is not None:
                out += held.pop(e.name, [])
            continue
        sink = getattr(e, "sink", None)
        sk = H.strip(sink) if isinstance(sink, dict) else None
        while isinstance(sk, dict) and (sk.get("k") == "AddrOf" or (sk.get("k") == "Unary" and sk.get("op") == "Deref")):
            sk = H.strip(sk["e"])
        lid = sk.get("id") if isinstance(sk, dict) and sk.get("k") in ("Path", "Binding") and (sk.get("res") == "local" or sk.get("k") == "Binding") else None
        bname = buffers.get(lid)
        if getattr(e, "kind", None) == "emit" and bname is not None and any(m.name == bname for m in marks):
            held.setdefault(bname, []).append(e)
        else:
            out.append(e)
    for rest in held.values():
        out += rest
    for i_, e in enumerate(out):
        if hasattr(e, "order"):
            e.order = i_
    return out


class Emit:
    def __init__(self, fn, node, fa, parts, ctx, propagated, order, sink):
        self.kind = "emit"
        self.fn = fn
        self.node = node
        self.fa = fa
        self.parts = parts          # tuple of ("lit", s) | ("hole", nf, trait)
        self.ctx = ctx              # tuple of ("star", iter_nf) | ("alt", cond_nf, branch)
        self.propagated = propagated
        self.order = order
        self.sink = sink
        self.site = H.sp(node)

    def text(self, hole=lambda i, nf, tr: "{" + nf_str(nf) + "}"):
        s = ""
        i = 0
        for p in self.parts:
            if p[0] == "lit":
                s += p[1]
            else:
                s += hole(i, p[1], p[2])
                i += 1
        return s

    def skeleton(self):
        return self.text(lambda i, nf, tr: "{}")

    def holes(self):
        """[(nf, trait, rust type of the argument)]"""
        return [(p[1], p[2], p[3]) for p in self.parts if p[0] == "hole"]


class CallEv:
    def __init__(self, fn, node, callee, args, ctx, propagated, order, how):
        self.kind = "call"
        self.fn = fn
        self.node = node
        self.callee = callee
        self.args = args            # list of NFs (method receiver first)
        self.ctx = ctx
        self.propagated = propagated  # 'try' | 'returned' | 'unwrap' | 'dropped' | ...
        self.order = order
        self.how = how
        self.site = H.sp(node)


def _lines_of_parts(parts):
    """the parts of a template cut after every newline of its literal text"""
    lines = [[]]
    for p in parts:
        if p[0] != "lit" or "\n" not in p[1]:
            lines[-1].append(p)
            continue
        chunks = p[1].split("\n")
        for i, ch in enumerate(chunks):
            last = i == len(chunks) - 1
            text = ch + ("" if last else "\n")
            if text:
                lines[-1].append(("lit", text))
            if not last:
                lines.append([])
    return [tuple(l) for l in lines if l]


def _split_emit(ev):
    """One emit per output line: a template with newlines inside becomes several emits (same site, same context)."""
    pieces = [[]]
    for p in ev.parts:
        if p[0] != "lit" or "\n" not in p[1][:-1]:
            pieces[-1].append(p)
            continue
        chunks = p[1].split("\n")
        for i, ch in enumerate(chunks):
            last = i == len(chunks) - 1
            text = ch + ("" if last else "\n")
            if text:
                pieces[-1].append(("lit", text))
            if not last:
                pieces.append([])
    pieces = [pc for pc in pieces if pc]
    if len(pieces) <= 1:
        return [ev]
    return [Emit(ev.fn, ev.node, ev.fa, tuple(pc), ev.ctx, ev.propagated, ev.order, ev.sink) for pc in pieces]


def _ends_line(ev):
    last = ev.parts[-1] if ev.parts else None
    return last is None or (last[0] == "lit" and last[1].endswith("\n")) or (len(ev.parts) == 1 and last[0] == "hole")


def _join_run(run):
    """run: consecutive emits that together write one line (all but the last do not end in a newline). Returns one emit per
    consistent choice of the branch conditions that distinguish them, or None when the run cannot be read as alternatives."""
    base = run[0].ctx
    n = 0
    for e in run[1:]:
        k = 0
        while k < len(base) and k < len(e.ctx) and base[k] == e.ctx[k]:
            k += 1
        base = base[:k]
    extra = []
    for e in run:
        for c in e.ctx[len(base):]:
            if c[0] != "alt":
                return None   # a loop inside a line: left alone
            if (c[1]) not in extra:
                extra.append(c[1])
    if len(extra) > 4:
        return None
    out = []
    import itertools
    for vals in itertools.product([True, False], repeat=len(extra)):
        assign = dict(zip(extra, vals))
        # (two spellings of one decision — `x` and `!x` — go together)
        seen_dec = {}
        consistent = True
        for c_, v_ in assign.items():
            try:
                k_, d_ = decision(c_, v_)
            except Exception:
                k_, d_ = ("cond", c_), v_
            if seen_dec.setdefault(k_, d_) != d_:
                consistent = False
                break
        if not consistent:
            continue
        parts = []
        used = []
        for e in run:
            if all(assign[c[1]] == c[2] for c in e.ctx[len(base):]):
                parts += list(e.parts)
                used += [c[1] for c in e.ctx[len(base):]]
        if not parts:
            continue
        merged = []
        for p in parts:
            if p[0] == "lit" and merged and merged[-1][0] == "lit":
                merged[-1] = ("lit", merged[-1][1] + p[1])
            else:
                merged.append(p)
        # a part that is left out was left out for a reason: the conditions it sits under did not all hold. Where they are not
        # among the conditions of the parts that were written, that reason is part of this alternative's context
        left_out = []
        for e in run:
            own = e.ctx[len(base):]
            if own and not all(assign[c[1]] == c[2] for c in own) and not any(c[1] in used for c in own):
                if len(own) == 1:
                    left_out.append(("alt", own[0][1], not own[0][2]))
                else:
                    conj = None
                    for c in own:
                        term = c[1] if c[2] else ("not", c[1])
                        conj = term if conj is None else ("binop", "And", conj, term)
                    left_out.append(("alt", conj, False))
        ctx = base + tuple(("alt", c, assign[c]) for c in extra if c in used) + tuple(dict.fromkeys(left_out))
        key = (tuple(merged), ctx)
        if key not in [(o.parts, o.ctx) for o in out]:
            first = run[0]
            prop = first.propagated if all(e.propagated == first.propagated for e in run) else next(e.propagated for e in run if e.propagated != "try")
            out.append(Emit(first.fn, first.node, first.fa, tuple(merged), ctx, prop, first.order, first.sink))
    # a choice irrelevant to the text yields duplicates that differ only in context: keep them (they are alternatives)
    return out


def normalize_lines(events):
    """Canonical granularity of the output grammar: exactly one line of output per emit. Templates holding several lines are split,
    consecutive partial writes (`write!` .. `writeln!`) of one function are joined into the line they produce (one emit per
    combination of the branches taken in between)."""
    split = []
    for ev in events:
        split += _split_emit(ev) if ev.kind == "emit" else [ev]
    out = []
    i = 0
    while i < len(split):
        ev = split[i]
        if ev.kind != "emit" or _ends_line(ev):
            out.append(ev)
            i += 1
            continue
        j = i
        run = []
        ended = []   # contexts of the emits that completed the line so far
        ok = True
        while j < len(split):
            e = split[j]
            if e.kind != "emit":
                ok = False
                break
            if ended and not any(_exclusive_ctx(e.ctx, c) for c in ended):
                break   # this emit can follow a completed line: it starts the next one
            run.append(e)
            j += 1
            if len(run) > 1 and len(e.parts) == 1 and e.parts[0][0] == "hole" and j < len(split) and split[j].kind == "emit" and split[j].ctx == e.ctx \
                    and split[j].parts and split[j].parts[0][0] == "lit" and not split[j].parts[0][1][:1].isspace() and split[j].parts[0][1][:1] not in ("", "#", "/"):
                # a value pushed in the middle of a line that is put together piece by piece (`"self."`, name, `".check(..)?;\n"`): the
                # text goes on right behind it
                continue
            if _ends_line(e):
                ended.append(e.ctx)
                if not [c for c in e.ctx[len(_common(run)):] if c[0] == "alt"]:
                    break
        ok = ok and bool(run) and bool(ended)
        joined = _join_run(run) if ok and len(run) > 1 else None
        if joined:
            for je in joined:
                out += _split_emit(je)
            i = j
        else:
            out.append(ev)
            i += 1
    out = [ev for ev in out if ctx_feasible(ev.ctx)]
    out = [ev for ev in out if ev.kind != "emit" or any(p[0] != "lit" or p[1] != "" for p in ev.parts)]     # writing "" writes nothing
    for ev in out:
        ev.ctx = tuple(c for c in ev.ctx if not _constant_true(c))
    out = _zip_branches(out)
    out = _merge_complementary(out)
    for k, ev in enumerate(out):
        ev.order = k
    return out


def _constant_true(c):
    """a branch condition that always holds on the branch taken: `if let Some(x) = Some(v)`"""
    if c[0] != "alt":
        return False
    k, v = decision(c[1], c[2])
    if k[0] == "some":
        base = k[1]
        if isinstance(base, tuple) and base[0] == "call" and base[1] == "Some" and v:
            return True
        if ((isinstance(base, tuple) and base[0] == "lit" and base[1] is None) or nf_str(base) == "None") and not v:
            return True
    return False


def _zip_branches(events):
    """`if c { A1 A2 A3 } else { B1 B2 B3 }` with as many lines on either side is read line by line: a line both sides write is written
    unconditionally (`A2 == B2`: the `pub struct N {` between two alternative attribute lines), the others alternate. The text of
    either branch is unchanged; what changes is that a common line is not conditional."""
    out = []
    i, n = 0, len(events)
    while i < n:
        ev = events[i]
        done = False
        if ev.kind == "emit":
            for depth in range(len(ev.ctx) - 1, -1, -1):
                c = ev.ctx[depth]
                if c[0] != "alt":
                    continue
                base = ev.ctx[:depth]
                d1 = decision(c[1], c[2])
                # the run under (base, c) and the run right after it under (base, not c)
                j = i
                while j < n and events[j].kind == "emit" and events[j].ctx[:depth] == base and len(events[j].ctx) > depth \
                        and events[j].ctx[depth][0] == "alt" and decision(events[j].ctx[depth][1], events[j].ctx[depth][2]) == d1:
                    j += 1
                k = j
                while k < n and events[k].kind == "emit" and events[k].ctx[:depth] == base and len(events[k].ctx) > depth \
                        and events[k].ctx[depth][0] == "alt" and decision(events[k].ctx[depth][1], events[k].ctx[depth][2]) == (d1[0], not d1[1]):
                    k += 1
                A, B = events[i:j], events[j:k]
                if A and B and len(A) == len(B) and len(A) > 1 and any(a.parts == b.parts and a.ctx[depth + 1:] == b.ctx[depth + 1:] for a, b in zip(A, B)) \
                        and A[0].node is not B[0].node:
                    for a, b in zip(A, B):
                        if a.parts == b.parts and a.ctx[depth + 1:] == b.ctx[depth + 1:]:
                            a.ctx = base + a.ctx[depth + 1:]
                            out.append(a)
                        else:
                            out += [a, b]
                    i = k
                    done = True
                    break
        if not done:
            out.append(ev)
            i += 1
    return out


def _merge_complementary(events):
    """The variants of one statement (a multi-line hole chosen by a condition `c` in front of a fixed last line) all end in the
    same line: that line is written either way, so it is one emit without the condition, after the lines that differ.
    `[x (c)] [y (!c), x (!c)]` -> `[y (!c)] [x]`."""
    out = []
    i = 0
    n = len(events)
    while i < n:
        ev = events[i]
        if ev.kind != "emit":
            out.append(ev)
            i += 1
            continue
        j = i
        while j < n and events[j].kind == "emit" and events[j].node is ev.node:
            j += 1
        run = events[i:j]
        variants = []
        for e in run:
            if variants and variants[-1][0].ctx == e.ctx:
                variants[-1].append(e)
            else:
                variants.append([e])
        merged = None
        if len(variants) == 2:
            va, vb = variants
            ca, cb = va[0].ctx, vb[0].ctx
            if len(ca) == len(cb) and ca and ca[:-1] == cb[:-1] and ca[-1][0] == "alt" and cb[-1][0] == "alt" and va[-1].parts == vb[-1].parts:
                d1, d2 = decision(ca[-1][1], ca[-1][2]), decision(cb[-1][1], cb[-1][2])
                if d1[0] == d2[0] and d1[1] != d2[1]:
                    last = va[-1]
                    last.ctx = ca[:-1]
                    merged = va[:-1] + vb[:-1] + [last]
        out += merged if merged is not None else run
        i = j
    return out


def _exclusive_ctx(c1, c2):
    """two contexts that cannot both hold: opposite branches of one condition"""
    a1 = {(c[1], c[2]) for c in c1 if c[0] == "alt"}
    return any((c[1], not c[2]) in a1 for c in c2 if c[0] == "alt")


def _common(run):
    base = run[0].ctx
    for e in run[1:]:
        k = 0
        while k < len(base) and k < len(e.ctx) and base[k] == e.ctx[k]:
            k += 1
        base = base[:k]
    return base


class Extractor:
    def __init__(self, facts):
        self.F = facts
        self.lib = facts.lib
        self.NF = NF(facts)
        del _DECISION_CE[:]
        _DECISION_CE.append(CallExpander(self.F, general_matches=True))      # (accessor methods met in branch conditions, see `decision`)
        self._buffers = {}       # local id -> name: text buffers that are filled piecewise and written to the sink as a whole
        self._wclos = {}         # local id -> (closure node, environment): closures that write to a sink they captured
        self._wclos_ids = set()
        self._scan_buffers()
        self.writer_fns = self._find_writer_fns()
        self._scan_writer_closures()
        self.events = {}   # fn path -> [Emit|CallEv]
        self.params = {}   # fn path -> [param names]
        self.errors = {}   # fn path -> Unrecognised
        for p in sorted(self.writer_fns):
            try:
                self.events[p] = self._extract_fn(p)
            except Unrecognised as u:
                self.errors[p] = u
                self.events[p] = []

    # -- text buffers and writer closures ---------------------------------------------------------
    BUFFER_WRITES = ("push_str", "push", "write_fmt", "write_str", "write_char")

    def _scan_buffers(self):
        """A local `String` that is only appended to (push_str / push / write! / `+=` / handed as `&mut` to a function that appends)
        and then written to the sink as a whole, once (`writer.write_all(text.as_bytes())`), is the sink at one remove: what goes
        into it is what comes out, in the same order. Any other use of the local (read, compared, cleared, moved) disqualifies it."""
        for b in self.lib.bodies:
            if b.get("hir") is None or "yaserde_tests" in b["path"]:
                continue
            try:
                nb = H.norm_body(b)
            except Unrecognised:
                continue
            decl = {}
            for x in H.walk(nb["value"]):
                if x.get("k") == "Let" and x["pat"].get("k") == "Binding" and (x["pat"].get("ty") or "").replace("alloc::", "std::") == "std::string::String" \
                        and "Mut" in str(x["pat"].get("mode", "")):
                    decl[x["pat"]["id"]] = x["pat"]["name"]
            if not decl:
                continue
            flushed, spoiled = {}, set()

            def local_of(e):
                e = H.strip(e)
                while e.get("k") == "AddrOf" or (e.get("k") == "Unary" and e.get("op") == "Deref") or \
                        (e.get("k") == "MethodCall" and e["name"] in ("as_bytes", "as_str", "as_ref", "as_mut_str") and not e["args"]):
                    e = H.strip(e["recv"] if e.get("k") == "MethodCall" else e["e"])
                return e.get("id") if e.get("k") == "Path" and e.get("res") == "local" else None

            def visit(n, role=None):
                if isinstance(n, list):
                    for y in n:
                        visit(y)
                    return
                if not isinstance(n, dict):
                    return
                k = n.get("k")
                if k == "Path" and n.get("res") == "local" and n.get("id") in decl:
                    spoiled.add(n["id"])      # a use that none of the cases below accounted for
                    return
                if k == "MethodCall":
                    l = local_of(n["recv"])
                    if l in decl and n["name"] in self.BUFFER_WRITES:
                        visit(n["args"])
                        return
                    if n["name"] in ("write_all", "write_str") and len(n["args"]) == 1 and local_of(n["args"][0]) in decl and local_of(n["recv"]) not in decl:
                        flushed[local_of(n["args"][0])] = flushed.get(local_of(n["args"][0]), 0) + 1
                        visit(n["recv"])
                        return
                    if n["name"] == "write_fmt" and len(n["args"]) == 1 and local_of(n["recv"]) not in decl:
                        # `write!(writer, "{buffer}")`: the buffer as a whole, nothing around it
                        fa_ = H.strip(n["args"][0])
                        if fa_.get("k") == "FormatArgs" and [p_[0] for p_ in fa_["parts"]] == ["hole"] and len(fa_["holes"]) == 1 \
                                and fa_["holes"][0]["trait"] == "display" and not fa_["holes"][0].get("spec") and local_of(fa_["holes"][0]["arg"]) in decl:
                            bl = local_of(fa_["holes"][0]["arg"])
                            flushed[bl] = flushed.get(bl, 0) + 1
                            visit(n["recv"])
                            return
                if k == "AssignOp" and local_of(n.get("a") or {}) in decl and n.get("op") == "Add":
                    visit(n.get("b"))
                    return
                if k == "Call":
                    cp = H.callee_path(n) or ""
                    cb = self.lib.body(cp)
                    if cb is not None and cb.get("hir") is not None:
                        ptys = [(q.get("ty") or "") for q in cb["hir"]["params"]]
                        for i_, a in enumerate(n["args"]):
                            a0 = H.strip(a)
                            if i_ < len(ptys) and ptys[i_].replace(" ", "").replace("alloc::", "std::") == "&mutstd::string::String" and local_of(a0) in decl \
                                    and a0.get("k") == "AddrOf":
                                continue
                            visit(a)
                        visit(n["f"])
                        return
                for key, v in n.items():
                    if key in ("pat",):
                        continue
                    if isinstance(v, (dict, list)):
                        visit(v)
            visit(nb["value"])
            for l, name in decl.items():
                if flushed.get(l) == 1 and l not in spoiled:
                    self._buffers[l] = name

    def _scan_writer_closures(self):
        for b in self.lib.bodies:
            if b.get("hir") is None or b.get("closure") or "yaserde_tests" in b["path"]:
                continue
            try:
                nb = H.norm_body(b)
            except Unrecognised:
                continue
            for x in H.walk(nb["value"]):
                if x.get("k") == "Let" and x["pat"].get("k") == "Binding" and x.get("init") is not None:
                    c = H.strip(x["init"])
                    if c.get("k") == "Closure" and self._writes(c["body"]["value"]):
                        self._wclos_ids.add(x["pat"]["id"])

    def _type_arguments(self, e, path):
        """{generic parameter of the callee: concrete type} for the type parameters the call fixes (lifetimes, and parameters that
        stay generic — the sink `W` handed on — left out)"""
        if not hasattr(self, "_fn_generics"):
            self._fn_generics = {f["path"]: f.get("generics") or [] for f in self.lib.items.get("fns", [])}
        names = self._fn_generics.get(path) or []
        ga = (H.strip(e["f"]).get("gargs") if e.get("k") == "Call" else e.get("gargs")) or []
        if not names or len(names) != len(ga):
            return {}
        generic_here = re.compile(r"^[A-Z]\w{0,2}$")
        return {n: g for n, g in zip(names, ga) if not n.startswith("'") and g != n and not generic_here.match(g) and not g.startswith("'") and "impl " not in g
                and "dyn " not in g and "io::Write" not in g and "fmt::Write" not in g and "Formatter" not in g and "std::vec::Vec<u8>" not in g}      # (the sink's type is no property of the text)

    def _string_sink_index(self, path):
        """index of the `&mut String` parameter through which a writer function appends (None when its sink is a real writer)"""
        b = self.lib.body(path)
        if b is None or b.get("hir") is None:
            return None
        for i_, q in enumerate(b["hir"]["params"]):
            t = (q.get("ty") or "").replace(" ", "").replace("alloc::", "std::")
            if t == "&mutstd::string::String":
                return i_
            if _sink_type(q.get("ty") or ""):
                return None
        return None

    # -- which functions write --------------------------------------------------------------------
    def _find_writer_fns(self):
        direct = set()
        calls = {}
        for b in self.lib.bodies:
            if b.get("closure") or b.get("hir") is None or not b["kind"].endswith("Fn"):
                continue
            try:
                nb = H.norm_body(b)
            except Unrecognised:
                direct.add(b["path"])
                continue
            cs = set()
            param_ids = {i for p in nb["params"] for i, _ in H.pat_bindings(p)}
            string_params = {i for p, q in zip(nb["params"], b["hir"]["params"]) for i, _ in H.pat_bindings(p)
                             if (q.get("ty") or "").replace(" ", "").replace("alloc::", "std::") == "&mutstd::string::String"}
            for x in H.exprs(nb["value"]):
                if x.get("k") == "MethodCall" and x.get("name") in ("write_fmt", "write_all", "write_str"):
                    # only writes to a sink handed in as a parameter: `write!(local_string, ..)` builds a value, it emits nothing
                    pth = (x.get("path") or "") + " " + (x.get("inst_path") or "")
                    if x.get("name") != "write_fmt" and not any(t in pth for t in ("std::io::Write", "std::fmt::Write", "std::fmt::Formatter", "core::fmt::")):
                        continue
                    r = H.strip(x["recv"])
                    while r.get("k") == "AddrOf" or (r.get("k") == "Unary" and r.get("op") == "Deref"):
                        r = H.strip(r["e"])
                    if r.get("k") == "Path" and r.get("res") == "local" and r.get("id") in param_ids:
                        direct.add(b["path"])
                if x.get("k") == "MethodCall" and x.get("name") in ("push_str", "push") and string_params:
                    r = H.strip(x["recv"])
                    while r.get("k") == "AddrOf" or (r.get("k") == "Unary" and r.get("op") == "Deref"):
                        r = H.strip(r["e"])
                    if r.get("k") == "Path" and r.get("res") == "local" and r.get("id") in string_params:
                        direct.add(b["path"])
                if x.get("k") in ("MethodCall", "Call"):
                    p = H.callee_path(x)
                    if p:
                        cs.add(p)
                        cs.update(self.trait_impls(p))     # a call through a trait of the crate (generic or `dyn`): any of its impls
            calls[b["path"]] = cs
        writers = set(direct)
        changed = True
        while changed:
            changed = False
            for f, cs in calls.items():
                if f not in writers and cs & writers:
                    # only functions that take a sink parameter are writers
                    b = self.lib.body(f)
                    if any(_sink_type(p.get("ty") or "") for p in b["hir"]["params"]):
                        writers.add(f)
                        changed = True
        return writers

    def is_sink(self, e):
        e = H.strip(e)
        ty = e.get("adj_ty") or e.get("ty") or ""
        return ty.replace("&mut ", "").strip() in ("W",) or "std::fmt::Formatter" in ty

    # -- per function -----------------------------------------------------------------------------
    def _extract_fn(self, path):
        b = self.lib.body(path)
        nb = H.norm_body(b)
        env = Env()
        names = []
        for p in nb["params"]:
            bs = list(H.pat_bindings(p))
            for i, name in bs:
                env.m[i] = ("param", name)
            pp = H.strip(p) if isinstance(p, dict) else p
            while isinstance(pp, dict) and pp.get("k") in ("Ref", "Deref", "Box"):
                pp = pp["pat"]
            if isinstance(pp, dict) and pp.get("k") == "Tuple" and all(q.get("k") == "Binding" and not q.get("sub") for q in pp["pats"]):
                names.append(tuple(q["name"] for q in pp["pats"]))     # `(a, b): (&str, &str)`: one positional parameter, two names
            elif len(bs) == 1:
                names.append(bs[0][1])
            else:
                names.append(None if not bs else tuple(n for _i, n in bs))
        self.params[path] = names
        out = []
        self._visit(path, nb["value"], env, (), out, how="tail")
        out = _replay_buffers(out, self._buffers)
        if CANON:
            out = normalize_lines(out)
        return out

    def _ce(self):
        if getattr(self, "CE", None) is None:
            self.CE = CallExpander(self.F)
        return self.CE

    def trait_impls(self, decl):
        """paths of the impls of a method of a trait of this crate, when `decl` is the trait's own (unresolved) method path"""
        if not hasattr(self, "_trait_impls"):
            self._trait_impls = {}
            local_traits = {t["path"] for t in self.lib.items.get("traits", [])}
            for b in self.lib.bodies:
                pth = b["path"]
                if pth.startswith("<") and " as " in pth and ">::" in pth and "{closure" not in pth:
                    tr = pth.split(" as ", 1)[1].rsplit(">::", 1)[0]
                    tr_base = re.sub(r"<.*$", "", tr)
                    if tr_base in local_traits:
                        self._trait_impls.setdefault(tr_base + "::" + pth.rsplit(">::", 1)[1], []).append(pth)
        return self._trait_impls.get(decl, []) if self.lib.body(decl) is None or decl not in self.lib.by_path else []

    def _is_sink(self, recv, env):
        """the receiver is the generic writer handed to the function (a parameter, possibly reborrowed)"""
        r = H.strip(recv)
        while r.get("k") in ("AddrOf",) or (r.get("k") == "Unary" and r.get("op") == "Deref"):
            r = H.strip(r["e"])
        if r.get("k") != "Path" or r.get("res") != "local":
            return False
        v = env.get(r["id"])
        return isinstance(v, tuple) and v[0] == "param"

    def _writes(self, e):
        """Does the expression contain a write site or a call to a writer function?"""
        for x in H.exprs(e):
            if x.get("k") == "MethodCall" and x.get("name") == "write_fmt":
                return True
            if x.get("k") == "MethodCall" and x.get("name") in ("write_all", "write_str") and "io::Write" in (x.get("path") or "") + (x.get("inst_path") or ""):
                return True
            if x.get("k") in ("MethodCall", "Call") and (H.callee_path(x) in self.writer_fns):
                return True
            if x.get("k") == "MethodCall" and any(i_ in self.writer_fns for i_ in self.trait_impls(H.callee_path(x) or "")):
                return True       # a writer called through a trait of the crate
            if x.get("k") == "MethodCall" and x.get("name") in ("push_str", "push") and _plain_local(x["recv"]) in self._buffers:
                return True
            if x.get("k") == "MethodCall" and x.get("name") in ("push_str", "push") and "std::string::String" in (H.strip(x["recv"]).get("ty") or "") \
                    and "&mut" in (H.strip(x["recv"]).get("ty") or ""):
                return True       # appending to a buffer handed in as a parameter
            if x.get("k") == "AssignOp" and _plain_local(x.get("a") or {}) in self._buffers:
                return True
            if x.get("k") == "Let" and x["pat"].get("k") == "Binding" and x["pat"].get("id") in self._buffers:
                return True
            if x.get("k") == "Call" and _plain_local(x["f"]) in self._wclos_ids:
                return True
        return False

    def _record_dyn_choices(self, s, env):
        """`let item: &dyn Trait = match v { A(x) => x, B(y) => y };`: the concrete values the trait object can be, per arm"""
        init = H.strip(s["init"]) if s.get("init") else None
        pat = s["pat"]
        if init is None or pat.get("k") != "Binding" or "dyn " not in (pat.get("ty") or ""):
            return
        if not hasattr(self, "_dyn_choices"):
            self._dyn_choices = {}
        if init.get("k") == "Match":
            scrut = self.NF.nf(init["scrut"], env)
            out = []
            for a in init["arms"]:
                if _diverges(a["body"]):
                    continue
                cty = _concrete_type_of(a["body"])
                if cty is None or a.get("guard"):
                    return
                env_a = env.child()
                bind_pattern(a["pat"], scrut, env_a)
                out.append(((("alt", ("islet", pat_label(a["pat"]), scrut), True),), self.NF.nf(a["body"], env_a), cty))
            self._dyn_choices[pat["id"]] = out
        else:
            cty = _concrete_type_of(init)
            if cty:
                self._dyn_choices[pat["id"]] = [((), self.NF.nf(init, env), cty)]

    def _iter_source(self, e, env):
        """normal form of what a loop ranges over; a local helper that returns an iterator (`self.nodes_in(ns)` =
        `self.nodes.iter().filter(..)`) is read as the chain it returns"""
        it = self.NF.nf(e, env)
        if CANON and isinstance(it, tuple) and it[0] == "call" and isinstance(it[1], str) and not it[1].startswith("iter::"):
            ex = self._ce().expand(it)
            if ex != it and isinstance(ex, tuple) and (ex[0] in ("field", "tuple") or (ex[0] == "call" and str(ex[1]).startswith("iter::"))):
                return ex     # (a helper returning an array literal is unrolled like the literal)
        return it

    def _visit(self, fn, e, env, ctx, out, how):
        """how: how the value of `e` is consumed: 'try' | 'tail' | 'stmt' | 'unwrap' | 'ret'."""
        e = H.strip(e)
        k = e.get("k")
        if not self._writes(e):
            return
        if k == "Try":
            return self._visit(fn, e["e"], env, ctx, out, "try")
        if k == "Block":
            return self._visit_block(fn, e["b"], env, ctx, out, how)
        if k == "Ret":
            return self._visit(fn, e["e"], env, ctx, out, "tail")
        if k == "Call" and _plain_local(e["f"]) in self._wclos:
            # a local closure that writes to the sink it captured: its body, with the arguments for its parameters
            clo, cenv = self._wclos[_plain_local(e["f"])]
            env_c = cenv.child()
            for pat, a in zip(clo["body"]["params"], e["args"]):
                bind_pattern(pat, self.NF.nf(a, env), env_c)
            n0 = len(out)
            self._visit(fn, clo["body"]["value"], env_c, ctx, out, how)
            for ev in out[n0:]:
                ev.site = H.sp(e)      # the line is written where the closure is called (all calls share the closure's own text)
            return
        if k == "AssignOp" and _plain_local(e.get("a") or {}) in self._buffers and e.get("op") == "Add":
            e = {"k": "MethodCall", "name": "push_str", "recv": e["a"], "args": [e["b"]], "sp": e.get("sp"), "path": "String::push_str"}
            k = "MethodCall"
        if k == "MethodCall" and e["name"] in ("write_all", "write_str", "push_str", "push") and len(e["args"]) == 1 and self._is_sink(e["recv"], env):
            # `writer.write_all(text.as_bytes())`: the text verbatim
            v = self.NF.nf(e["args"][0], env)
            while v[0] == "call" and str(v[1]).rsplit("::", 1)[-1] in ("as_bytes", "as_str", "as_ref") and len(v[2]) == 1:
                v = v[2][0]
            a0 = H.strip(e["args"][0])
            if v[0] == "const":
                # a named constant holding the text (`const DERIVES: &[u8] = b"#[derive(..)]\n";`): written as it stands
                cb_ = self.lib.body(v[1])
                if cb_ is not None and cb_.get("hir") is not None and str(cb_.get("kind", "")).startswith("Const"):
                    try:
                        cv = H.strip(H.norm_body(cb_)["value"])
                        while cv.get("k") == "AddrOf":
                            cv = H.strip(cv["e"])
                        if cv.get("k") == "Lit" and "v" in cv and (isinstance(cv["v"], str) and len(cv["v"]) <= 200 or isinstance(cv["v"], (list, tuple)) and len(cv["v"]) <= 200):
                            v = ("lit", cv["v"])
                    except Unrecognised:
                        pass
            if v[0] == "lit" and isinstance(v[1], (list, tuple)) and all(isinstance(b_, int) and 0 <= b_ < 256 for b_ in v[1]):
                try:
                    v = ("lit", bytes(v[1]).decode("utf-8"))     # a byte-string literal: `write_all(b"}\n")`
                except UnicodeDecodeError:
                    pass
            if v[0] == "param" and str(v[1]).startswith("buffer:"):
                # the buffer handed to the real sink: what it holds was accounted for where it was put in — and comes out here
                out.append(_FlushMark(str(v[1])[len("buffer:"):], ctx))
                return
            parts = (("lit", v[1]),) if v[0] == "lit" and isinstance(v[1], str) else (("hole", v, "display", "&str"),)
            for pp, extra in (canon_parts(parts, self._ce()) if CANON else [(parts, ())]):
                out.append(Emit(fn, e, None, pp, ctx + extra, how, len(out), e["recv"]))
            return
        if k == "MethodCall" and e["name"] == "write_fmt" and not self._is_sink(e["recv"], env):
            return   # formatting into a local value (String), not into the output
        if k == "MethodCall" and e["name"] == "write_fmt" and H.strip(e["args"][0]).get("k") == "FormatArgs" and len(H.strip(e["args"][0])["holes"]) == 1 \
                and [p_[0] for p_ in H.strip(e["args"][0])["parts"]] == ["hole"]:
            hv = self.NF.nf(H.strip(e["args"][0])["holes"][0]["arg"], env)
            if isinstance(hv, tuple) and hv[0] == "param" and str(hv[1]).startswith("buffer:"):
                out.append(_FlushMark(str(hv[1])[len("buffer:"):], ctx))
                return
        if k == "MethodCall" and e["name"] == "write_fmt":
            fa = e["args"][0]
            if H.strip(fa).get("k") != "FormatArgs":
                # `w.write_fmt(line)` with `line: fmt::Arguments` made by the caller (`emit(format_args!(..))`)
                nf = self.NF.nf(fa, env)
                if not (isinstance(nf, tuple) and nf[0] == "format"):
                    nf = ("format", (("hole", nf, "display", "std::fmt::Arguments"),))
                fa = None
            else:
                fa = H.strip(fa)
                nf = self.NF.format_nf(fa, env)
            if CANON:
                if getattr(self, "CE", None) is None:
                    self.CE = CallExpander(self.F)
                # line by line: a choice inside one line of a multi-line template does not make the other lines conditional
                for line in _lines_of_parts(nf[1]):
                    for parts, extra in canon_parts(line, self.CE):
                        out.append(Emit(fn, e, fa, parts, ctx + extra, how, len(out), e["recv"]))
            else:
                out.append(Emit(fn, e, fa, nf[1], ctx, how, len(out), e["recv"]))
            return
        if k == "MethodCall" and e["name"] in ("map_err",) and self._writes(e["recv"]) and not any(self._writes(a_) for a_ in e["args"]):
            return self._visit(fn, e["recv"], env, ctx, out, how)   # the error is converted, the result is consumed as before
        if k == "MethodCall" and e["name"] in ("unwrap", "expect") and self._writes(e["recv"]):
            return self._visit(fn, e["recv"], env, ctx, out, "unwrap")
        if k == "MethodCall" and e["name"] in ("ok", "is_ok", "is_err", "unwrap_or_default", "unwrap_or") and self._writes(e["recv"]):
            return self._visit(fn, e["recv"], env, ctx, out, "swallowed")
        if k in ("MethodCall", "Call") and H.callee_path(e) in self.writer_fns:
            si = self._string_sink_index(H.callee_path(e))
            all_args = ([e["recv"]] if k == "MethodCall" else []) + list(e["args"])
            if si is not None and not (si < len(all_args) and self._is_sink(all_args[si], env)):
                return    # the function appends to a String of the caller's that is not on its way to the output: a value is built
            tymap = self._type_arguments(e, H.callee_path(e))
            if tymap and len(getattr(self, "_mono_stack", ())) < 3 and H.callee_path(e) not in getattr(self, "_mono_stack", ()):
                # a generic helper called with concrete types (`facet::<i32>(..)`): its body for those types, in place — what a hole
                # of type T prints is known only per instantiation
                cb = self.lib.body(H.callee_path(e))
                cnb = H.norm_body(cb)
                if len(cnb["params"]) == len(all_args):
                    env_c = Env()
                    for pat, a in zip(cnb["params"], all_args):
                        bind_pattern(pat, self.NF.nf(a, env), env_c)
                    self._mono_stack = getattr(self, "_mono_stack", ()) + (H.callee_path(e),)
                    saved = getattr(self.NF, "_tymap", None)
                    self.NF._tymap = dict(saved or {}, **tymap)
                    n0 = len(out)
                    try:
                        self._visit(fn, cnb["value"], env_c, ctx, out, how)
                    finally:
                        self.NF._tymap = saved
                        self._mono_stack = self._mono_stack[:-1]
                    for ev in out[n0:]:
                        ev.site = H.sp(e)
                    return
            args = []
            if k == "MethodCall":
                args.append(self.NF.nf(e["recv"], env))
            args += [self.NF.nf(a, env) for a in e["args"]]
            out.append(CallEv(fn, e, H.callee_path(e), args, ctx, how, len(out), how))
            return
        if k == "MethodCall" and any(i_ in self.writer_fns for i_ in self.trait_impls(H.callee_path(e) or "")):
            # a writer called through a trait object / generic of a trait of the crate: one alternative per value the receiver can be
            impls = [i_ for i_ in self.trait_impls(H.callee_path(e)) if i_ in self.writer_fns]
            r = H.strip(e["recv"])
            while r.get("k") == "AddrOf" or (r.get("k") == "Unary" and r.get("op") == "Deref"):
                r = H.strip(r["e"])
            choices = getattr(self, "_dyn_choices", {}).get(r.get("id")) if r.get("k") == "Path" and r.get("res") == "local" else None
            if choices is None:
                ty0 = _concrete_type_of(e["recv"])
                choices = [((), self.NF.nf(e["recv"], env), ty0)] if ty0 else None
            if choices is None:
                raise Unrecognised(f"writer called through a trait object whose concrete types could not be determined ({H.describe(e)[:80]})", e)
            rest = [self.NF.nf(a, env) for a in e["args"]]
            for extra_ctx, recv_nf, cty in choices:
                target = [i_ for i_ in impls if i_.startswith("<" + cty + " as ") or i_.startswith("<" + re.sub(r"<.*$", "", cty) + "<")]
                if len(target) != 1:
                    raise Unrecognised(f"no unique impl of {H.callee_path(e)} for {cty}", e)
                out.append(CallEv(fn, e, target[0], [recv_nf] + rest, ctx + extra_ctx, how, len(out), how))
            return
        if k == "If":
            c = H.strip(e["cond"])
            env_t = env.child()
            if c.get("k") == "LetExpr":
                base = self.NF.nf(c["init"], env)
                bind_pattern(c["pat"], base, env_t)
                cond = ("islet", pat_label(c["pat"]), base)
            else:
                cond = self.NF.nf(c, env)
            self._visit(fn, e["then"], env_t, ctx + _conjuncts(cond), out, how)
            if e.get("else"):
                self._visit(fn, e["else"], env, ctx + (("alt", cond, False),), out, how)
            return
        if k == "Match":
            scrut = self.NF.nf(e["scrut"], env)
            labels = [pat_label(a["pat"]) for a in e["arms"]]
            some = option_match(labels, e["arms"])
            btm = bool_tuple_match(scrut, e["arms"])
            if btm is not None:
                failed = ()
                for c, a in zip(btm, e["arms"]):
                    env_a = env.child()
                    bind_pattern(a["pat"], scrut, env_a)
                    self._visit(fn, a["body"], env_a, ctx + failed + ((("alt", c, True),) if c is not None else ()), out, how)
                    if c is not None:
                        failed = failed + (("alt", c, False),)
                return
            guards = []   # (label, guard normal form) of the arms seen so far that carry an `if` guard
            for i, a in enumerate(e["arms"]):
                env_a = env.child()
                bind_pattern(a["pat"], scrut, env_a)
                extra = ()
                # an earlier arm with the same pattern and a guard was tried first: this arm runs when that guard was false
                for (lab_g, g_nf) in guards:
                    if _same_pattern(lab_g, labels[i]):
                        extra += (("alt", g_nf, False),)
                if a.get("guard"):
                    g_nf = self.NF.nf(a["guard"], env_a)
                    extra += (("alt", g_nf, True),)
                    guards.append((labels[i], g_nf))
                if extra:
                    self._visit(fn, a["body"], env_a, ctx + (("alt", ("islet", labels[i], scrut), True),) + extra, out, how)
                    continue
                if some is not None:
                    # `match opt { Some(x) => .., None => .. }` reads as `if let Some(x) = opt { .. } else { .. }`
                    alts = _conjuncts(("islet", labels[some], scrut)) if i == some else (("alt", ("islet", labels[some], scrut), False),)
                elif (_catch_all(a["pat"]) or (i == len(e["arms"]) - 1 and i > 0 and not list(H.pat_bindings(a["pat"]))
                                               and all(not x.get("guard") for x in e["arms"]))) and not a.get("guard"):
                    # (a `match` is exhaustive: its last arm is taken whenever the others are not, whatever its pattern says)
                    # `_ => ..` / `other => ..`: taken when none of the earlier patterns matched
                    alts = tuple(("alt", ("islet", labels[j], scrut), False) for j in range(i) if not e["arms"][j].get("guard"))
                    # .. and an earlier arm with a guard was not taken either: its pattern and its guard did not hold together
                    alts += tuple(("alt", ("binop", "And", ("islet", lab_g, scrut), g_nf), False) for (lab_g, g_nf) in guards)
                else:
                    # this arm was taken, the (unguarded) arms before it were not: arms of one match exclude each other
                    alts = tuple(("alt", ("islet", labels[j], scrut), False) for j in range(i)
                                 if not e["arms"][j].get("guard") and not _catch_all(e["arms"][j]["pat"]) and i <= 6) + (("alt", ("islet", labels[i], scrut), True),)
                self._visit(fn, a["body"], env_a, ctx + alts, out, how)
            return
        if k == "For":
            it = self._iter_source(e["iter"], env)
            if it[0] == "tuple":
                # a loop over an array literal is the sequence of its bodies, one per element: no repetition in the grammar
                for item in it[1]:
                    env_b = env.child()
                    bind_pattern(e["pat"], item, env_b)
                    self._visit(fn, e["body"], env_b, ctx, out, "stmt")
                return
            src, val, conds = iter_view(it)
            env_b = env.child()
            bind_pattern(e["pat"], val, env_b)
            self._visit(fn, e["body"], env_b, ctx + (("star", src),) + tuple(("alt", c, b) for c, b in conds), out, "stmt")
            return
        if k == "MethodCall" and e["name"] in ("for_each", "try_for_each") and H.strip(e["args"][0]).get("k") == "Closure":
            it = self._iter_source(e["recv"], env)
            src, val, conds = iter_view(it)
            clo = H.strip(e["args"][0])
            env_b = env.child()
            for pat in clo["body"]["params"]:
                bind_pattern(pat, val, env_b)
            inner_how = "closure-try" if e["name"] == "try_for_each" else "closure"
            self._visit(fn, clo["body"]["value"], env_b, ctx + (("star", src),) + tuple(("alt", c, b) for c, b in conds), out, inner_how)
            return
        if k == "Loop":
            raise Unrecognised("writes inside a `loop`/`while`", e)
        if k == "Semi" or k == "Expr":
            return self._visit(fn, e["e"], env, ctx, out, "stmt")
        raise Unrecognised(f"writes through an unrecognised construct ({k}: {H.describe(e)[:80]})", e)

    def _visit_block(self, fn, b, env, ctx, out, how):
        env2 = env.child()
        cur_ctx = ctx
        stmts = b["stmts"]
        for si, s in enumerate(stmts):
            sk = s.get("k")
            if sk == "Let" and s["pat"].get("k") == "Binding" and s["pat"].get("id") in self._buffers:
                # the buffer starts with what it is initialised with
                v = self.NF.nf(s["init"], env2) if s.get("init") is not None else ("lit", "")
                while isinstance(v, tuple) and v[0] == "call" and len(v[2]) == 1 and str(v[1]).rsplit("::", 1)[-1] in ("from", "to_string", "to_owned", "into", "from_str"):
                    v = v[2][0]
                if isinstance(v, tuple) and v[0] == "call" and str(v[1]).rsplit("::", 1)[-1] in ("new", "with_capacity"):
                    v = ("lit", "")
                if v != ("lit", ""):
                    parts = v[1] if v[0] == "format" else ((("lit", v[1]),) if v[0] == "lit" and isinstance(v[1], str) else (("hole", v, "display", "std::string::String"),))
                    for line in _lines_of_parts(parts):
                        for pp, extra in (canon_parts(line, self._ce()) if CANON else [(line, ())]):
                            out.append(Emit(fn, s["init"], None, pp, cur_ctx + extra, "stmt", len(out), s["pat"]))
                env2.m[s["pat"]["id"]] = ("param", "buffer:" + s["pat"]["name"])
                continue
            if sk == "Let" and s["pat"].get("k") == "Binding" and s["pat"].get("id") in self._wclos_ids and s.get("init") is not None:
                self._wclos[s["pat"]["id"]] = (H.strip(s["init"]), env2)
                continue
            if sk == "Let":
                init = s.get("init")
                if init is not None and self._writes(init):
                    if s.get("els"):
                        raise Unrecognised("let-else around a write", s)
                    pat = s["pat"]
                    how_let = "dropped" if pat.get("k") == "Wild" else "bound"
                    self._visit(fn, init, env2, cur_ctx, out, how_let)
                rest = stmts[si + 1:] + ([{"k": "Expr", "e": b["tail"]}] if b.get("tail") else [])
                dmc = diverging_match_conditions(self.NF, init, env2) if init is not None else []
                self._record_dyn_choices(s, env2)
                self.NF.bind_let(s, env2, rest)
                cur_ctx = cur_ctx + tuple(("alt", c, br) for c, br in dmc)
                if s.get("els") is not None:
                    # `let PAT = init else { return .. }` : the rest of the block runs under "init is PAT"
                    rv = _returned_value({"k": "Block", "b": s["els"]})
                    if rv is not None and _is_failure_value(rv) and H.strip(rv).get("k") == "Call":
                        # `let Some(x) = e else { return Err(..) }` is `let x = e.ok_or(..)?`: when the pattern does not match there is
                        # no output at all, so the rest is not conditional (as for `?`)
                        continue
                    base = self.NF.nf(s["init"], env2)
                    cur_ctx = cur_ctx + (("alt", ("islet", pat_label(s["pat"]), base), True),)
                continue
            if sk in ("Semi", "Expr"):
                e = H.strip(s["e"])
                self._visit(fn, e, env2, cur_ctx, out, "stmt")
                # early return: `if c { return .. }` (also nested: `if a { if b { return } }`) guards the rest of the block with !c
                dc = diverge_condition(self.NF, e, env2)
                if dc is not None:
                    cur_ctx = cur_ctx + (("alt", dc, False),)
                continue
            if sk == "Item":
                continue
        if b.get("tail"):
            self._visit(fn, b["tail"], env2, cur_ctx, out, how)


def diverge_condition(N, e, env, depth=0):
    """The condition under which the statement `e` leaves the function / loop iteration (`return`, `continue`), when it has the
    form `if c { return }`, `if let P = x { return }` or a nest of such ifs whose innermost block only diverges:
    `if a { if b { return } }` leaves under `a && b`. None when the statement is not of that form."""
    e = H.strip(e)
    if e.get("k") != "If" or e.get("else") or depth > 3:
        return None
    c = H.strip(e["cond"])
    env_t = env.child()
    if c.get("k") == "LetExpr":
        base = N.nf(c["init"], env)
        bind_pattern(c["pat"], base, env_t)
        cond = ("islet", pat_label(c["pat"]), base)
    else:
        cond = N.nf(c, env)
    if _diverges(e["then"]):
        return cond
    # the then-block consists of (lets and) exactly one statement that itself diverges conditionally
    t = H.strip(e["then"])
    if t.get("k") != "Block":
        return None
    stmts = list(t["b"]["stmts"]) + ([{"k": "Expr", "e": t["b"]["tail"]}] if t["b"].get("tail") else [])
    inner = None
    for st in stmts:
        if st.get("k") == "Let":
            N.bind_let(st, env_t)
            continue
        if st.get("k") in ("Semi", "Expr"):
            if inner is not None:
                return None
            inner = st["e"]
    if inner is None:
        return None
    sub = diverge_condition(N, inner, env_t, depth + 1)
    if sub is None:
        return None
    return ("binop", "And", cond, sub)


def diverging_match_conditions(N, init, env):
    """`let x = match s { A(..) => return .., B => continue, C(v) => v };`: the conditions [(cond, branch)] under which the rest of
    the block runs (not on the arms that leave); [] when `init` is not such a match"""
    e = H.strip(init) if isinstance(init, dict) else None
    if not e or e.get("k") != "Match":
        return []
    div = [a for a in e["arms"] if _diverges(a["body"])]
    live = [a for a in e["arms"] if not _diverges(a["body"])]
    if not div or not live:
        return []
    scrut = N.nf(e["scrut"], env)
    specific = [a for a in div if H.strip(a["pat"]).get("k") != "Wild" and not a.get("guard")]
    if len(specific) == len(div):
        return [(("islet", pat_label(a["pat"]), scrut), False) for a in div]
    if len(live) == 1 and not live[0].get("guard"):
        return [(("islet", pat_label(live[0]["pat"]), scrut), True)]
    return [(("unknown", "match with diverging arms"), True)]


def _diverges(e):
    """The block/expression always leaves the function or the current loop iteration (ends in `return` / `continue`)."""
    e = H.strip(e)
    k = e.get("k")
    if k in ("Ret", "Continue"):
        return True   # `continue` leaves the loop body: for the rest of the body it acts like an early return
    if k == "Block":
        b = e["b"]
        if b.get("tail"):
            return _diverges(b["tail"])
        if b["stmts"]:
            last = b["stmts"][-1]
            if last.get("k") in ("Semi", "Expr"):
                return _diverges(last["e"])
        return False
    if k == "If":
        return bool(e.get("else")) and _diverges(e["then"]) and _diverges(e["else"])
    return False


def guarded_return_conditions(nb_value):
    """unused placeholder for API symmetry"""
    return []


# ---- generic traversal with environments (P5 field summaries, call expansion) ---------------------

class EnvWalker:
    """Visit every expression of a function body with the provenance environment in force at that point."""

    def __init__(self, facts, crate=None):
        self.F = facts
        self.NF = NF(facts)
        self.crate = crate or facts.lib

    def _iter_source(self, it):
        """a local helper that returns an iterator (`element_children(node)` = `node.children().filter(..)`) is read as the chain it
        returns"""
        if CANON and isinstance(it, tuple) and it[0] == "call" and isinstance(it[1], str):
            if getattr(self, "_ce_", None) is None:
                self._ce_ = CallExpander(self.F)
            if it[1].startswith("iter::") and len(it[2]) == 2:
                # an adaptor chain on top of such a helper: `element_children(x).filter(p)`
                inner = self._iter_source(it[2][0])
                if inner != it[2][0]:
                    return ("call", it[1], (inner, nf_replace(it[2][1], ("elem", it[2][0]), ("elem", inner)))) + tuple(it[3:])
                return it
            ex = self._ce_.expand(it)
            if ex != it and isinstance(ex, tuple) and (ex[0] in ("field", "tuple") or (ex[0] == "call" and str(ex[1]).startswith("iter::"))):
                return ex
        return it

    def walk_fn(self, path, cb):
        b = self.crate.body(path)
        if b is None or b.get("hir") is None:
            return
        nb = H.norm_body(b)
        env = Env()
        for p in nb["params"]:
            for i, name in H.pat_bindings(p):
                env.m[i] = ("param", name)
        self._w(nb["value"], env, cb, ())

    def _w(self, e, env, cb, ctx):
        if e is None:
            return
        if isinstance(e, list):
            for x in e:
                self._w(x, env, cb, ctx)
            return
        e = H.strip(e)
        k = e.get("k")
        if k is None:
            return
        cb(e, env, ctx)
        N = self.NF
        if k == "Block":
            self._block(e["b"], env, cb, ctx)
        elif k == "If":
            c = H.strip(e["cond"])
            env_t = env.child()
            if c.get("k") == "LetExpr":
                self._w(c["init"], env, cb, ctx)
                base = N.nf(c["init"], env)
                bind_pattern(c["pat"], base, env_t)
                cond = ("islet", pat_label(c["pat"]), base)
            else:
                self._w(c, env, cb, ctx)
                cond = N.nf(c, env)
            self._w(e["then"], env_t, cb, ctx + (("alt", cond, True),))
            if e.get("else"):
                self._w(e["else"], env, cb, ctx + (("alt", cond, False),))
        elif k == "Match":
            self._w(e["scrut"], env, cb, ctx)
            scrut = N.nf(e["scrut"], env)
            earlier = ()    # what the arms before did not match: an arm runs where they failed
            for a in e["arms"]:
                env_a = env.child()
                bind_pattern(a["pat"], scrut, env_a)
                here = ("islet", pat_label(a["pat"]), scrut)
                catch_all = H.strip(a["pat"]).get("k") == "Wild" or (H.strip(a["pat"]).get("k") == "Binding" and not H.strip(a["pat"]).get("sub"))
                arm_ctx = ctx + earlier + (() if catch_all else (("alt", here, True),))
                if a.get("guard"):
                    self._w(a["guard"], env_a, cb, arm_ctx)
                    gc = N.nf(a["guard"], env_a)
                    arm_ctx = arm_ctx + (("alt", gc, True),)
                    earlier = earlier + (("alt", gc if catch_all else ("binop", "And", here, gc), False),)
                elif not catch_all:
                    earlier = earlier + (("alt", here, False),)
                self._w(a["body"], env_a, cb, arm_ctx)
        elif k == "For":
            self._w(e["iter"], env, cb, ctx)
            it = self._iter_source(N.nf(e["iter"], env))
            if it[0] == "tuple":
                for item in it[1]:
                    env_b = env.child()
                    bind_pattern(e["pat"], item, env_b)
                    self._w(e["body"], env_b, cb, ctx)
            else:
                src, val, conds = iter_view(it)
                env_b = env.child()
                bind_pattern(e["pat"], val, env_b)
                self._w(e["body"], env_b, cb, ctx + (("star", src),) + tuple(("alt", c, b) for c, b in conds))
        elif k == "Loop":
            self._block(e["body"], env, cb, ctx + (("star", ("unknown", "loop")),))
        elif k == "MethodCall":
            self._w(e["recv"], env, cb, ctx)
            recv = N.nf(e["recv"], env)
            for ai, a in enumerate(e["args"]):
                a2 = H.strip(a)
                if a2.get("k") == "Closure":
                    self._closure(a2, e, recv, env, cb, ctx, ai)
                else:
                    self._w(a, env, cb, ctx)
        elif k == "Call":
            self._w(e["f"], env, cb, ctx)
            for a in e["args"]:
                a2 = H.strip(a)
                if a2.get("k") == "Closure":
                    self._closure(a2, e, ("unknown", "call-arg"), env, cb, ctx)
                else:
                    self._w(a, env, cb, ctx)
        elif k == "Closure":
            self._closure(e, None, ("unknown", "closure"), env, cb, ctx)
        elif k == "Struct":
            for f in e["fields"]:
                self._w(f["e"], env, cb, ctx)
            if isinstance(e.get("base"), dict):
                self._w(e["base"], env, cb, ctx)
        elif k in ("Format",):
            for h in e["fa"]["holes"]:
                self._w(h["arg"], env, cb, ctx)
        elif k == "FormatArgs":
            for h in e["holes"]:
                self._w(h["arg"], env, cb, ctx)
        else:
            for key in ("e", "a", "b", "es", "init"):
                if key in e and isinstance(e[key], (dict, list)):
                    self._w(e[key], env, cb, ctx)

    def _closure(self, clo, call, recv, env, cb, ctx, arg_index=0):
        body = clo["body"]
        env2 = env.child()
        name = call.get("name") if call and call.get("k") == "MethodCall" else None
        is_iter = call is not None and ("Iterator" in (call.get("path") or "") or name in ("for_each", "filter_map"))
        on_option = call is not None and not is_iter and "Option" in ((call.get("path") or "") + (call.get("inst_path") or ""))
        if on_option:
            # the closure of an Option combinator runs on one side of "the option is Some": that is its context
            when_none = name in ("unwrap_or_else", "or_else", "ok_or_else", "get_or_insert_with") or (name == "map_or_else" and arg_index == 0)
            when_some = name in ("map", "and_then", "is_some_and", "filter", "inspect", "is_none_or") or (name in ("map_or", "map_or_else") and arg_index == 1)
            if when_none or when_some:
                ctx = ctx + (("alt", ("islet", "Some(_)", recv), bool(when_some)),)
                if when_some:
                    for pat in body["params"]:
                        bind_pattern(pat, ("payload", "Some", recv), env2)
                self._w(body["value"], env2, cb, ctx)
                return
        if name in ("for_each", "try_for_each") and is_iter:
            src, val, conds = iter_view(self._iter_source(recv))
            for pat in body["params"]:
                bind_pattern(pat, val, env2)
            self._w(body["value"], env2, cb, ctx + (("star", src),) + tuple(("alt", c, b) for c, b in conds))
            return
        if name in ("map", "and_then", "is_some_and", "filter", "find", "any", "position", "for_each", "filter_map", "map_or",
                    "inspect", "all", "find_map", "flat_map", "try_for_each", "retain"):
            arg = ("elem", recv) if is_iter else ("payload", "Some", recv)
            for pat in body["params"]:
                bind_pattern(pat, arg, env2)
        else:
            for pat in body["params"]:
                for i, nm in H.pat_bindings(pat):
                    env2.m[i] = ("local", nm)
        self._w(body["value"], env2, cb, ctx + ((("star", recv),) if is_iter else ()))

    def _block(self, b, env, cb, ctx):
        env2 = env.child()
        cur = ctx
        stmts = b["stmts"]
        for i, s in enumerate(stmts):
            sk = s.get("k")
            if sk == "Let":
                if s.get("init") is not None:
                    self._w(s["init"], env2, cb, cur)
                rest = stmts[i + 1:] + ([{"k": "Expr", "e": b["tail"]}] if b.get("tail") else [])
                dmc = diverging_match_conditions(self.NF, s["init"], env2) if s.get("init") is not None else []
                self.NF.bind_let(s, env2, rest)
                cur = cur + tuple(("alt", c, br) for c, br in dmc)
                if s.get("els") is not None:
                    self._block(s["els"], env2, cb, cur)
                    base = self.NF.nf(s["init"], env2)
                    cur = cur + (("alt", ("islet", pat_label(s["pat"]), base), True),)
            elif sk in ("Semi", "Expr"):
                e = H.strip(s["e"])
                self._w(e, env2, cb, cur)
                dc = diverge_condition(self.NF, e, env2)
                if dc is not None:
                    cur = cur + (("alt", dc, False),)
        if b.get("tail"):
            self._w(b["tail"], env2, cb, cur)


def _variant_like(path):
    segs = str(path).split("::")
    return len(segs) >= 2 and segs[-1][:1].isupper() and segs[-2][:1].isupper()


def _through_identity(n):
    while isinstance(n, tuple) and n[0] == "call" and len(n[2]) == 1 and str(n[1]).rsplit("::", 1)[-1] in (
            "to_string", "to_owned", "as_str", "as_ref", "clone", "deref", "into", "borrow", "into_owned", "as_deref"):
        n = n[2][0]
    return n


def _nf_size(n, limit):
    """number of nodes of a normal form, counted up to `limit`"""
    cnt = 0
    stack = [n]
    while stack and cnt < limit:
        x = stack.pop()
        cnt += 1
        if isinstance(x, tuple):
            stack.extend(y for y in x if isinstance(y, tuple))
    return cnt


def nf_simplify(n):
    """field of a struct literal -> the initialiser; element of a literal tuple by index"""
    if not isinstance(n, tuple):
        return n
    n = tuple(nf_simplify(x) if isinstance(x, tuple) else x for x in n)
    if n and n[0] == "field" and isinstance(n[1], tuple):
        base = n[1]
        if base[0] == "call" and isinstance(base[1], str) and base[1].startswith("struct:"):
            for fi in base[2]:
                if isinstance(fi, tuple) and fi[0] == "field_init" and fi[1] == n[2]:
                    return fi[2]
        if base[0] == "tuple" and str(n[2]).isdigit() and int(n[2]) < len(base[1]):
            return base[1][int(n[2])]
        if base[0] == "call" and isinstance(base[1], str) and base[1].startswith("ctor:") and str(n[2]).isdigit() and int(n[2]) < len(base[2]):
            return base[2][int(n[2])]     # `Wrapper(x).0`
        if base[0] == "payload" and isinstance(base[2], tuple) and base[2][0] == "call" and isinstance(base[2][1], str) and base[2][1].startswith("ctor:") \
                and base[2][1].rsplit("::", 1)[-1] == str(base[1]).rsplit("::", 1)[-1].split("(")[0] and str(n[2]).isdigit() and int(n[2]) < len(base[2][2]):
            return base[2][2][int(n[2])]     # `let Pair(a, b) = Pair(x, y)`: a is x, b is y
        if base[0] in ("ifelse", "match") and str(n[2]).isdigit():
            pr = project(base, int(n[2]))      # a component of a tuple chosen by a test: the test chooses between the components
            if pr != n:
                return nf_simplify(pr) if pr[0] != "field" else pr
        if base[0] == "ifelse" and all(isinstance(b_, tuple) and b_[0] == "call" and isinstance(b_[1], str) and b_[1].startswith("struct:") for b_ in base[2:4]):
            # a field of a struct chosen by a test: `if c { S { f: a } } else { S { f: b } }.f`
            return ("ifelse", base[1], nf_simplify(("field", base[2], n[2])), nf_simplify(("field", base[3], n[2])))
    if n and n[0] == "payload" and n[1] in ("Some", "Ok") and isinstance(n[2], tuple) and n[2][0] == "call" and n[2][1] == n[1] and len(n[2][2]) == 1:
        return n[2][2][0]      # the payload of a literal `Some(x)` is x
    if n and n[0] == "payload" and isinstance(n[2], tuple) and n[2][0] == "call" and isinstance(n[2][1], str) and n[2][1].startswith("ctor:") \
            and n[2][1].rsplit("::", 1)[-1] == str(n[1]).rsplit("::", 1)[-1] and len(n[2][2]) == 1:
        return n[2][2][0]      # `let Wrapper(x) = Wrapper(v)`: x is v
    if n and n[0] == "match" and isinstance(n[1], tuple):
        # a match on a value that is known to be one unit variant, or a choice (by tests) between such variants: the arm is known
        # per branch — `match self.kind() { Kind::A => x, Kind::B => y }` with `kind()` an if/else over the members
        sc = n[1]
        if sc[0] == "const" and _variant_like(sc[1]):
            short = sc[1].rsplit("::", 1)[-1]
            for lab, val in n[2]:
                l_ = str(lab).strip()
                if "(" in l_ or "{" in l_ or "|" in l_:
                    break
                if l_.rsplit("::", 1)[-1] == short and ("::" in l_ or l_[:1].isupper()):
                    return val
                if l_ == "_" or (l_.isidentifier() and not l_[:1].isupper()):
                    return val
        if sc[0] == "ifelse" and all(isinstance(b_, tuple) and (b_[0] == "ifelse" or (b_[0] == "const" and _variant_like(b_[1]))) for b_ in sc[2:4]):
            a_ = nf_simplify(("match", sc[2], n[2]))
            b_ = nf_simplify(("match", sc[3], n[2]))
            if a_[0] != "match" and b_[0] != "match":
                return ("ifelse", sc[1], a_, b_)
    if n and n[0] == "joinmap" and len(n) > 3 and isinstance(n[3], tuple) and n[3] and n[3][0] == "lit" and isinstance(n[3][1], str):
        n = n[:3] + (n[3][1],) + tuple(n[4:])      # a separator that turned out to be a literal text
    if n and n[0] == "joinmap" and isinstance(n[1], tuple) and n[1][0] == "tuple" and isinstance(n[3], str) and 1 <= len(n[1][1]) <= 8:
        # a join over an array literal: the texts of its elements, one after the other with the separator in between
        parts = []
        for i_, item in enumerate(n[1][1]):
            if i_:
                parts.append(("lit", n[3]))
            body = nf_simplify(nf_replace(n[2], ("elem", n[1]), item))
            if isinstance(body, tuple) and body[0] == "format":
                parts += list(body[1])
            elif isinstance(body, tuple) and body[0] == "lit" and isinstance(body[1], str):
                parts.append(body)
            else:
                parts.append(("hole", body, "display", "?"))
        merged = []
        for q in parts:
            if q[0] == "lit" and merged and merged[-1][0] == "lit":
                merged[-1] = ("lit", merged[-1][1] + q[1])
            else:
                merged.append(q)
        return ("format", tuple(merged))
    if n and n[0] == "map" and len(n) == 3 and isinstance(n[2], tuple) and n[2][0] == "payload" and n[2][2] == n[1]:
        return n[1]            # `opt.map(|x| x)` (after identity steps: `.map(Rc::clone)`, `.map(ToOwned::to_owned)`)
    if n and n[0] == "ifelse" and isinstance(n[1], tuple) and n[1][0] == "binop" and n[1][1] in ("Eq", "Ne"):
        # `if a == b { b } else { a }` is a (and `if a != b { a } else { b }`): where they are equal either spelling is the value
        a_, b_ = _through_identity(n[1][2]), _through_identity(n[1][3])
        same, other = (n[2], n[3]) if n[1][1] == "Eq" else (n[3], n[2])
        if {_through_identity(same), _through_identity(other)} == {a_, b_} and a_ != b_:
            return other
    if n and n[0] == "payload" and n[1] == "Some" and isinstance(n[2], tuple) and n[2][0] == "map" and len(n[2]) == 3:
        return n[2][2]         # what `opt.map(f)` holds is f of what `opt` holds (the body is written over that payload already)
    if n and n[0] == "call" and isinstance(n[1], str) and n[1].rsplit("::", 1)[-1] == "unwrap_or" and len(n[2]) == 2:
        # `opt.map(f).unwrap_or(d)` (also behind `as_deref()` ..): f of what `opt` holds where it holds something, else d
        inner = _through_identity(n[2][0])
        if isinstance(inner, tuple) and inner[0] == "map" and len(inner) == 3:
            return ("ifelse", ("islet", "Some(_)", _through_identity(inner[1])), inner[2], n[2][1])
    if n and n[0] == "payload" and n[1] == "Some" and isinstance(n[2], tuple) and n[2][0] == "ifelse":
        is_none_ = lambda v: isinstance(v, tuple) and ((v[0] == "const" and str(v[1]).rsplit("::", 1)[-1] == "None") or v == ("lit", None))
        if is_none_(n[2][2]) and not is_none_(n[2][3]):
            return nf_simplify(("payload", "Some", n[2][3]))      # where `if c { None } else { opt }` is Some it is `opt`
        if is_none_(n[2][3]) and not is_none_(n[2][2]):
            return nf_simplify(("payload", "Some", n[2][2]))
    if n and n[0] == "payload" and n[1] == "Some" and isinstance(n[2], tuple) and n[2][0] == "call" and n[2][1] == "Option::filter" and len(n[2][2]) == 2:
        return nf_simplify(("payload", "Some", n[2][2][0]))      # what `opt.filter(p)` holds, where it holds something, is what `opt` holds
    if n and n[0] == "payload" and n[1] == "Some" and isinstance(n[2], tuple) and n[2][0] == "ifelse":
        ov = _opt_view(n[2])
        if ov is not None and ov[0] is not True:
            return ov[1]       # `cond.then(|| x)` / `if cond { Some(x) } else { None }`: where it is Some, it holds x
    return n


def with_literal_consts(F, nb):
    """a copy of a normalised body in which every use of a named constant of the crate whose value is one literal is that literal
    (for interpreters of the syntax tree that know literals only)"""
    import copy as _copy
    cache = {}

    def lit_node(path):
        if path not in cache:
            cache[path] = None
            b = F.lib.body(path) or (F.lib.body(path[len("zeep_lib::"):]) if path.startswith("zeep_lib::") else None)
            if b is not None and b.get("hir") is not None and str(b.get("kind", "")).startswith("Const"):
                try:
                    v = H.strip(H.norm_body(b)["value"])
                except Unrecognised:
                    v = {}
                while v.get("k") == "Block" and not v["b"]["stmts"] and v["b"].get("tail"):
                    v = H.strip(v["b"]["tail"])
                if v.get("k") == "Lit" and "v" in v:
                    cache[path] = v
        return cache[path]

    def walk(n):
        if isinstance(n, list):
            return [walk(x) for x in n]
        if not isinstance(n, dict):
            return n
        if n.get("k") == "Path" and n.get("res") == "def" and str(n.get("dk", "")).startswith(("Const", "AssocConst")):
            ln = lit_node(n.get("path") or "")
            if ln is not None:
                out = dict(ln)
                for k_ in ("hid", "sp", "ty"):
                    if k_ in n:
                        out[k_] = n[k_]
                return out
        return {k_: walk(v_) for k_, v_ in n.items()}
    return walk(nb)


def returned_values(F, fn):
    """[(site, normal form)] of what a function returns: every `return e` and the value it ends with (None for a value that is not
    an expression read here, e.g. a `loop` that is left by `return` only)"""
    W = EnvWalker(F)
    b = F.lib.body(fn)
    nb = H.norm_body(b)
    out = []
    top = H.strip(nb["value"])
    tail = H.strip(top["b"]["tail"]) if top.get("k") == "Block" and top["b"].get("tail") is not None else (top if top.get("k") != "Block" else None)
    seen = set()

    def cb(e, env, ctx):
        if e.get("k") == "Ret" and e.get("e") is not None and id(e) not in seen:
            seen.add(id(e))
            out.append((H.sp(e), W.NF.nf(e["e"], env)))
        if tail is not None and e is tail and tail.get("k") not in ("Loop", "Ret", "While") and id(e) not in seen:
            seen.add(id(e))
            out.append((H.sp(e), W.NF.nf(e, env)))
    W.walk_fn(fn, cb)
    if tail is not None and id(tail) not in seen and tail.get("k") not in ("Loop", "Ret", "While"):
        out.append((H.sp(tail), None))
    return out


def value_alternatives(v, depth=0):
    """the values a normal form can stand for, one per way it can be chosen: the branches of `if` / `match`, what `opt.unwrap_or(d)`
    can be (the payload of `opt`, or `d`), the elements a `find` can return (those of the sequence it searches)"""
    if not isinstance(v, tuple) or depth > 8:
        return [v]
    if v[0] == "ifelse":
        return value_alternatives(v[2], depth + 1) + value_alternatives(v[3], depth + 1)
    if v[0] == "match":
        return [x for _p, arm in v[2] for x in value_alternatives(arm, depth + 1)]
    if v[0] == "call" and str(v[1]).rsplit("::", 1)[-1] in ("unwrap_or", "unwrap_or_else", "unwrap_or_default") and v[2]:
        rest = value_alternatives(v[2][1], depth + 1) if len(v[2]) > 1 else []
        return value_alternatives(("payload", "Some", v[2][0]), depth + 1) + rest
    if v[0] == "payload" and isinstance(v[2], tuple) and v[2][0] == "call" and v[2][1] in ("iter::find", "iter::find_map") and len(v[2][2]) == 2:
        out = []
        for it in _list_items(v[2][2][0]):
            out += value_alternatives(it[1] if it[0] == "item" else it[2], depth + 1)
        return out
    if v[0] == "call" and len(v[2]) == 1 and str(v[1]).rsplit("::", 1)[-1] in ("clone", "to_string", "to_owned", "into_owned", "into", "Owned", "Borrowed", "as_str", "as_ref", "deref"):
        return value_alternatives(v[2][0], depth + 1)
    return [v]


def ctx_says_present(ctx, needle):
    """does the context say that the optional value whose normal form mentions `needle` (e.g. "'ref'") is present — `if let Some(x) =
    v`, `v.is_some()`, the `Some` arm of a match — rather than absent (`None` arm, `is_none()`, the else branch)?"""
    for c in ctx:
        if c[0] != "alt" or needle not in nf_str(c[1]):
            continue
        k, v = decision(c[1], c[2])
        if k[0] == "some" and v:
            return True
        if k[0] == "cond" and v and not (isinstance(k[1], tuple) and k[1][0] == "islet" and str(k[1][1]).rsplit("::", 1)[-1] == "None"):
            return True
    return False


def _subst_ctx(ctx, mapping):
    out = []
    for c in ctx:
        if c[0] == "star":
            out.append(("star", nf_simplify(nf_subst(c[1], mapping))))
        else:
            out.append(("alt", nf_simplify(nf_subst(c[1], mapping)), c[2]))
    return tuple(out)


def _default_value(F, ty, N, depth=0):
    """normal form of `<ty as Default>::default()`"""
    t = (ty or "").replace(" ", "")
    if t == "bool":
        return ("lit", False)
    if t in NUMERIC_TYPES:
        return ("lit", 0)
    if t.startswith(("std::option::Option<", "core::option::Option<")):
        return ("const", "std::option::Option::None")
    if t in ("std::string::String", "alloc::string::String", "&str"):
        return ("lit", "")
    if t.startswith(("std::vec::Vec<", "alloc::vec::Vec<")):
        return ("list", ())
    b = F.lib.body("<" + (ty or "") + " as std::default::Default>::default")
    if b is not None and b.get("hir") is not None and depth < 3:
        v = H.strip(H.norm_body(b)["value"])
        while v.get("k") == "Block" and not v["b"]["stmts"] and v["b"].get("tail"):
            v = H.strip(v["b"]["tail"])
        if v.get("k") == "Path":
            return N.nf(v, Env())       # the `#[default]` variant of an enum
    return ("call", "<" + (ty or "?") + " as std::default::Default>::default", ())


def default_fields(F, base_expr, N):
    """{member: value} when the expression is `<S as Default>::default()` of a struct of the crate whose Default builds every member
    with that member's own default (the derive); None otherwise"""
    e = H.strip(base_expr)
    if e.get("k") != "Call" or e.get("args"):
        return None
    p = H.callee_path(e) or ""
    if not (p.startswith("<") and p.endswith(" as std::default::Default>::default")):
        return None
    b = F.lib.body(p)
    if b is None or b.get("hir") is None:
        return None
    v = H.strip(H.norm_body(b)["value"])
    while v.get("k") == "Block" and not v["b"]["stmts"] and v["b"].get("tail"):
        v = H.strip(v["b"]["tail"])
    if v.get("k") != "Struct" or v.get("base"):
        return None
    out = {}
    for f in v["fields"]:
        fe = H.strip(f["e"])
        if fe.get("k") == "Call" and not fe.get("args") and (H.decl_path(fe) or "").endswith("default::Default::default"):
            out[f["name"]] = _default_value(F, fe.get("ty"), N)
        else:
            try:
                out[f["name"]] = N.nf(fe, Env())
            except Unrecognised:
                return None
    return out


def field_summaries(F, struct_suffix, through_helpers=True):
    """All construction sites `S { f: e, .. }` of struct S (path ends with struct_suffix) in non-test lib code:
    [(fn, site, ctx, {field: nf}, base_nf_or_None)].
    With through_helpers, a construction inside a private helper function is reported for each function that calls the helper
    (arguments substituted for the helper's parameters, the call's context prefixed), transitively, and no longer for the helper
    itself: whether a constructor sits in the public conversion function or in a function extracted from it does not matter."""
    W = EnvWalker(F)
    as_base, default_uses = set(), {}
    own_ids, via_closure = {}, set()
    own = {}      # fn -> [(site, ctx, fields, base)]
    calls = {}    # caller -> [(callee, arg_nfs, ctx)]
    params = {}
    local = {b["path"]: b for b in F.lib.bodies if not b.get("closure") and b.get("hir") is not None and "yaserde_tests" not in b["path"]}
    for fn, b in local.items():
        def cb(e, env, ctx, fn=fn):
            if e.get("k") == "Struct" and (e["path"].get("path") or "").endswith(struct_suffix):
                fields = {f["name"]: W.NF.nf(f["e"], env) for f in e["fields"]}
                base = e.get("base")
                if isinstance(base, dict):
                    # `S { a, b, ..S::default() }`: the members not named have the values the Default impl gives them
                    df = default_fields(F, base, W.NF)
                    for k_, v_ in (df or {}).items():
                        fields.setdefault(k_, v_)
                    if df is not None:
                        as_base.add(id(H.strip(base)))
                own.setdefault(fn, []).append((H.sp(e), ctx, fields, W.NF.nf(base, env) if isinstance(base, dict) else base))
                own_ids.setdefault(fn, []).append(id(e))
            if e.get("k") == "Call" and H.strip(e["f"]).get("k") == "Path" and H.strip(e["f"]).get("res") == "local":
                # a local closure that builds the value (`let field = |name, ty| Field { name, ty, is_vec, .. }; .. field(a, b)`): every call
                # of it is a construction site, with the arguments for the closure's parameters; the literal inside the closure is not one
                fv = env.get(H.strip(e["f"])["id"]) if hasattr(env, "get") else None
                if isinstance(fv, tuple) and fv and fv[0] == "closure" and fv[1] in _CLOSURES:
                    cnode = _CLOSURES[fv[1]][0]
                    lits = [x for x in H.exprs(cnode["body"]["value"]) if x.get("k") == "Struct" and (x["path"].get("path") or "").endswith(struct_suffix)]
                    if len(lits) == 1 and not isinstance(lits[0].get("base"), dict):
                        try:
                            v = nf_simplify(W.NF.nf(e, env))
                        except Unrecognised:
                            v = None
                        if isinstance(v, tuple) and v and v[0] == "call" and isinstance(v[1], str) and v[1].startswith("struct:"):
                            fields = {fi[1]: fi[2] for fi in v[2] if isinstance(fi, tuple) and fi[0] == "field_init"}
                            own.setdefault(fn, []).append((H.sp(e), ctx, fields, None))
                            own_ids.setdefault(fn, []).append(None)
                            via_closure.add(id(lits[0]))
            if e.get("k") == "Call" and (H.callee_path(e) or "").endswith(" as std::default::Default>::default"):
                default_uses.setdefault(H.callee_path(e), []).append(id(e))
            if through_helpers and e.get("k") in ("Call", "MethodCall"):
                cp = H.callee_path(e)
                if cp in local and cp != fn:
                    args = ([e["recv"]] if e.get("k") == "MethodCall" else []) + list(e["args"])
                    calls.setdefault(fn, []).append((cp, [W.NF.nf(a, env) for a in args], ctx))
        try:
            W.walk_fn(fn, cb)
            nb = H.norm_body(b)
            params[fn] = [[name for _, name in H.pat_bindings(p)] for p in nb["params"]]
        except Unrecognised:
            own.pop(fn, None)
            calls.pop(fn, None)
            continue
    for fn_ in list(own):
        keep = [x for x, i_ in zip(own[fn_], own_ids.get(fn_, [None] * len(own[fn_]))) if i_ is None or i_ not in via_closure]
        own[fn_] = keep
    # a Default impl that is only ever used to fill in the rest of a struct literal (`..S::default()`) builds no value of its own: its
    # members are accounted for at those literals
    for dp, uses in default_uses.items():
        if dp in own and uses and all(u in as_base for u in uses):
            del own[dp]
    if not through_helpers:
        return [(fn, site, ctx, fields, base) for fn, xs in own.items() for (site, ctx, fields, base) in xs]
    callers = {}
    for caller, cs in calls.items():
        for cp, _, _ in cs:
            callers.setdefault(cp, set()).add(caller)

    def is_helper(fn):
        b = local[fn]
        if fn.startswith("<") or not callers.get(fn) or b.get("kind") not in ("Fn", "AssocFn"):
            return False
        if b.get("vis") != "Public":
            return True
        # a plain constructor function (`fn new(a, b) -> S { S { a, b } }`): every field is a parameter, unconditionally
        # (or a function of the parameters only: `rust_mod_name: format!("mod_{abbreviation}")`)
        xs = own.get(fn, [])
        return len(xs) == 1 and not xs[0][1] and all(all(r[0] in ("param", "lit", "const") for r in nf_roots(v)) and nf_roots(v) for v in xs[0][2].values())

    total = {fn: list(xs) for fn, xs in own.items()}
    # attribute helper constructions to their callers (bounded fixpoint)
    for _ in range(4):
        changed = False
        for caller, cs in calls.items():
            for cp, args, cctx in cs:
                if cp not in total or not is_helper(cp):
                    continue
                names = params.get(cp, [])
                if len(names) != len(args):
                    continue
                mapping = {}
                for ns, a in zip(names, args):
                    if len(ns) == 1:
                        mapping[ns[0]] = a
                for (site, ctx, fields, base) in total[cp]:
                    item = (site, tuple(cctx) + _subst_ctx(ctx, mapping),
                            {k: nf_simplify(nf_subst(v, mapping)) for k, v in fields.items()},
                            nf_simplify(nf_subst(base, mapping)) if isinstance(base, tuple) else base)
                    ckey = lambda cx: nf_str(("tuple", tuple(c[1] for c in cx))) + "|" + "".join("TF"[0 if c[2] else 1] if c[0] == "alt" else "*" for c in cx)
                    key = (site, ckey(item[1]))
                    if key not in {(x[0], ckey(x[1])) for x in total.get(caller, [])}:
                        total.setdefault(caller, []).append(item)
                        changed = True
        if not changed:
            break
    out = []
    for fn, xs in total.items():
        if is_helper(fn) and all(c in total for c in callers.get(fn, ())):
            continue   # reported through its callers (also a helper that itself only passes the construction on to another helper)
        for (site, ctx, fields, base) in xs:
            out.append((fn, site, ctx, fields, base))
    return out


SANITISERS = ("to_pascal_case", "to_snake_case", "rename_keywords", "to_lowercase", "to_camel_case", "to_class_case",
              "escape_default", "escape_debug", "as_identifier", "<self-guard>")


def spine(nf):
    """(names, root): the functions applied on the way from the root value to `nf`, outermost first. Looks through
    Option/Result payloads, map closures, loop elements, single-hole formats (`<literal-ident-prefix>` when the format starts
    with identifier characters) and guard conditionals whose other branch is a literal (`<self-guard>` when the guard tests
    for "Self")."""
    import re as _re
    out = []
    cur = nf
    for _ in range(24):
        if not isinstance(cur, tuple):
            break
        if cur[0] == "call" and isinstance(cur[1], str) and cur[2]:
            out.append(cur[1].rsplit("::", 1)[-1])
            cur = cur[2][0]
            continue
        if cur[0] == "payload":
            cur = cur[2]
            continue
        if cur[0] == "map":
            cur = cur[2]
            continue
        if cur[0] == "format":
            holes = [p for p in cur[1] if p[0] == "hole"]
            if len(holes) == 1:
                first = cur[1][0]
                if first[0] == "lit" and _re.match(r"^[A-Za-z_][A-Za-z0-9_]*$", first[1]):
                    out.append("<literal-ident-prefix>")
                cur = holes[0][1]
                continue
        if cur[0] == "ifelse" and isinstance(cur[2], tuple) and isinstance(cur[3], tuple):
            lit_then = not [r for r in nf_roots(cur[2]) if r[0] != "lit"]
            lit_else = not [r for r in nf_roots(cur[3]) if r[0] != "lit"]
            if lit_then != lit_else and is_value_guard(cur):
                if "'Self'" in nf_str(cur[1]):
                    out.append("<self-guard>")
                cur = cur[3] if lit_then else cur[2]
                continue
        break
    return out, cur


def _subst_hole_types(n, tymap):
    """the types of the holes of the templates inside a normal form, with generic parameters replaced by what they stand for"""
    if not isinstance(n, tuple):
        return n
    if n and n[0] == "hole" and len(n) > 3 and isinstance(n[3], str):
        ty = n[3]
        for g, t in tymap.items():
            ty = re.sub(r"\b" + re.escape(g) + r"\b", t, ty)
        return (n[0], _subst_hole_types(n[1], tymap), n[2], ty) + tuple(n[4:])
    return tuple(_subst_hole_types(x, tymap) if isinstance(x, tuple) else x for x in n)


def apply_closure_value(N, clo_nf, arg_nfs):
    """the body of a closure value ("closure", id[, what it captured of its maker's parameters]) with its parameters bound"""
    node, cenv = _CLOSURES[clo_nf[1]]
    body = N.closure_apply(node, list(arg_nfs), cenv)
    if len(clo_nf) > 2 and clo_nf[2]:
        body = nf_subst(body, dict(clo_nf[2]))
    return body


RELIED_LENGTH_DISTINCT = set()      # functions whose replacements were taken to differ in length from what they replace


class CallExpander:
    """Expand calls to small local non-writer functions inside normal forms (e.g. xml_name_to_rust_name, as_field_name,
    create_mod_name_for_namespace) so that sanitiser chains become visible."""

    def __init__(self, F, general_matches=False):
        self.F = F
        self.NF = NF(F)
        self.cache = {}
        self.general_matches = general_matches    # also take in helpers that dispatch with a general `match` (for evaluation)
        # paths of functions that stay calls (what a rule wants to find / bind); the naming functions are named by the rules as steps
        # of a chain, whatever their bodies look like (a `match`, a table that is searched)
        self.keep = {b["path"] for b in F.lib.bodies if not b.get("closure") and b["path"].rsplit("::", 1)[-1] in ("rename_keywords", "as_identifier")}

    def const_text(self, path):
        for c in self.F.lib.items.get("consts", []):
            if c["path"] == path and isinstance(c.get("value"), str):
                return c["value"]
        return None

    def display_summary(self, ty):
        """The text that `Display::fmt` of a type of the crate writes, as a normal form over ("param", "self"): `write!`s into the
        formatter in sequence, chosen by `match` / `if` (a choice of texts), loops with a separator
        (`sep = ""; for x in &self.0 { write!(f, "{sep}{x}")?; sep = ", "; }`). None for anything else (formatter flags, early
        returns, helper calls that take the formatter)."""
        base = re.sub(r"<.*$", "", (ty or "").replace("&", "").replace("mut ", "").strip())
        if not base or "::" not in base or base.startswith(("std::", "core::", "alloc::")):
            return None
        key = "display:" + base
        if key in self.cache:
            return self.cache[key]
        self.cache[key] = None
        cands = [b for b in self.F.lib.bodies if b["path"].startswith("<" + base) and b["path"].endswith(" as std::fmt::Display>::fmt") and b.get("hir") is not None]
        if len(cands) != 1:
            return None
        try:
            nb = H.norm_body(cands[0])
        except Unrecognised:
            return None
        if len(nb["params"]) != 2:
            return None
        N = self.NF
        env = Env()
        for i, _nm in H.pat_bindings(nb["params"][0]):
            env.m[i] = ("param", "self")
        fids = {i for i, _nm in H.pat_bindings(nb["params"][1])}

        class No(Exception):
            pass

        def is_f(x):
            x = H.strip(x)
            while x.get("k") == "AddrOf" or (x.get("k") == "Unary" and x.get("op") == "Deref"):
                x = H.strip(x["e"])
            return x.get("k") == "Path" and x.get("res") == "local" and x.get("id") in fids
        seps = {}      # local id -> its literal text before the first iteration

        def stmts_of(block):
            b = block["b"]
            return list(b["stmts"]) + ([{"k": "Expr", "e": b["tail"]}] if b.get("tail") else [])

        def resolve_seps(parts):
            out = []
            for q in parts:
                if q[0] == "hole" and isinstance(q[1], tuple) and q[1][0] == "sepvar":
                    out.append(("lit", seps.get(q[1][1], "")))
                else:
                    out.append(q)
            return out

        def cat(a, b):
            pa, pb = as_parts(a), as_parts(b)
            return as_nf(pa + pb)

        def as_nf(parts):
            merged = []
            for q in parts:
                if q[0] == "lit" and merged and merged[-1][0] == "lit":
                    merged[-1] = ("lit", merged[-1][1] + q[1])
                elif q[0] == "hole" and merged and merged[-1][0] == "hole" and isinstance(q[1], tuple) and q[1][0] == "match" \
                        and isinstance(merged[-1][1], tuple) and merged[-1][1][0] == "match" and merged[-1][1][1] == q[1][1] \
                        and [l_ for l_, _ in merged[-1][1][2]] == [l_ for l_, _ in q[1][2]]:
                    # two decisions on the same value one after the other are one decision: per arm, the one text behind the other
                    prev = merged[-1][1]
                    merged[-1] = ("hole", ("match", prev[1], tuple((l_, cat(a_, b_)) for (l_, a_), (_l2, b_) in zip(prev[2], q[1][2]))), "display", "?")
                else:
                    merged.append(q)
            if len(merged) == 1 and merged[0][0] == "hole" and (len(merged[0]) < 4 or merged[0][3] in ("?", None, "")):
                return merged[0][1]
            if len(merged) == 1 and merged[0][0] == "lit":
                return ("lit", merged[0][1])
            return ("format", tuple(merged))      # (a lone hole of known type stays a template: the type travels with the hole)

        def as_parts(nf):
            if nf[0] == "format":
                return list(nf[1])
            if nf[0] == "lit" and isinstance(nf[1], str):
                return [("lit", nf[1])]
            return [("hole", nf, "display", "?")]

        def text(x, en):
            """parts written by the expression / statement x into the formatter"""
            x = H.strip(x)
            while x.get("k") == "Try":
                x = H.strip(x["e"])
            k = x.get("k")
            if k == "MethodCall" and x["name"] == "write_fmt" and is_f(x["recv"]):
                return list(N.format_nf(x["args"][0], en)[1])
            if k == "MethodCall" and x["name"] == "write_str" and is_f(x["recv"]) and len(x["args"]) == 1:
                aty = H.strip(x["args"][0]).get("ty") or "&str"
                return [(q[0], q[1], q[2], aty) if q[0] == "hole" and len(q) > 3 and q[3] in ("?", None, "") else q for q in as_parts(N.nf(x["args"][0], en))]
            if k == "Call" and (H.callee_path(x) or "").rsplit("::", 1)[-1] == "Ok" and not any(is_f(y) for y in H.exprs(x)):
                return []
            # the text of another value's Display, forwarded: `self.inner.fmt(f)` / `Display::fmt(&self.inner, f)`
            if k == "MethodCall" and x["name"] == "fmt" and len(x["args"]) == 1 and is_f(x["args"][0]) and (H.decl_path(x) or "").endswith("fmt::Display::fmt"):
                r_ = H.strip(x["recv"])
                return [("hole", N.nf(x["recv"], en), "display", (r_.get("ty") or "?"))]
            if k == "Call" and len(x["args"]) == 2 and is_f(x["args"][1]) and (H.decl_path(x) or "").endswith("fmt::Display::fmt"):
                r_ = H.strip(x["args"][0])
                return [("hole", N.nf(x["args"][0], en), "display", (r_.get("ty") or "?"))]
            if k == "Block":
                return block(x, en)
            if k == "Match":
                scrut = N.nf(x["scrut"], en)
                arms = []
                for a in x["arms"]:
                    if a.get("guard"):
                        raise No()
                    env_a = en.child()
                    bind_pattern(a["pat"], scrut, env_a)
                    arms.append((pat_label(a["pat"]), as_nf(text(a["body"], env_a))))
                return [("hole", ("match", scrut, tuple(arms)), "display", "?")]
            if k == "If" and x.get("else"):
                c = H.strip(x["cond"])
                env_t = en.child()
                if c.get("k") == "LetExpr":
                    base_ = N.nf(c["init"], en)
                    bind_pattern(c["pat"], base_, env_t)
                    cond = ("islet", pat_label(c["pat"]), base_)
                else:
                    cond = N.nf(c, en)
                return [("hole", ("ifelse", cond, as_nf(text(x["then"], env_t)), as_nf(text(x["else"], en))), "display", "?")]
            if k == "If":
                # no else: nothing is written where the condition fails
                c = H.strip(x["cond"])
                env_t = en.child()
                if c.get("k") == "LetExpr":
                    base_ = N.nf(c["init"], en)
                    bind_pattern(c["pat"], base_, env_t)
                    cond = ("islet", pat_label(c["pat"]), base_)
                else:
                    cond = N.nf(c, en)
                return [("hole", ("ifelse", cond, as_nf(text(x["then"], env_t)), ("lit", "")), "display", "?")]
            if k == "For":
                it = N.nf(x["iter"], en)
                src, val, conds = iter_view(it)
                if conds:
                    raise No()
                env3 = en.child()
                bind_pattern(x["pat"], val, env3)
                body = H.strip(x["body"])
                if body.get("k") != "Block":
                    raise No()
                pieces, sep, sep_id = [], "", None
                for y in stmts_of(body):
                    if y.get("k") == "Let":
                        N.bind_let(y, env3)
                        continue
                    ye = H.strip(y.get("e")) if y.get("k") in ("Semi", "Expr") else None
                    if ye is None:
                        raise No()
                    if ye.get("k") == "Assign":
                        tgt, val_ = H.strip(ye["a"]), H.strip(ye["b"])
                        if tgt.get("k") == "Path" and tgt.get("id") in seps and val_.get("k") == "Lit" and val_.get("lit") == "str" and seps[tgt["id"]] == "":
                            sep, sep_id = val_["v"], tgt["id"]
                            continue
                        raise No()
                    pieces += text(ye, env3)
                if pieces and pieces[0][0] == "hole" and isinstance(pieces[0][1], tuple) and pieces[0][1][0] == "sepvar":
                    if pieces[0][1][1] != sep_id:
                        raise No()
                    pieces = pieces[1:]
                elif sep_id is not None:
                    raise No()
                if any(q[0] == "hole" and isinstance(q[1], tuple) and q[1][0] == "sepvar" for q in pieces):
                    raise No()
                return [("hole", ("joinmap", src, as_nf(pieces), sep), "display", "?")]
            raise No()

        def block(x, en):
            en2 = en.child()
            parts = []
            all_stmts = stmts_of(x)
            for st in all_stmts:
                k = st.get("k")
                if k == "Let":
                    init = H.strip(st["init"]) if st.get("init") else None
                    if st["pat"].get("k") == "Binding" and init is not None and init.get("k") == "Lit" and init.get("lit") == "str" and "Mut" in st["pat"].get("mode", ""):
                        seps[st["pat"]["id"]] = init["v"]
                        en2.m[st["pat"]["id"]] = ("sepvar", st["pat"]["id"])
                    else:
                        if init is not None and any(is_f(y) for y in H.exprs(init)):
                            # `let name = match self { A => "a", B(b) => { f.write_str(..)?; &b.name } };`: what is written while the value
                            # is worked out, and the value
                            wp, wv = text_and_value(init, en2)
                            if wv is None:
                                raise No()
                            parts += resolve_seps(wp)
                            bind_pattern(st["pat"], wv, en2)
                            continue
                        N.bind_let(st, en2)
                    continue
                if k == "Item":
                    continue
                if k not in ("Semi", "Expr"):
                    raise No()
                if skip_next.pop(id(st), False):
                    continue
                fr = first_and_rest(st, all_stmts, en2)
                if fr is not None:
                    parts += fr
                    continue
                parts += resolve_seps(text(st["e"], en2))
            return parts

        skip_next = {}

        def first_and_rest(st, stmts, en):
            """`if let Some(first) = it.next() { W(first) }` followed by `for item in it { f.write_str(sep)?; W(item) }`: the items
            joined by sep — the join written by hand. Returns the parts, or None when the statements are not of that form."""
            e1 = H.strip(st["e"])
            if e1.get("k") != "If" or e1.get("else") is not None:
                return None
            c = H.strip(e1["cond"])
            if c.get("k") != "LetExpr":
                return None
            init = H.strip(c["init"])
            pat = c["pat"]
            if not (init.get("k") == "MethodCall" and init["name"] == "next" and not init["args"] and pat.get("k") == "TupleStruct" and len(pat["pats"]) == 1
                    and (pat.get("path") or {}).get("path", "").rsplit("::", 1)[-1] == "Some"):
                return None
            it = H.strip(init["recv"])
            while it.get("k") == "AddrOf":
                it = H.strip(it["e"])
            if not (it.get("k") == "Path" and it.get("res") == "local"):
                return None
            i = next((j for j, x in enumerate(stmts) if x is st), None)
            nxt = stmts[i + 1] if i is not None and i + 1 < len(stmts) else None
            e2 = H.strip(nxt["e"]) if nxt is not None and nxt.get("k") in ("Semi", "Expr") else None
            if e2 is None or e2.get("k") != "For":
                return None
            it2 = H.strip(e2["iter"])
            if not (it2.get("k") == "Path" and it2.get("res") == "local" and it2.get("id") == it.get("id")):
                return None
            src, val, conds = iter_view(N.nf(it, en))
            if conds:
                return None
            env_f = en.child()
            bind_pattern(pat["pats"][0], val, env_f)
            w_first = as_nf(text(e1["then"], env_f))
            env_i = en.child()
            bind_pattern(e2["pat"], val, env_i)
            body = H.strip(e2["body"])
            if body.get("k") != "Block":
                return None
            ys = [y for y in stmts_of(body)]
            if len(ys) < 2 or any(y.get("k") not in ("Semi", "Expr") for y in ys):
                return None
            sep_parts = text(ys[0]["e"], env_i)
            rest = []
            for y in ys[1:]:
                rest += text(y["e"], env_i)
            if as_nf(rest) != w_first or len(sep_parts) != 1:
                return None
            sp_ = sep_parts[0]
            sep = sp_[1] if sp_[0] == "lit" else sp_[1]      # a literal text, or the normal form of the separator value
            skip_next[id(nxt)] = True
            return [("hole", ("joinmap", src, w_first, sep), "display", "?")]

        def text_and_value(x, en):
            """(parts written into the formatter while x is evaluated, normal form of x's value or None)"""
            x = H.strip(x)
            if not any(is_f(y) for y in H.exprs(x)):
                return [], N.nf(x, en)
            k = x.get("k")
            if k == "Block":
                b = x["b"]
                en2 = en.child()
                parts = []
                for st in b["stmts"]:
                    if st.get("k") == "Let":
                        init = H.strip(st["init"]) if st.get("init") else None
                        if init is not None and any(is_f(y) for y in H.exprs(init)):
                            wp, wv = text_and_value(init, en2)
                            if wv is None:
                                raise No()
                            parts += wp
                            bind_pattern(st["pat"], wv, en2)
                        else:
                            N.bind_let(st, en2)
                        continue
                    if st.get("k") == "Item":
                        continue
                    if st.get("k") not in ("Semi", "Expr"):
                        raise No()
                    parts += text(st["e"], en2)
                if b.get("tail") is None:
                    return parts, None
                tp, tv_ = text_and_value(b["tail"], en2)
                return parts + tp, tv_
            if k == "Match":
                scrut = N.nf(x["scrut"], en)
                parms, varms = [], []
                for a in x["arms"]:
                    if a.get("guard"):
                        raise No()
                    env_a = en.child()
                    bind_pattern(a["pat"], scrut, env_a)
                    wp, wv = text_and_value(a["body"], env_a)
                    if wv is None:
                        raise No()
                    parms.append((pat_label(a["pat"]), as_nf(wp) if wp else ("lit", "")))
                    varms.append((pat_label(a["pat"]), wv))
                return [("hole", ("match", scrut, tuple(parms)), "display", "?")], ("match", scrut, tuple(varms))
            if k == "If" and x.get("else"):
                c = H.strip(x["cond"])
                env_t = en.child()
                if c.get("k") == "LetExpr":
                    base_ = N.nf(c["init"], en)
                    bind_pattern(c["pat"], base_, env_t)
                    cond = ("islet", pat_label(c["pat"]), base_)
                else:
                    cond = N.nf(c, en)
                tp, tv_ = text_and_value(x["then"], env_t)
                ep, ev_ = text_and_value(x["else"], en)
                if tv_ is None or ev_ is None:
                    raise No()
                return [("hole", ("ifelse", cond, as_nf(tp) if tp else ("lit", ""), as_nf(ep) if ep else ("lit", "")), "display", "?")], ("ifelse", cond, tv_, ev_)
            return text(x, en), None
        top = H.strip(nb["value"])
        try:
            v = as_nf(block(top, env) if top.get("k") == "Block" else text(top, env))
        except (No, Unrecognised):
            return None
        if any(r[0] in ("unknown", "local") for r in nf_roots(v)) or "sepvar" in str(v):
            return None
        self.cache[key] = v
        return v

    def summary(self, path):
        if path in self.cache:
            return self.cache[path]
        self.cache[path] = None
        b = self.F.lib.body(path)
        if b is None or b.get("hir") is None or b.get("closure"):
            return None
        try:
            nb = H.norm_body(b)
        except Unrecognised:
            return None
        env = Env()
        names = []
        for p in nb["params"]:
            bs = list(H.pat_bindings(p))
            for i, name in bs:
                env.m[i] = ("param", name)
            pp = H.strip(p) if isinstance(p, dict) else p
            while isinstance(pp, dict) and pp.get("k") in ("Ref", "Deref", "Box"):
                pp = pp["pat"]
            if isinstance(pp, dict) and pp.get("k") == "Tuple" and all(q.get("k") == "Binding" and not q.get("sub") for q in pp["pats"]):
                names.append(tuple(q["name"] for q in pp["pats"]))      # `(a, b): (&str, &str)`: one positional parameter, two names
            elif len(bs) == 1:
                names.append(bs[0][1])
            else:
                names.append(None if not bs else tuple(n for _i, n in bs))
        # only straight-line bodies (no loops / early returns)
        top = H.strip(nb["value"])
        folded = set()
        if top.get("k") == "Block":
            for st in top["b"]["stmts"]:
                if st.get("k") in ("Semi", "Expr"):
                    ee = H.strip(st["e"])
                    if ee.get("k") == "If" and not ee.get("else") and _returned_value(ee["then"]) is not None:
                        folded |= {id(y) for y in H.exprs(ee["then"]) if y.get("k") == "Ret"}
                elif st.get("k") == "Let" and st.get("els") is not None:
                    # `let PAT = init else { return Err(..) / None }`: the value summary follows the path on which PAT matched, as `?` does
                    rv = _returned_value({"k": "Block", "b": st["els"]})
                    if rv is not None and _is_failure_value(rv):
                        folded |= {id(y) for y in H.exprs({"k": "Block", "b": st["els"]}) if y.get("k") == "Ret"}
        for x in H.exprs(nb["value"]):
            if x.get("k") == "Loop":
                return None
            if x.get("k") == "Ret" and id(x) not in folded:
                return None
            if x.get("k") == "Match" and not self.general_matches and option_match([pat_label(a["pat"]) for a in x.get("arms", [])], x.get("arms", [])) is None \
                    and not _bool_patterns(x.get("arms", [])) and not _literal_match(x.get("arms", [])) and not _matches_macro(x.get("arms", [])) \
                    and not _two_way_split(x.get("arms", [])) and not _binding_arms(x.get("arms", [])) and not _guarded_or_else(x.get("arms", [])) \
                    and not _cow_arms(x.get("arms", [])):
                return None  # only matches that read as if/else (option, tuple of booleans, one variant against the rest); tables and variant dispatch stay opaque calls
        v = self.NF.nf(nb["value"], env)
        if any(r[0] in ("unknown", "local") for r in nf_roots(v)):
            return None
        self.cache[path] = (names, v)
        return self.cache[path]

    def expand(self, n, depth=0):
        self._nest = getattr(self, "_nest", 0) + 1
        try:
            r = self._expand(n, depth)
        finally:
            self._nest -= 1
        if depth == 0 and self._nest == 0:
            # (once, on the whole value: the passes below walk all of it)
            r = self._fold_const_components(r)
            r = self._fold_cow_matches(r)
            return nf_simplify(r)     # `Struct { f: e, .. }.f` of an expanded constructor helper is e
        if depth == 0 and _nf_size(r, 400) < 400:
            return nf_simplify(r)     # (small values are simplified on the way as well: the steps in between look at their shape)
        return r

    def _borrows_its_argument(self, fn):
        """does every `Cow::Borrowed(x)` the function returns hold its own (first) text parameter? (then `Borrowed` means: unchanged)"""
        key = "cowfn:" + fn
        if key not in self.cache:
            self.cache[key] = False
            b = self.F.lib.body(fn)
            try:
                nb = H.norm_body(b) if b is not None and b.get("hir") is not None else None
            except Unrecognised:
                nb = None
            if nb is not None and len(nb["params"]) >= 1 and "Cow<" in str(b.get("ret_ty") or next((f_["output"] for f_ in self.F.lib.items.get("fns", []) if f_["path"] == fn), "")):
                p0 = {i for i, _n in H.pat_bindings(nb["params"][0])}
                ok, seen_b = True, 0
                for x in H.exprs(nb["value"]):
                    if x.get("k") == "Call" and (H.callee_path(x) or "").rsplit("::", 1)[-1] == "Borrowed" and "Cow" in (H.callee_path(x) or ""):
                        seen_b += 1
                        a = H.strip(x["args"][0]) if x["args"] else {}
                        while a.get("k") in ("AddrOf",) or (a.get("k") == "Unary" and a.get("op") == "Deref"):
                            a = H.strip(a["e"])
                        if not (a.get("k") == "Path" and a.get("res") == "local" and a.get("id") in p0):
                            ok = False
                self.cache[key] = ok and seen_b > 0
        return self.cache[key]

    def _fold_cow_matches(self, n):
        """`match f(&text) { Cow::Borrowed(_) => text, Cow::Owned(o) => o }` is the text `f(&text)` stands for: `f` hands back its argument
        where it borrows (checked on f), so the buffer the caller kept is that very text"""
        if not isinstance(n, tuple):
            return n
        n = tuple(self._fold_cow_matches(x) if isinstance(x, tuple) else x for x in n)
        if n and n[0] == "ifelse" and isinstance(n[1], tuple) and n[1] and n[1][0] == "binop" and n[1][1] in ("Ne", "Eq"):
            # `if g(x).len() != x.len() { g(x) } else { x }` with g a table of replacements that all differ in length from what they
            # replace (and the identity otherwise): where the lengths agree nothing was replaced, so either way the value is g(x).
            # The property of the table is an obligation of whoever relies on it (RELIED_LENGTH_DISTINCT; C14.R2 discharges it)
            def len_of(v):
                return v[2][0] if isinstance(v, tuple) and v[0] == "call" and str(v[1]).rsplit("::", 1)[-1] == "len" and len(v[2]) == 1 else None
            la, lb = len_of(n[1][2]), len_of(n[1][3])
            changed, same = (n[2], n[3]) if n[1][1] == "Ne" else (n[3], n[2])
            if la is not None and lb is not None:
                for a_, b_ in ((la, lb), (lb, la)):
                    a0, b0 = _through_identity(a_), _through_identity(b_)
                    if isinstance(a0, tuple) and a0[0] == "call" and len(a0[2]) == 1 and _through_identity(a0[2][0]) == b0 \
                            and _through_identity(changed) == a0 and _through_identity(same) == b0 and str(a0[1]) in self.keep:
                        RELIED_LENGTH_DISTINCT.add(str(a0[1]))
                        return changed
        if n and n[0] == "match" and len(n) > 2 and isinstance(n[1], tuple) and n[1] and n[1][0] == "call" and len(n[2]) == 2:
            labs = {str(l_).split("(")[0].rsplit("::", 1)[-1]: v_ for l_, v_ in n[2]}
            sc = n[1]
            if set(labs) == {"Borrowed", "Owned"} and len(sc[2]) == 1 and isinstance(sc[1], str) and self._borrows_its_argument(sc[1]):
                arg = _through_identity(sc[2][0])
                vb, vo = _through_identity(labs["Borrowed"]), labs["Owned"]
                owned_payload = isinstance(vo, tuple) and vo[0] == "payload" and str(vo[1]).startswith("Owned") and vo[2] == sc
                if vb == arg and owned_payload:
                    return sc
        return n

    def _const_tuple(self, path):
        """the literal components of a named constant of the crate that is a tuple of literals (`const SOAPENV: (&str, &str) = (..)`)"""
        key = "consttuple:" + path
        if key not in self.cache:
            self.cache[key] = None
            b = self.F.lib.body(path)
            if b is not None and b.get("hir") is not None and str(b.get("kind", "")).startswith("Const"):
                try:
                    v = H.strip(H.norm_body(b)["value"])
                except Unrecognised:
                    v = {}
                if v.get("k") == "Tup" and all(H.strip(x).get("k") == "Lit" and "v" in H.strip(x) for x in v["es"]):
                    self.cache[key] = tuple(("lit", H.strip(x)["v"]) for x in v["es"])
        return self.cache[key]

    def _fold_const_components(self, n):
        if not isinstance(n, tuple):
            return n
        if n and n[0] == "field" and isinstance(n[1], tuple) and n[1] and n[1][0] == "const" and str(n[2]).isdigit():
            comps = self._const_tuple(n[1][1])
            if comps is not None and int(n[2]) < len(comps):
                return comps[int(n[2])]
        if n and n[0] == "hole" and len(n) > 2 and n[2] == "display" and isinstance(n[1], tuple) and n[1] and n[1][0] == "const":
            # a named text constant shown in a template (`push_str(MOD_NAME_PREFIX)`): the text (short one-liners only: the large
            # verbatim blocks stay what they are)
            txt = self.const_text(n[1][1])
            if txt is not None and len(txt) <= 120 and "\n" not in txt:
                return ("lit", txt)
        out = tuple(self._fold_const_components(x) if isinstance(x, tuple) else x for x in n)
        if out and out[0] == "format" and any(isinstance(q, tuple) and q and q[0] == "lit" for q in out[1]):
            merged = []
            for q in out[1]:
                if q[0] == "lit" and merged and merged[-1][0] == "lit":
                    merged[-1] = ("lit", merged[-1][1] + q[1])
                else:
                    merged.append(q)
            out = ("format", tuple(merged)) + tuple(out[2:])
        return out

    def _expand(self, n, depth=0):
        if not isinstance(n, tuple) or depth > 6:
            return n
        return self._expand_uncached(n, depth)

    def _expand_uncached(self, n, depth=0):
        if n[0] == "call" and isinstance(n[1], str):
            args = tuple(self.expand(a, depth) for a in n[2])
            if len(n) > 3:
                return ("call", n[1], args) + tuple(n[3:])   # explicit type arguments: what it yields depends on them; kept as a call
            stack = self.__dict__.setdefault("_expanding", [])
            # a function that is being expanded already is not expanded inside itself (a trait method whose blanket impl hands on to the
            # same method of what it wraps; mutual recursion): it stays a call there
            s = self.summary(n[1]) if n[1] not in self.keep and n[1] not in stack else None
            if s is not None and len(s[0]) == len(args):
                mapping = {}
                for nm, a in zip(s[0], args):
                    if isinstance(nm, tuple):
                        for j, nj in enumerate(nm):      # a tuple pattern as parameter: its names are the components of the argument
                            mapping[nj] = nf_simplify(project(a, j, len(nm))) if isinstance(a, tuple) else ("unknown", "tuple parameter")
                    elif nm is not None:
                        mapping[nm] = a
                body = nf_subst(s[1], mapping)
                ga = _GARGS.get((n[1], tuple(n[2])))
                if not ga:
                    # (the arguments were rewritten on the way here: when every call of the function gives its parameters the same
                    # hole-relevant types, those are the types)
                    alls = _GARGS.get(("*", n[1])) or set()
                    if alls:
                        cols = list(zip(*alls))
                        strish = lambda t: t.replace("&", "").replace("mut ", "").strip() in ("str", "std::string::String", "alloc::string::String")
                        ga = tuple(c[0] if len(set(c)) == 1 else ("&str" if all(strish(x) for x in c) else "?") for c in cols)
                if ga:
                    if not hasattr(self, "_generics"):
                        self._generics = {f["path"]: [g for g in (f.get("generics") or []) if not g.startswith("'")] for f in self.F.lib.items.get("fns", [])}
                    gn = self._generics.get(n[1]) or []
                    if len(gn) == len(ga):
                        body = _subst_hole_types(body, dict(zip(gn, ga)))
                stack.append(n[1])
                try:
                    return self.expand(body, depth + 1)
                finally:
                    stack.pop()
            return ("call", n[1], args)
        if n[0] == "apply":
            f = self.expand(n[1], depth)
            args = tuple(self.expand(a, depth) for a in n[2])
            if isinstance(f, tuple) and f[0] == "closure" and f[1] in _CLOSURES:
                return self.expand(apply_closure_value(self.NF, f, args), depth + 1)
            return ("apply", f, args)
        if n[0] == "closure":
            return n if len(n) < 3 else ("closure", n[1], tuple((k, self.expand(v, depth)) for k, v in n[2]))
        if n[0] == "format":
            return ("format", tuple((p if p[0] == "lit" else ("hole", self.expand(p[1], depth)) + tuple(p[2:])) for p in n[1]))
        if n[0] == "match":
            return ("match", self.expand(n[1], depth), tuple((p, self.expand(v, depth)) for p, v in n[2]))
        if n[0] == "tuple":
            return ("tuple", tuple(self.expand(a, depth) for a in n[1]))
        if n[0] == "list":
            return ("list", tuple(tuple([x[0]] + [self.expand(y, depth) for y in x[1:]]) for x in n[1]))
        return tuple(self.expand(x, depth) if isinstance(x, tuple) else x for x in n)


def _literal_only(n):
    return not [r for r in nf_roots(n) if r[0] != "lit"]


def decision(cond, branch):
    """(key, value) of the decision a branch condition stands for; the spellings of one decision share the key:
    `x.is_some()`, `if let Some(..) = x`, `x.is_none()`, `match x { None => .. }`, negations."""
    c = cond
    while isinstance(c, tuple) and c[0] == "not":
        c, branch = c[1], not branch
    if isinstance(c, tuple) and c[0] == "islet" and c[1].rsplit("::", 1)[-1].startswith("Some(") and isinstance(c[2], tuple) and c[2][0] == "ifelse":
        ov = _opt_view(c[2])
        if ov is not None and ov[0] is not True:
            return decision(ov[0], branch)      # `if let Some(x) = cond.then(..)` is `if cond`
    if isinstance(c, tuple) and c[0] == "islet" and isinstance(c[2], tuple) and c[2][0] == "map" and c[1].rsplit("::", 1)[-1].startswith(("Some(", "None")):
        return decision(("islet", c[1], c[2][1]), branch)      # `opt.map(f)` is Some exactly when `opt` is
    if isinstance(c, tuple) and c[0] == "islet":
        lab = c[1].rsplit("::", 1)[-1]
        if lab.startswith("Some("):
            return ("some", c[2]), branch
        if lab == "None":
            return ("some", c[2]), not branch
    if isinstance(c, tuple) and c[0] == "call" and c[2] and str(c[1]).rsplit("::", 1)[-1] in ("is_some", "is_none"):
        return ("some", c[2][0]), branch == str(c[1]).endswith("is_some")
    # an accessor of the crate that says which variant a member of its receiver is (`fn is_attribute(&self) -> bool { self.kind ==
    # Kind::Attribute }`) and the test written out (`if let Kind::Attribute = self.kind`, `self.kind == Kind::Attribute`) are one decision
    if isinstance(c, tuple) and c[0] == "call" and len(c[2]) == 1 and _DECISION_CE and isinstance(c[1], str) and "::" in c[1]:
        ce = _DECISION_CE[-1]
        summ = ce.summary(c[1]) if c[1] not in ce.keep else None
        if summ is not None and len(summ[0]) == 1:
            body = ce.expand(c)        # (an accessor that hands on to an accessor of the member is followed)
            vt = _variant_test(body)
            if vt is not None and isinstance(vt[0], tuple) and vt[0][0] == "field":
                return ("cond", ("islet", vt[1], vt[0])), branch
    vt = _variant_test(c)
    if vt is not None:
        return ("cond", ("islet", vt[1], vt[0])), branch
    return ("cond", c), branch


_DECISION_CE = []      # the CallExpander of the extractor at work (set by it), for accessor methods met in conditions


def _variant_test(c):
    """(value, variant path) when the condition says `value` is that unit variant: `value == Enum::V`, `if let Enum::V = value`,
    `matches!(value, Enum::V)`"""
    if not isinstance(c, tuple) or not c:
        return None
    if c[0] == "binop" and c[1] == "Eq":
        for a_, b_ in ((c[2], c[3]), (c[3], c[2])):
            if isinstance(b_, tuple) and b_ and b_[0] == "const" and _variant_like(b_[1]) and not str(b_[1]).endswith("::None"):
                return a_, str(b_[1])
    if c[0] == "islet" and isinstance(c[1], str) and "(" not in c[1] and "{" not in c[1] and "|" not in c[1] and "::" in c[1] and c[1].rsplit("::", 1)[-1][:1].isupper() \
            and c[1].rsplit("::", 1)[-1] != "None":
        return c[2], c[1].strip()
    if c[0] == "match" and len(c) > 2 and len(c[2]) == 2 and c[2][0][1] == ("lit", True) and c[2][1][1] == ("lit", False) and "|" not in str(c[2][0][0]) and "(" not in str(c[2][0][0]):
        return c[1], str(c[2][0][0]).strip()
    return None


def ctx_feasible(ctx):
    """False when two branch conditions of the context contradict each other (same decision, opposite outcome), or a decision
    about a literal None / Some(..) goes the impossible way."""
    seen = {}
    flat = []
    for c in ctx:
        if c[0] == "alt" and c[2] is True:
            flat += list(_conjuncts(c[1]))      # `opt.filter(p)` is Some: `opt` is Some and p holds
        else:
            flat.append(c)
    for c in flat:
        if c[0] != "alt":
            continue
        k, v = decision(c[1], c[2])
        if k[0] == "some":
            base = k[1]
            if (isinstance(base, tuple) and base[0] == "lit" and base[1] is None) or nf_str(base) == "None":
                if v:
                    return False
            if isinstance(base, tuple) and base[0] == "call" and base[1] == "Some" and not v:
                return False
        if seen.setdefault(k, v) != v:
            return False
    return True


def is_value_guard(e):
    """`if x == "lit" { "other" } else { x }` (or with the branches swapped): a value with one spelling replaced, not a choice
    between two templates. The condition compares the very value that the non-literal branch yields with a literal."""
    cond, a, b = e[1], e[2], e[3]
    la, lb = _literal_only(a), _literal_only(b)
    if la == lb:
        return False
    val = b if la else a
    c = cond
    while isinstance(c, tuple) and c[0] == "not":
        c = c[1]
    if not (isinstance(c, tuple) and c[0] == "binop" and c[1] in ("Eq", "Ne")):
        return False
    sides = [c[2], c[3]]
    strip = lambda n: n[2][0] if isinstance(n, tuple) and n[0] == "call" and str(n[1]).rsplit("::", 1)[-1] in ("as_str", "as_ref", "deref", "to_string") and len(n[2]) == 1 else n
    return any(strip(x) == strip(val) for x in sides) and any(isinstance(x, tuple) and x[0] == "lit" for x in sides)


def canon_parts(parts, CE, limit=24):
    """Canonical form of a template: Display holes whose value is itself a text template are spliced into the template
    (`format!`, string literals) and holes that choose between templates (`if`/`if let`/two-armed option `match`, after expanding
    local helper functions and closures) become one variant per branch under an added ("alt", cond, branch) context. Guards
    (one branch a literal, the other a value: `if n == "Self" { "Self_" } else { n }`) stay one value. A hole that has no such
    structure is returned as it was (unexpanded). Returns [(parts, extra_ctx)]."""
    variants = [([], ())]
    for p in parts:
        if p[0] == "lit":
            variants = [(v + [p], c) for v, c in variants]
        else:
            subs = _canon_hole(p, CE, limit)
            variants = [(v + list(sp), c + sc) for v, c in variants for sp, sc in subs][:limit]
    out = []
    for v, c in variants:
        # the same decision taken for two holes of one template is one condition
        c = tuple(dict.fromkeys(c))
        merged = []
        for p in v:
            if p[0] == "lit" and merged and merged[-1][0] == "lit":
                merged[-1] = ("lit", merged[-1][1] + p[1])
            elif p[0] == "lit" and p[1] == "":
                continue
            else:
                merged.append(p)
        out.append((tuple(merged), c))
    return out


def _joined_list(e):
    """(items, separator) when the value is a list of texts joined with a literal separator: `list.join(", ")`"""
    if isinstance(e, tuple) and e[0] == "call" and str(e[1]).rsplit("::", 1)[-1] in ("join", "concat") and e[2] and isinstance(e[2][0], tuple) and e[2][0][0] in ("list", "tuple"):
        sep = e[2][1] if len(e[2]) > 1 else ("lit", "")
        if isinstance(sep, tuple) and sep[0] == "lit" and isinstance(sep[1], str):
            if e[2][0][0] == "tuple":
                return [("item", x) for x in e[2][0][1]], sep[1]      # an array literal of texts: `[a, b, c].join("\n")`
            return list(e[2][0][1]), sep[1]
    return None


def _show_adaptor_elements(nf, CE):
    """`joinmap(list of S(a, b) values, <Display of the element>, sep)` with S a tuple struct of the crate that has a Display of its
    own: the list of the (a, b) tuples joined with what that Display writes for each — the form the same text has when it is built
    from pairs and a `format!` per pair."""
    if not (isinstance(nf, tuple) and nf):
        return nf
    if nf[0] == "joinmap" and isinstance(nf[1], tuple) and nf[1][0] == "list" and isinstance(nf[2], tuple):
        lst = nf[1]
        ctors = set()
        for it in lst[1]:
            v = it[1] if it[0] == "item" else it[2] if it[0] == "star" else None
            ctors.add(v[1] if isinstance(v, tuple) and v[0] == "call" and isinstance(v[1], str) and v[1].startswith("ctor:") else None)
        body = nf[2]
        holes = [q for q in (body[1] if body[0] == "format" else [("hole", body, "display", "?")]) if q[0] == "hole" and q[1] == ("elem", lst)]
        if len(ctors) == 1 and None not in ctors and holes:
            spath = next(iter(ctors))[5:]
            ds = CE.display_summary(spath)
            if ds is not None:
                new_items = []
                arity = None
                for it in lst[1]:
                    v = it[1] if it[0] == "item" else it[2]
                    arity = len(v[2])
                    tup = ("tuple", tuple(v[2]))
                    new_items.append(("item", tup) if it[0] == "item" else (it[0], it[1], tup) + tuple(it[3:]))
                new_list = ("list", tuple(new_items))
                self_val = ("call", "ctor:" + spath, tuple(("field", ("elem", new_list), str(i)) for i in range(arity)))
                shown = nf_simplify(CE.expand(nf_subst(ds, {"self": self_val})))
                parts = []
                for q in (body[1] if body[0] == "format" else [("hole", body, "display", "?")]):
                    if q[0] == "hole" and q[1] == ("elem", lst):
                        parts += list(shown[1]) if shown[0] == "format" else ([("lit", shown[1])] if shown[0] == "lit" else [("hole", shown, "display", "?")])
                    else:
                        parts.append(q)
                return ("joinmap", new_list, ("format", tuple(parts)), nf[3]) + tuple(nf[4:])
    return tuple(_show_adaptor_elements(x, CE) if isinstance(x, tuple) else x for x in nf)


def _canon_hole(p, CE, limit):
    nf, tr = p[1], p[2]
    ty = p[3] if len(p) > 3 else "?"
    if tr != "display" or not isinstance(nf, tuple):
        if isinstance(nf, tuple):
            p = ("hole", nf_simplify(nf)) + tuple(p[2:])
        return [([p], ())]
    e = CE.expand(nf) if CE is not None else nf
    if CE is not None and ty and "::" in ty:
        # a value of a struct of the crate shown with its own Display: what that Display writes, with the value for `self`
        base_ty = re.sub(r"<.*$", "", ty.replace("&", "").replace("mut ", "").strip())
        is_struct = any(st_["path"] == base_ty for st_ in CE.F.lib.items.get("structs", []))
        # (an enum shown with its Display stays a hole of that type: the rules about type positions name it)
        ds = CE.display_summary(ty) if is_struct else None
        if ds is not None:
            shown = nf_simplify(CE.expand(nf_subst(ds, {"self": e})))
            shown = _show_adaptor_elements(shown, CE)
            if shown != e:
                return _canon_hole(("hole", shown, tr, "?"), CE, limit)
    k = e[0]
    jl = _joined_list(e)
    if jl is not None:
        items, sep = jl
        opts = [i for i, it in enumerate(items) if it[0] == "opt"]
        if len(opts) <= 4 and all(it[0] in ("item", "opt") for it in items):
            # `[a?, b, c?].join(", ")`: one text per combination of the optional items
            out = []
            import itertools as _it
            for choice in _it.product([True, False], repeat=len(opts)):
                present = dict(zip(opts, choice))
                seq, extra = [], ()
                for i, it in enumerate(items):
                    if it[0] == "opt":
                        extra += (("alt", it[1], present[i]),)
                        if not present[i]:
                            continue
                        seq.append(it[2])
                    else:
                        seq.append(it[1])
                parts = []
                for j, v in enumerate(seq):
                    if j:
                        parts.append(("lit", sep))
                    parts.append(("hole", v, "display", "?"))
                for sp, sc in (canon_parts(parts, CE, limit) if parts else [([("lit", "")], ())]):
                    out.append((sp, extra + sc))
            return out[:max(limit, 16)]
    if k == "lit" and isinstance(e[1], str):
        return [([("lit", e[1])], ())]
    if k == "const" and CE is not None:
        # a string constant of the crate (value evaluated by the compiler): template text, unless it is one of the large
        # verbatim blocks (file header, helper module), which stay holes for the rules about them
        txt = CE.const_text(e[1])
        if txt is not None and len(txt) < 400 and txt.count("\n") <= 1:
            return [([("lit", txt)], ())]
    if k == "format":
        return canon_parts([(q if q[0] == "lit" else (("hole",) + tuple(q[1:]) + (("?",) if len(q) < 4 else ()))) for q in e[1]], CE, limit)
    if k == "match" and 2 <= len(e[2]) <= 6:
        out = []
        failed = ()
        for li_, (lab, val) in enumerate(e[2]):
            wild = lab.rsplit("::", 1)[-1] == "_" or (lab.isidentifier() and lab.islower())
            if li_ == len(e[2]) - 1 and li_ > 0 and "(" not in lab and "{" not in lab:
                wild = True      # a `match` is exhaustive: its last arm is taken whenever the others are not
            here = failed if wild else failed + (("alt", ("islet", lab, e[1]), True),)
            for sp, sc in _canon_hole(("hole", val, tr, ty), CE, limit):
                out.append((sp, here + sc))
            if not wild:
                failed = failed + (("alt", ("islet", lab, e[1]), False),)
        return out[:limit]
    if k == "ifelse" and isinstance(e[2], tuple) and isinstance(e[3], tuple) and not is_value_guard(e):
        a = _canon_hole(("hole", e[2], tr, ty), CE, limit)
        b = _canon_hole(("hole", e[3], tr, ty), CE, limit)
        return [(sp, (("alt", e[1], True),) + sc) for sp, sc in a] + [(sp, (("alt", e[1], False),) + sc) for sp, sc in b]
    return [([p], ())]


NARROW_INTEGERS = {"u8": (0, 2 ** 8 - 1), "u16": (0, 2 ** 16 - 1), "u32": (0, 2 ** 32 - 1), "i8": (-2 ** 7, 2 ** 7 - 1), "i16": (-2 ** 15, 2 ** 15 - 1),
                   "i32": (-2 ** 31, 2 ** 31 - 1)}
CONVERSION_STEPS = ("parse", "trim", "trim_start", "trim_end", "ok", "Some", "Ok", "as_ref", "as_str", "as_deref", "to_string", "to_owned",
                    "map", "and_then", "unwrap_or_default")


def numeric_text_type(nf, CE):
    """T when the value is the decimal text of a number of type T obtained by parsing: `parse_facet::<T>(text)` for a local
    generic helper whose body does nothing but trim / parse::<T> / to_string (`?` on the way allowed). The text such a value
    prints is what a hole of type T would print."""
    n = nf
    for _ in range(6):
        if isinstance(n, tuple) and n[0] == "payload":
            n = n[2]
        elif isinstance(n, tuple) and n[0] == "call" and len(n) == 3 and str(n[1]).rsplit("::", 1)[-1] in ("Some", "Ok", "to_string", "as_str") and len(n[2]) == 1:
            n = n[2][0]
        else:
            break
    if not (isinstance(n, tuple) and n[0] == "call" and len(n) > 3 and n[3][0] == "targs" and len(n[3][1]) == 1):
        return None
    summ = CE.summary(n[1]) if CE is not None else None
    if summ is None:
        return None
    names, root = spine(summ[1])
    if "parse" not in names or not all(x in CONVERSION_STEPS for x in names) or root[0] != "param":
        return None
    return n[3][1][0]


def sanitiser_chain(n):
    """(chain, root): the sanitisers (members of SANITISERS) on the spine of n, outermost first, and the spine's root."""
    names, root = spine(n)
    return [x for x in names if x in SANITISERS], root
