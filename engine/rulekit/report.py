"""Obligation bookkeeping, known-findings handling, evidence and report writing."""
import json
import os
import time

VERIF = os.path.dirname(os.path.dirname(os.path.dirname(os.path.abspath(__file__))))


class Check:
    def __init__(self, pid, tier, level="other"):
        self.pid = pid
        self.tier = tier
        self.level = level
        self.t0 = time.time()
        self.rules = {}          # rid -> text
        self.obligations = []    # dicts: rule,key,site,what,status
        self.analysed = {}       # free-form counters
        self.assumptions = []
        self.explanation = ""
        self.trusted_base = []
        self.checker_cmd = ""
        self.extra = {}

    # -- declaring ----------------------------------------------------------------------------
    def rule(self, rid, text):
        self.rules[rid] = text

    def count(self, name, n=1):
        self.analysed[name] = self.analysed.get(name, 0) + n

    def _add(self, status, rule, desc, site, what, fn=None, **kw):
        key = f"{self.pid}|{rule}|{fn or ''}|{desc}"
        for prev in self.obligations:
            if prev["key"] == key and prev["status"] == status:
                prev.setdefault("also_at", []).append(site)
                return prev
        o = {"rule": rule, "key": key, "site": site, "what": what, "status": status}
        o.update(kw)
        self.obligations.append(o)
        return o

    def ok(self, rule, desc, site, what, fn=None, **kw):
        return self._add("discharged", rule, desc, site, what, fn, **kw)

    def violation(self, rule, desc, site, what, fn=None, **kw):
        return self._add("violated", rule, desc, site, what, fn, **kw)

    def undecided(self, rule, desc, site, what, fn=None, **kw):
        """Fail closed: an obligation that could not be established counts as a violation."""
        return self._add("violated", rule, desc, site, "obligation could not be established: " + what, fn,
                         undecided=True, **kw)

    def floor(self, rule, name, count, floor, site="-"):
        """A rule must have matched at least `floor` instances (counted by hand on the pinned tree)."""
        self.analysed[f"{rule}:{name}"] = count
        if count < floor:
            self.undecided(rule, f"floor:{name}", site,
                           f"rule matched {count} {name}, fewer than the {floor} confirmed on the pinned tree "
                           f"(anchor lost or analysis gone blind)")
        else:
            self.ok(rule, f"floor:{name}", site, f"{count} {name} (floor {floor})")

    # -- finishing ----------------------------------------------------------------------------
    def finish(self, replay_key=None):
        kf_path = os.path.join(VERIF, "known_findings.json")
        known = {}
        fixed = {}
        if os.path.exists(kf_path):
            for e in json.load(open(kf_path)).get("findings", []):
                if e.get("property") != self.pid:
                    continue
                if e.get("status") == "known":
                    known[e["key"]] = e
                elif e.get("status") == "fixed":
                    fixed[e["key"]] = e
        viol = [o for o in self.obligations if o["status"] == "violated"]
        new = [o for o in viol if o["key"] not in known]
        kn = [o for o in viol if o["key"] in known]
        # runs against another tree (VERIF_REPO: self-tests on scratch copies) keep their reports and evidence apart, so that
        # /verif/evidence always describes the last run on /repo itself
        scratch = os.path.abspath(os.environ.get("VERIF_REPO", "/repo")) != "/repo"
        self._out_root = os.path.join(VERIF, ".cache", "scratch-runs", str(os.getpid())) if scratch else VERIF
        rep_dir = os.path.join(self._out_root, "reports", self.pid)
        os.makedirs(rep_dir, exist_ok=True)
        if scratch:
            import shutil
            import time
            base = os.path.join(VERIF, ".cache", "scratch-runs")
            for d in os.listdir(base):
                try:
                    if time.time() - os.path.getmtime(os.path.join(base, d)) > 3600:
                        shutil.rmtree(os.path.join(base, d), ignore_errors=True)
                except OSError:
                    pass
        for f in os.listdir(rep_dir):
            if replay_key is None:
                try:
                    os.remove(os.path.join(rep_dir, f))
                except OSError:
                    pass
        lines = []
        print(f"== {self.pid} [{self.tier}] rules: {', '.join(sorted(self.rules))}")
        for k, v in sorted(self.analysed.items()):
            print(f"   analysed {k}: {v}")
        disc = sum(1 for o in self.obligations if o["status"] == "discharged")
        print(f"   obligations: {len(self.obligations)}  discharged: {disc}  violated: {len(viol)} "
              f"(known: {len(kn)}, new: {len(new)})")
        for o in kn:
            print(f"KNOWN-FINDING: property={self.pid} {o['key']} :: {o['what']} @ {o['site']}")
        for i, o in enumerate(new):
            path = os.path.join(rep_dir, f"{i}.json")
            if replay_key is None:
                with open(path, "w") as f:
                    json.dump({"property": self.pid, "rule": o["rule"], "rule_text": self.rules.get(o["rule"], ""),
                               "key": o["key"], "site": o["site"], "what": o["what"],
                               "extra": {k: v for k, v in o.items() if k not in ("rule", "key", "site", "what", "status")}},
                              f, indent=1, default=str)
            print(f"   {o['rule']} @ {o['site']}: {o['what']}\n      key: {o['key']}")
            if fixed.get(o["key"]):
                print(f"      (regression: this was recorded as fixed in {fixed[o['key']].get('commit')})")
            print(f"VIOLATION property={self.pid} replay={path}")
        if replay_key is None:
            self._write_evidence(len(new), len(kn))
        if replay_key is not None:
            hit = [o for o in viol if o["key"] == replay_key]
            print(f"replay {replay_key}: {'still violated' if hit else 'not violated'}")
            return 1 if hit else 0
        return 1 if new else 0

    def _write_evidence(self, n_new, n_known):
        disc = [o for o in self.obligations if o["status"] == "discharged"]
        samples = []
        seen_rules = set()
        for o in self.obligations:
            if o["rule"] not in seen_rules or len(samples) < 12:
                if sum(1 for s in samples if s["rule"] == o["rule"]) < 3:
                    samples.append({"rule": o["rule"], "site": o["site"], "obligation": o["what"], "status": o["status"],
                                    "key": o["key"]})
                seen_rules.add(o["rule"])
        cov = {
            "explanation": self.explanation,
            "obligations": len(self.obligations),
            "discharged": len(disc),
            "violated_known": n_known,
            "violated_new": n_new,
            "rules": self.rules,
            "analysed": self.analysed,
            "samples": samples[:40],
            "evaluations": max(1, len(self.obligations)),
            "distinct_nontrivial": len({o["key"] for o in self.obligations if not o["key"].endswith("|") and "floor:" not in o["key"]}),
            "rule": "one obligation per (rule, program construct); distinct = distinct obligation keys excluding floor checks",
            "exhaustive": True,
        }
        if self.level == "proof":
            cov["checker_cmd"] = self.checker_cmd
            cov["trusted_base"] = self.trusted_base
        cov.update(self.extra)
        ev = {
            "property_id": self.pid,
            "tier": self.tier,
            "seed": int(os.environ.get("VERIF_SEED", "0") or 0),
            "level": self.level,
            "coverage": cov,
            "assumptions": self.assumptions,
            "wall_s": round(time.time() - self.t0, 2),
            "violations": n_new,
        }
        root = getattr(self, "_out_root", VERIF)
        os.makedirs(os.path.join(root, "evidence"), exist_ok=True)
        with open(os.path.join(root, "evidence", f"{self.pid}.json"), "w") as f:
            json.dump(ev, f, indent=1, default=str)
