"""Who-may-call / zero-count scanners over MIR facts (P9). Each scanner works on any Crate, so the same
code runs over zeep and over the positive-control crate."""
from . import mir as M

SINK_METHODS = ("std::io::Write::write_fmt", "std::io::Write::write_all", "std::io::Write::flush",
                "std::io::Write::write", "std::io::Write::write_vectored", "std::io::Write::write_all_vectored",
                "std::fmt::Write::write_fmt", "std::fmt::Write::write_str", "std::fmt::Formatter::<'a>::write_fmt",
                "std::fmt::Formatter::<'a>::write_str")
SHORT_WRITE = ("std::io::Write::write", "std::io::Write::write_vectored")
GOOD_FLOW = {"propagated", "returned", "mapped:propagated", "mapped:returned"}


def _site(B, bb):
    t = B.term(bb)
    return t.get("cs") or t.get("sp") or "?"


def bodies(crate):
    for b in crate.bodies:
        if b.get("mir"):
            yield b


def scan_sink_results(crate, writer_fns=()):
    """Every call of an io/fmt sink method or of a writer function, with the flow of its Result.
    -> [(fn, site, callee, kinds:set, ordinal)]"""
    out = []
    wf = set(writer_fns)
    for b in bodies(crate):
        B = M.Body(b)
        seen = {}
        for bb, t in B.calls():
            decl = M.Body.callee_decl(t) or ""
            inst = M.Body.callee(t) or ""
            is_sink = decl in SINK_METHODS
            is_writer = (inst in wf) or (decl in wf)
            if not (is_sink or is_writer):
                continue
            if is_sink and not is_writer and _into_string(B, t, inst):
                continue   # formatting into a String: an in-memory value, not the output sink (and it cannot fail)
            if is_writer and not is_sink and "l" in (t.get("dest") or {}) and B.local_ty(t["dest"]["l"]).strip() == "()":
                continue   # a writer that returns nothing has nothing to propagate here: its own writes are judged inside it
            kinds = {k for k, _ in M.result_flow(B, bb, t)}
            if b.get("closure") and any(k.endswith("returned") for k in kinds):
                verdict = _closure_result_consumer(crate, b)
                kinds = {k for k in kinds if not k.endswith("returned")} | {verdict}
            n = seen.get(decl, 0)
            seen[decl] = n + 1
            out.append((b["path"], _site(B, bb), inst if is_writer else decl, kinds, n, "sink" if is_sink else "writer"))
    return out


def _into_string(B, t, inst):
    if "<std::string::String as" in inst or "<alloc::string::String as" in inst:
        return True
    g = (t.get("func") or {}).get("gargs") or []
    if g and g[0].replace("&mut ", "").strip() in ("std::string::String", "alloc::string::String"):
        return True
    if t.get("args"):
        for o in M.trace(B, t["args"][0], M.IDENTITY_CALLS):
            l = getattr(o, "local", None)
            if l is not None and B.local_ty(l).replace("&mut ", "").replace("&", "").strip() in ("std::string::String", "alloc::string::String"):
                return True
            if o.kind == "call" and B.local_ty(o.term["dest"]["l"]).replace("&mut ", "").strip() in ("std::string::String",):
                return True
    return False


def _closure_result_consumer(crate, closure_body, depth=0):
    """A sink Result is *returned from a closure*: what does the function the closure is handed to do with it?
    -> 'returned' when every error still reaches the enclosing function's caller, else 'closure-result-discarded:<callee>'."""
    parent = crate.body(closure_body.get("parent") or "")
    if parent is None or not parent.get("mir") or depth > 3:
        return "closure-result-discarded:unknown-parent"
    PB = M.Body(parent)
    # the closure is bound to a local and called like a function (`let mut line = |s| writeln!(w, "{s}"); line("..")?;`): every call's
    # result has to go where a direct write's result would
    direct = []
    for bb, t in PB.calls():
        if (M.Body.callee_decl(t) or "").endswith(("ops::Fn::call", "ops::FnMut::call_mut", "ops::FnOnce::call_once")) and t.get("args"):
            if any(o.kind == "aggregate" and o.rv.get("closure") == closure_body["path"] for o in M.trace(PB, t["args"][0], ())):
                direct.append((bb, t))
    if direct:
        for bb, t in direct:
            kinds = {k for k, _ in M.result_flow(PB, bb, t)}
            if parent.get("closure") and any(k.endswith("returned") for k in kinds):
                v = _closure_result_consumer(crate, parent, depth + 1)
                kinds = {k for k in kinds if not k.endswith("returned")} | {v}
            if not (kinds and kinds <= GOOD_FLOW | {"returned"}):
                return "closure-result-discarded:called->" + ",".join(sorted(kinds))
        return "returned"
    for bb, t in PB.calls():
        for a in t["args"]:
            for o in M.trace(PB, a, ()):
                if o.kind == "aggregate" and o.rv.get("closure") == closure_body["path"]:
                    decl = M.Body.callee_decl(t) or "?"
                    short = decl.rsplit("::", 1)[-1]
                    if short in ("try_for_each", "try_fold", "try_for_each_mut"):
                        ok = True
                    elif short == "fold":
                        # the accumulator (closure parameter 1 after the environment) must be consulted, otherwise an earlier
                        # error is overwritten by a later Ok
                        CB = M.Body(closure_body)
                        acc = 2
                        uses = [u for u in M.uses_of_local(CB, acc) if u[1] != "drop"]
                        ok = bool(uses)
                    else:
                        ok = False
                    if not ok:
                        return f"closure-result-discarded:{short}"
                    kinds = {k for k, _ in M.result_flow(PB, bb, t)}
                    if parent.get("closure") and any(k.endswith("returned") for k in kinds):
                        return _closure_result_consumer(crate, parent, depth + 1)
                    if kinds and kinds <= GOOD_FLOW:
                        return "returned"
                    return "closure-result-discarded:" + short + "->" + ",".join(sorted(kinds))
    return "closure-result-discarded:closure-not-passed-to-a-call"


HASH_TYPES = ("std::collections::HashMap<", "std::collections::HashSet<", "std::collections::hash_map::HashMap<",
              "std::collections::hash_set::HashSet<")
HASH_ITER_METHODS = ("iter", "iter_mut", "keys", "values", "values_mut", "into_iter", "drain", "retain", "into_keys",
                     "into_values", "extract_if")


def _is_hash_ty(ty):
    t = ty.replace("&mut ", "").replace("&", "").strip()
    return t.startswith(HASH_TYPES)


def scan_hash_iteration(crate):
    """Creation of an order-revealing iterator over a std hash container.
    -> [(fn, site, what, ordinal)]"""
    out = []
    for b in bodies(crate):
        B = M.Body(b)
        seen = {}
        for bb, t in B.calls():
            decl = M.Body.callee_decl(t) or ""
            hit = None
            # inherent methods: std::collections::HashMap::<K, V, S>::iter
            import re as _re
            mm = _re.match(r"^std::collections::(?:hash_map::|hash_set::)?(HashMap|HashSet)::<[^>]*>::(\w+)$", decl)
            if mm and mm.group(2) in HASH_ITER_METHODS:
                hit = f"{mm.group(1)}::{mm.group(2)}"
            g = (t.get("func") or {}).get("gargs") or []
            if decl.endswith("iter::IntoIterator::into_iter") and g and _is_hash_ty(g[0]):
                hit = f"IntoIterator::into_iter on {g[0].split('<')[0]}"
            if hit:
                n = seen.get(hit, 0)
                seen[hit] = n + 1
                out.append((b["path"], _site(B, bb), hit, n))
    return out


AMBIENT = ("std::time::SystemTime::now", "std::time::Instant::now", "std::env::var", "std::env::var_os", "std::env::vars",
           "std::env::vars_os", "std::env::args", "std::env::current_dir", "std::thread::current", "std::process::id",
           "std::hash::RandomState::new", "std::collections::hash_map::RandomState::new", "std::env::temp_dir",
           # .. and state of the process that outlives the call: a second call starts from what the first one left
           "std::env::set_current_dir", "std::env::set_var", "std::env::remove_var", "std::path::absolute", "std::fs::canonicalize",
           "std::path::Path::canonicalize")


def scan_ambient(crate):
    out = []
    for b in bodies(crate):
        B = M.Body(b)
        for bb, t in B.calls():
            decl = M.Body.callee_decl(t) or ""
            if decl in AMBIENT or decl.startswith(("rand::", "getrandom::")):
                out.append((b["path"], _site(B, bb), decl))
    return out


PANIC_CALLS = (
    "std::option::Option::<T>::unwrap", "std::option::Option::<T>::expect", "std::result::Result::<T, E>::unwrap",
    "std::result::Result::<T, E>::expect", "std::result::Result::<T, E>::unwrap_err", "std::result::Result::<T, E>::expect_err",
    "std::option::Option::<T>::unwrap_unchecked", "std::result::Result::<T, E>::unwrap_unchecked",
    "core::panicking::panic", "core::panicking::panic_fmt", "std::rt::begin_panic", "core::panicking::assert_failed",
    "core::panicking::panic_explicit", "std::rt::panic_fmt", "core::panicking::unreachable_display",
    "std::ops::Index::index", "std::ops::IndexMut::index_mut", "std::vec::Vec::<T, A>::remove", "std::vec::Vec::<T, A>::insert",
    "std::vec::Vec::<T, A>::swap_remove", "std::cell::RefCell::<T>::borrow", "std::cell::RefCell::<T>::borrow_mut",
    "std::process::exit", "std::process::abort", "core::slice::<impl [T]>::split_at", "std::string::String::remove",
    "core::str::<impl str>::split_at", "std::vec::Vec::<T, A>::drain", "std::iter::Iterator::step_by",
)


STRING_LENGTHS = ("core::str::<impl str>::len", "std::string::String::len", "alloc::string::String::len")


def _length_plus_small_constant(B, bb, t):
    """the overflow flag tested by this Assert belongs to `<str or String>.len() + c` with a constant c < 2^16"""
    c = t.get("cond") or {}
    if c.get("k") not in ("copy", "move"):
        return False
    l = c["p"]["l"]
    rv = None
    for st in B.blocks[bb]["stmts"]:
        if st["k"] == "assign" and st["p"]["l"] == l and not st["p"].get("proj"):
            rv = st["rv"]
    if rv is None or rv.get("k") != "binop" or rv.get("op") != "AddWithOverflow":
        return False
    # each operand is a small constant or a length (of a string, or of a slice / Vec whose elements have a size): a length is at most
    # isize::MAX, so the sum of two of them, or of one and a small constant, fits usize on every input
    def small_const(o):
        return o.get("k") == "const" and isinstance(o.get("bits"), int) and 0 <= o["bits"] < 65536 and o.get("ty") == "usize"

    def is_length(o):
        if o.get("k") not in ("copy", "move"):
            return False
        os_ = M.trace(B, o, ())
        if not os_:
            return False
        for x in os_:
            if x.kind != "call" or x.proj:
                return False
            d = M.Body.callee_decl(x.term) or ""
            if d in STRING_LENGTHS:
                continue
            if d.endswith(("[T]>::len", "Vec::<T, A>::len")) and x.term.get("args"):
                a0 = x.term["args"][0]
                ty = B.local_ty(a0["p"]["l"]) if a0.get("k") in ("copy", "move") else ""
                inner = ty.replace("&", "").replace("mut ", "").strip()
                if inner.startswith(("[", "std::vec::Vec<")) and "()" not in inner and "PhantomData" not in inner:
                    continue
            return False
        return True
    ops = [rv["a"], rv["b"]]
    return all(small_const(o) or is_length(o) for o in ops) and any(is_length(o) for o in ops)


def scan_panics(crate):
    """Panic-family operations: calls and Assert terminators. -> [(fn, site, what, ordinal, bb)]"""
    out = []
    for b in bodies(crate):
        B = M.Body(b)
        seen = {}
        for i in sorted(B.reach):
            t = B.term(i)
            what = None
            if t.get("k") == "call":
                decl = M.Body.callee_decl(t) or ""
                if decl in PANIC_CALLS:
                    what = decl
            elif t.get("k") == "assert":
                what = "assert:" + str(t.get("msg"))
                if t.get("msg") == "Overflow" and _length_plus_small_constant(B, i, t):
                    what = None    # `s.len() + 1`: a string's length is at most isize::MAX, the sum fits usize on every input
            if what:
                n = seen.get(what, 0)
                seen[what] = n + 1
                out.append((b["path"], _site(B, i), what, n, i))
    return out


FS_WRITE = ("std::fs::File::create", "std::fs::File::create_new", "std::fs::write", "std::fs::rename", "std::fs::remove_file",
            "std::fs::copy", "std::fs::OpenOptions::open", "std::fs::File::options", "std::fs::remove_dir_all",
            "std::fs::File::set_len", "std::fs::hard_link", "std::fs::create_dir_all", "std::fs::create_dir")


ENDLESS_SOURCES = ("std::iter::successors", "std::iter::repeat", "std::iter::repeat_with", "std::iter::from_fn", "std::iter::Iterator::cycle",
                   "core::iter::successors", "core::iter::repeat", "core::iter::repeat_with", "core::iter::from_fn")
# steps that cannot be taken for ever: towards the root / the end of a finite tree or path, towards zero, towards the empty string
WELL_FOUNDED_STEPS = ("Node::<'a, 'input>::parent", "Node::<'a, 'input>::parent_element", "Node::<'a, 'input>::next_sibling",
                      "Node::<'a, 'input>::prev_sibling", "Node::<'a, 'input>::next_sibling_element", "Node::<'a, 'input>::prev_sibling_element",
                      "Node::<'a, 'input>::first_child", "Node::<'a, 'input>::last_child", "Node::<'a, 'input>::first_element_child",
                      "std::path::Path::parent", "std::error::Error::source", "::checked_sub", "::checked_div", "str>::strip_prefix", "str>::strip_suffix")


def _counter_with_membership_exit(crate, B, bb, t):
    """`successors(Some(k), |n| Some(n + 1))` (wrapping / checked / saturating) that is consumed — through `map`, `chain`, `filter` .. — by a
    `find` / `find_map` / `position` / `any` whose predicate tests membership in a collection (`!existing.iter().any(..)`,
    `!set.contains(..)`): the search ends at the latest after as many candidates as the collection has entries, plus one."""
    step_ok = False
    for o in M.trace(B, t["args"][1], ()):
        if o.kind == "aggregate" and o.rv.get("closure"):
            cb = crate.body(o.rv["closure"])
            if cb is not None and cb.get("mir"):
                CB = M.Body(cb)
                steps = [M.Body.callee_decl(ct) or "" for _b, ct in CB.calls()]
                arith = any(st["k"] == "assign" and st["rv"].get("k") == "binop" and str(st["rv"].get("op", "")).startswith("Add")
                            for i_ in CB.reach for st in CB.blocks[i_]["stmts"])
                if (any(s_.endswith(("wrapping_add", "checked_add", "saturating_add")) for s_ in steps) or arith) and not M.cfg_cycles(CB):
                    step_ok = True
    if not step_ok:
        return False
    ADAPT = ("Iterator::map", "Iterator::chain", "Iterator::filter", "Iterator::filter_map", "Iterator::skip", "Iterator::peekable", "Iterator::by_ref",
             "IntoIterator::into_iter", "iter::once")
    for fbb, ft in B.calls():
        fd = M.Body.callee_decl(ft) or ""
        if not fd.endswith(("Iterator::find", "Iterator::find_map", "Iterator::position", "Iterator::any")) or len(ft.get("args") or []) != 2:
            continue
        # does what is searched come from the counter?
        seen, todo, linked = set(), [ft["args"][0]], False
        while todo and not linked:
            op = todo.pop()
            for o in M.trace(B, op, M.IDENTITY_CALLS):
                if o.kind != "call":
                    continue
                if o.bb == bb:
                    linked = True
                    break
                if o.bb in seen:
                    continue
                seen.add(o.bb)
                if (M.Body.callee_decl(o.term) or "").endswith(ADAPT):
                    todo += list(o.term.get("args") or [])
        if not linked:
            continue
        for o in M.trace(B, ft["args"][1], ()):
            if o.kind == "aggregate" and o.rv.get("closure"):
                cb = crate.body(o.rv["closure"])
                if cb is not None and cb.get("mir"):
                    inner = [M.Body.callee_decl(ct) or "" for _b, ct in M.Body(cb).calls()]
                    if any(x.endswith(("Iterator::any", "::contains", "::contains_key", "Iterator::all")) for x in inner):
                        return True
    return False


def scan_endless_iterators(crate):
    """Iterator sources that have no end of their own. -> [(fn, site, source, verdict)] with verdict 'well-founded' (a `successors`
    whose step function only makes well-founded steps), 'bounded' (consumed through `take`) or 'endless'."""
    out = []
    for b in bodies(crate):
        B = M.Body(b)
        for bb, t in B.calls():
            d = M.Body.callee_decl(t) or ""
            if d not in ENDLESS_SOURCES:
                continue
            verdict = "endless"
            if d.endswith("successors") and len(t.get("args") or []) == 2:
                for o in M.trace(B, t["args"][1], ()):
                    if o.kind == "aggregate" and o.rv.get("closure"):
                        cb = crate.body(o.rv["closure"])
                        if cb is not None and cb.get("mir"):
                            CB = M.Body(cb)
                            steps = [M.Body.callee_decl(ct) or "" for _b, ct in CB.calls()]
                            real = [s_ for s_ in steps if not s_.endswith(M.IDENTITY_CALLS) and not s_.endswith(("Option<T>>::copied", "Option<T>>::cloned"))]
                            if real and all(s_.endswith(WELL_FOUNDED_STEPS) for s_ in real) and not M.cfg_cycles(CB):
                                verdict = "well-founded"
                    elif o.kind == "const" and str(o.const.get("fn_path", "")).endswith(WELL_FOUNDED_STEPS):
                        verdict = "well-founded"
            if verdict == "endless" and d.endswith("successors") and len(t.get("args") or []) == 2 and _counter_with_membership_exit(crate, B, bb, t):
                verdict = "bounded"      # a counter that is left as soon as a candidate is not among the existing ones (pigeonhole)
            if verdict == "endless" and t.get("dest") is not None:
                dl = t["dest"]["l"]
                for bb2, t2 in B.calls():
                    if (M.Body.callee_decl(t2) or "").endswith(("Iterator::take", "Iterator::zip")) and t2.get("args"):
                        if any(getattr(o, "bb", None) == bb and o.kind == "call" for o in M.trace(B, t2["args"][0], ())):
                            verdict = "bounded"
            out.append((b["path"], _site(B, bb), d, verdict))
    return out


def open_options_flags(B, t, _depth=0):
    """{builder method: constant bool argument (None when not a constant)} of the `OpenOptions` value a call to `OpenOptions::open`
    is made on, followed back through the builder calls (each returns its receiver) to `OpenOptions::new` / `File::options`;
    None when the chain cannot be followed"""
    flags = {}
    cur = t["args"][0] if t.get("args") else None
    for _ in range(12):
        if cur is None:
            return None
        os_ = M.trace(B, cur, ())
        calls = [o for o in os_ if o.kind == "call"]
        if len(os_) != 1 or len(calls) != 1:
            return None
        ct = calls[0].term
        decl = M.Body.callee_decl(ct) or ""
        if decl in ("std::fs::OpenOptions::new", "std::fs::File::options"):
            return flags
        if not decl.startswith("std::fs::OpenOptions::") or not ct.get("args"):
            return None
        name = decl.rsplit("::", 1)[-1]
        val = None
        if len(ct["args"]) == 2:
            cs = M.trace(B, ct["args"][1], ())
            if len(cs) == 1 and cs[0].kind == "const":
                v = cs[0].const.get("v", cs[0].const.get("text"))
                val = True if str(v).lower() in ("true", "1") else False if str(v).lower() in ("false", "0") else None
        flags.setdefault(name, val)
        cur = ct["args"][0]
    return None


def scan_fs_effects(crate):
    out = []
    for b in bodies(crate):
        B = M.Body(b)
        for bb, t in B.calls():
            decl = M.Body.callee_decl(t) or ""
            if decl in FS_WRITE:
                out.append((b["path"], _site(B, bb), decl, bb))
    return out


def call_graph(crate):
    """fn path -> set of callee paths (resolved instance where known, else declaration), closures linked to creators."""
    g = {}
    for b in bodies(crate):
        B = M.Body(b)
        edges = set()
        for bb, t in B.calls():
            for p in (M.Body.callee(t), M.Body.callee_decl(t)):
                if p:
                    edges.add(p)
            # function items passed as arguments (callbacks)
            for a in t["args"]:
                if a.get("k") == "const" and a.get("fn_path"):
                    edges.add(a.get("inst_path") or a["fn_path"])
        for i in sorted(B.reach):
            for s in B.blocks[i]["stmts"]:
                if s["k"] == "assign" and s["rv"]["k"] == "aggregate" and s["rv"].get("closure"):
                    edges.add(s["rv"]["closure"])
                # function items used as values (tables of function pointers) and named constants / statics (whose initialisers
                # can hold function pointers and closures): what is mentioned can be called
                _mentions(s, edges)
            _mentions({k: v for k, v in B.term(i).items() if k != "func"}, edges)
        g[b["path"]] = edges
    return g


def _mentions(o, edges):
    if isinstance(o, dict):
        if o.get("k") == "const":
            if o.get("fn_path"):
                edges.add(o.get("inst_path") or o["fn_path"])
            if o.get("uneval"):
                edges.add(o["uneval"])
            return
        if o.get("k") == "static" and o.get("path"):
            edges.add(o["path"])
        for v in o.values():
            _mentions(v, edges)
    elif isinstance(o, list):
        for v in o:
            _mentions(v, edges)


def reachable(graph, roots):
    seen = set()
    st = list(roots)
    while st:
        x = st.pop()
        if x in seen:
            continue
        seen.add(x)
        for y in graph.get(x, ()):
            if y not in seen:
                st.append(y)
    return seen


def api_reachable(crate):
    """Functions reachable from the library's public surface: XmlReader::read_xml, the utils helper, Files/FilesToRead
    constructors and every `WriteXml::write_xml` / Display impl."""
    g = call_graph(crate)
    roots = []
    for b in crate.bodies:
        p = b["path"]
        if b.get("closure"):
            continue
        if p in ("reader::XmlReader::read_xml", "utils::read_input_file_and_xsd_files_at_path", "reader::Files::new",
                 "reader::Files::add", "reader::FilesToRead::new") or "reader::WriteXml<W>" in p or " as std::fmt::Display>" in p:
            roots.append(p)
    return reachable(g, roots)


MUTATING = ("::insert", "::extend", "::clone_from", "::remove", "::clear", "::entry", "::retain", "::drain", "::push", "::append",
            "::get_mut", "::iter_mut", "::values_mut", "::truncate", "::pop", "::swap_remove", "::sort", "::reverse", "::dedup")


def field_writers(crate, field):
    """Every site that can modify a struct field named `field`: mutating method calls whose receiver is (a reference to) a place
    ending in that field, and direct assignments to such a place. -> [(fn, site, how, bb, term_or_stmt)]"""
    out = []
    for b in bodies(crate):
        B = M.Body(b)
        for i in sorted(B.reach):
            for st in B.blocks[i]["stmts"]:
                if st["k"] == "assign":
                    fs = [p["f"] for p in (st["p"].get("proj") or []) if isinstance(p, dict) and "f" in p]
                    if fs and fs[-1] == field:
                        out.append((b["path"], st.get("sp", "?"), "assign", i, st))
            t = B.term(i)
            if t.get("k") == "call" and t["args"]:
                d = M.Body.callee_decl(t) or ""
                if d.endswith(MUTATING):
                    for o in M.trace(B, t["args"][0], ()):
                        fl = o.fields()
                        if fl and fl[-1] == field:
                            out.append((b["path"], t.get("sp", "?"), d, i, t))
    return out


def struct_value_writers(crate, struct_path, field_names):
    """Every site that modifies a field of an existing value of the struct `struct_path` in place: an assignment to, or a
    mutable borrow of, `<place of that struct type>.<field>` (through references and loop variables alike), and mutating
    method calls on such a place. The type of the place is taken from the local's declared type; the field name must be one of
    the struct's. -> [(fn, site, field, how)]"""
    short = struct_path.rsplit("::", 1)[-1]

    def is_struct_ty(ty):
        t = ty.strip()
        for _ in range(6):
            for w in ("&mut ", "&", "std::boxed::Box<", "std::rc::Rc<", "std::sync::Arc<"):
                if t.startswith(w):
                    t = t[len(w):]
                    if w.endswith("<") and t.endswith(">"):
                        t = t[:-1]
            t = t.strip()
        return t == struct_path or t.endswith("::" + short) or t == short

    out = []
    for b in bodies(crate):
        B = M.Body(b)

        def hit(place):
            proj = place.get("proj") or []
            fs = [p for p in proj if isinstance(p, dict) and "f" in p]
            if not fs or fs[0]["f"] not in field_names:
                return None
            # the first field projection applies to the local's own type (after derefs)
            first = proj.index(fs[0])
            if any(isinstance(p, dict) and ("downcast" in p or "index" in p or "cindex" in p) for p in proj[:first]):
                return None
            if not is_struct_ty(B.local_ty(place["l"])):
                return None
            # a value that is being built right here (`let mut v = S { .. }; v.f = x;`) is not an existing value
            ds = B.defs().get(place["l"], [])
            if ds and not B.local_ty(place["l"]).strip().startswith("&") and all(
                    d[0] == "assign" and d[3].get("k") == "aggregate" and (d[3].get("adt") or "").endswith(short) for d in ds):
                return None
            return fs[0]["f"]
        for i in sorted(B.reach):
            for st in B.blocks[i]["stmts"]:
                if st["k"] != "assign":
                    continue
                f = hit(st["p"])
                if f and st["rv"].get("k") != "aggregate":
                    out.append((b["path"], st.get("sp", "?"), f, "assignment"))
                rv = st["rv"]
                if rv.get("k") == "ref" and str(rv.get("bk", "")).startswith("Mut"):
                    f = hit(rv["p"])
                    if f:
                        out.append((b["path"], st.get("sp", "?"), f, "mutable borrow"))
    return out


BUFFERING = ("std::io::BufWriter::<W>::new", "std::io::BufWriter::<W>::with_capacity", "std::io::LineWriter::<W>::new",
             "std::io::LineWriter::<W>::with_capacity")
FLUSHES = ("std::io::Write::flush", "std::io::BufWriter::<W>::into_inner", "std::io::LineWriter::<W>::into_inner")


def scan_buffered_sinks(crate):
    """Every buffering wrapper (`BufWriter`, `LineWriter`) built around a sink must be flushed, with the flush's result propagated or
    returned, on every path from its construction to a successful return: dropping the wrapper flushes too, but swallows the error
    (false success). -> [(fn, site, verdict, detail)] with verdict in ok / unflushed / flush-result-lost"""
    out = []
    for b in bodies(crate):
        B = M.Body(b)
        for cbb, ct in B.calls():
            if (M.Body.callee_decl(ct) or "") not in BUFFERING:
                continue
            site = _site(B, cbb)
            dest = ct["dest"]["l"] if not ct["dest"].get("proj") else None
            required = set()
            lost = []
            for fbb, ft in B.calls():
                if (M.Body.callee_decl(ft) or "") not in FLUSHES or not ft.get("args"):
                    continue
                os_ = M.trace(B, ft["args"][0], M.IDENTITY_CALLS)
                if dest is not None and not any((o.kind == "call" and o.bb == cbb) or getattr(o, "local", None) == dest for o in os_):
                    continue
                kinds = {k for k, _ in M.result_flow(B, fbb, ft)}
                if kinds and kinds <= {"propagated", "mapped:propagated"}:
                    c = M.success_continuation(B, fbb, ft)
                    required.add(c if c is not None else fbb)
                elif kinds and kinds <= {"returned", "mapped:returned", "propagated", "mapped:propagated"}:
                    required.add(fbb)
                else:
                    lost.append((fbb, sorted(kinds)))
            # successful returns: `_0 = Ok(..)` or `_0 = <call>` (other than the error conversion of `?`)
            succ = []
            for i in sorted(B.reach):
                for st in B.blocks[i]["stmts"]:
                    if st["k"] == "assign" and st["p"]["l"] == 0 and not st["p"].get("proj"):
                        rv = st["rv"]
                        if not (rv["k"] == "aggregate" and rv.get("variant") == "Err"):
                            succ.append(i)
                t = B.term(i)
                if t.get("k") == "call" and t["dest"]["l"] == 0 and not t["dest"].get("proj") and not (M.Body.callee_decl(t) or "").endswith("from_residual"):
                    succ.append(i)
            if B.local_ty(0) == "()":
                succ += B.return_blocks()
            region = B.reachable_from(cbb, avoid=required)
            escaping = [i for i in succ if i in region and i not in required]
            if escaping and lost:
                out.append((b["path"], site, "flush-result-lost", f"flushed but the result is {lost[0][1]}"))
            elif escaping:
                out.append((b["path"], site, "unflushed", "a successful return is reachable without a flush whose result is passed on"))
            else:
                out.append((b["path"], site, "ok", f"{len(required)} flush point(s) on every path to a successful return"))
    return out


LOG_LEVEL_READS = ("log::max_level", "log::Log::enabled", "log::__private_api::enabled", "tracing::level_enabled", "log::logger")
_LOG_PLUMBING = ("log::", "core::fmt::", "std::fmt::", "fmt::rt::", "fmt::Arguments", "panic::Location", "ops::Deref::deref", "hint::must_use")


def scan_log_guarded_effects(crate, in_scope=lambda p: True):
    """What the logging macros evaluate, they evaluate only when the level is enabled (`if lvl <= max_level() { log(format_args!(..)) }`):
    whether the arguments are computed depends on how the process configured its logger — `RUST_LOG`, a library caller without one.
    Reading a value there is harmless; *changing* one is a computation whose result the rest of the run may see. For every read of
    the logging level: the blocks control-dependent on 'enabled' (dominated by the arm of the switch that leads to the logging call)
    hold no call that is handed a `&mut` to something and no store through a reference or into a captured / parameter place.
    -> [(fn, site, what)] effects, and the number of level reads looked at"""
    out = []
    n = 0
    for b in bodies(crate):
        if not in_scope(b["path"]):
            continue
        B = M.Body(b)
        for bb, t in B.calls():
            d = M.Body.callee_decl(t) or ""
            if not d.endswith(LOG_LEVEL_READS) or t.get("target") is None:
                continue
            # the switch the level test ends in
            cur, sw = t["target"], None
            for _ in range(6):
                tt = B.blocks[cur]["term"]
                if tt.get("k") == "switch":
                    sw = cur
                    break
                nxt = tt.get("target")
                if nxt is None:
                    break
                cur = nxt
            if sw is None:
                continue
            n += 1
            st = B.blocks[sw]["term"]
            arms = [x[1] for x in st.get("targets") or []] + ([st["otherwise"]] if st.get("otherwise") is not None else [])
            for arm in arms:
                region = {x for x in B.reach if B.dominates(arm, x)}
                if not any((M.Body.callee_decl(B.blocks[x]["term"]) or "").endswith(("log::__private_api::log", "log::Log::log")) or "__private_api::log" in (M.Body.callee_decl(B.blocks[x]["term"]) or "")
                           for x in region if B.blocks[x]["term"].get("k") == "call"):
                    continue
                for x in sorted(region):
                    blk = B.blocks[x]
                    tx = blk["term"]
                    if tx.get("k") == "call":
                        dx = M.Body.callee_decl(tx) or ""
                        if any(s_ in dx for s_ in _LOG_PLUMBING):
                            continue
                        muts = [B.local_ty(a["p"]["l"]) for a in tx.get("args", []) if a.get("k") in ("copy", "move") and not a["p"].get("proj")
                                and str(B.local_ty(a["p"]["l"])).startswith("&mut ")]
                        if muts:
                            out.append((b["path"], tx.get("sp"), f"call of {dx.rsplit('::', 2)[-2] + '::' + dx.rsplit('::', 1)[-1] if '::' in dx else dx} with {muts[0]}"))
                    for s_ in blk["stmts"]:
                        if s_["k"] == "assign" and any(p_ == "deref" for p_ in (s_["p"].get("proj") or [])):
                            out.append((b["path"], s_.get("sp"), "store through a reference"))
    return out, n


FORMAT_COUNT_MAX = 65535


def scan_runtime_format_counts(crate, in_scope=lambda p: True):
    """A width or precision that is computed at run time (`{:<width$}`, `{:.*}`) is handed to the formatting machinery as a `usize`;
    `core::fmt` keeps it in 16 bits and **panics** ("Formatting argument out of range") when it is above 65535. -> [(fn, site,
    verdict)] with verdict 'bounded: ..' when every origin of the count is a constant that fits, or the smaller of something and
    such a constant (`min`, `clamp`), else 'unbounded: <origin>'."""
    out = []
    for b in bodies(crate):
        if not in_scope(b["path"]):
            continue
        B = M.Body(b)
        for bb, t in B.calls():
            d = M.Body.callee_decl(t) or ""
            if not d.endswith("Argument::<'_>::from_usize") and not d.endswith("Argument::from_usize"):
                continue

            def bounded(op, depth=0, B=B, path=b["path"]):
                os_ = M.trace(B, op)
                if not os_ or depth > 6:
                    return False, "unknown"
                for o in os_:
                    if o.kind == "const":
                        bits = o.const.get("bits")
                        if not (isinstance(bits, int) and bits <= FORMAT_COUNT_MAX):
                            return False, f"constant {o.const.get('text')}"
                        continue
                    if o.kind == "call":
                        dd = M.Body.callee_decl(o.term) or ""
                        if dd.endswith(("cmp::Ord::min", "cmp::min", "usize::min")) and len(o.term["args"]) == 2:
                            if any(bounded(a, depth + 1, B, path)[0] for a in o.term["args"]):
                                continue
                        if dd.endswith(("cmp::Ord::clamp",)) and len(o.term["args"]) == 3 and bounded(o.term["args"][2], depth + 1, B, path)[0]:
                            continue
                        return False, dd.rsplit("::", 1)[-1]
                    if o.kind == "upvar" and "::{closure#" in path:
                        # what the closure captured: judged where the closure is made
                        ppath = path.rsplit("::{closure#", 1)[0]
                        pb = crate.body(ppath)
                        if pb is not None and pb.get("mir"):
                            PB = M.Body(pb)
                            caps = [st["rv"]["ops"][o.index] for i_ in sorted(PB.reach) for st in PB.blocks[i_]["stmts"]
                                    if st["k"] == "assign" and st["rv"]["k"] == "aggregate" and st["rv"].get("closure") == path and o.index < len(st["rv"]["ops"])]
                            if caps and all(bounded(c_, depth + 1, PB, ppath)[0] for c_ in caps):
                                continue
                    return False, o.kind + (" " + str(getattr(o, "name", "")) if o.kind in ("arg", "upvar") else "")
                return True, "a constant that fits, or cut at one"
            ok, why = bounded(t["args"][0])
            out.append((b["path"], t.get("sp"), ("bounded: " if ok else "unbounded: ") + why))
    return out
