"""Evaluation of a small, pure function of the crate on given literal arguments, over its typed syntax tree.

Used where a rule has to know what a *table-driven* helper answers for each row of a finite list it owns (the 51 keywords of the
language, the 27 built-in names): the answer is read off the function's text — constants, comparisons of literals, a bisection of
a constant table — for those arguments only. Nothing of the crate is compiled or run; an operation outside the modelled subset ends
the evaluation with `Unsupported` (the caller reports the obligation as not established).

The interpreter is identguard's (the same tree walk), with exact values instead of character classes: lengths are numbers, strings
compare as strings, constants of the crate are their initialisers."""
from . import hir as H
from .identguard import Ch, Domain, Interp, Unsupported, _Return  # noqa: F401


class Ordering(str):
    pass


LESS, EQUAL, GREATER = Ordering("Less"), Ordering("Equal"), Ordering("Greater")


class Concrete(Interp):
    def __init__(self, F, local_fn=None):
        super().__init__(Domain(), local_fn, max_lit=10 ** 6)
        self.F = F
        self._consts = {}

    # ---- values of named constants
    def const(self, path, n):
        if path not in self._consts:
            b = self.F.lib.body(path) or (self.F.lib.body(path[len("zeep_lib::"):]) if path.startswith("zeep_lib::") else None)
            if b is None or b.get("hir") is None:
                raise Unsupported(f"constant {path} has no initialiser in the facts", n.get("sp"))
            self._consts[path] = self.ev(H.norm_body(b)["value"], {})
        return self._consts[path]

    def e_Path(self, n, env):
        if n.get("res") == "def" and str(n.get("dk", "")).startswith(("Const", "AssocConst", "Static")):
            return self.const(n.get("path") or "", n)
        p = n.get("path", "")
        if n.get("dk") and str(n.get("dk")).startswith("Ctor") and p.rsplit("::", 1)[-1] in ("Ok", "Err", "Some"):
            return ("fn", p.rsplit("::", 1)[-1])
        return super().e_Path(n, env)

    def e_Array(self, n, env):
        return [self.ev(x, env) for x in n["es"]]

    def e_Index(self, n, env):
        a, i = self.ev(n["a"], env), self.ev(n["b"], env)
        if isinstance(a, (list, tuple, str)) and isinstance(i, int) and not isinstance(i, bool):
            if not 0 <= i < len(a):
                raise Unsupported(f"index {i} out of bounds (len {len(a)}) for the evaluated argument: the function panics", n.get("sp"))
            return a[i]
        raise Unsupported("index of an unmodelled value", n.get("sp"))

    def e_Field(self, n, env):
        v = self.ev(n["e"], env)
        if isinstance(v, tuple) and str(n["name"]).isdigit() and int(n["name"]) < len(v):
            return v[int(n["name"])]
        raise Unsupported(f"field {n['name']} of an unmodelled value", n.get("sp"))

    def e_Cast(self, n, env):
        v = self.ev(n["e"], env)
        if isinstance(v, int) and not isinstance(v, bool):
            return v
        raise Unsupported("cast", n.get("sp"))

    def bind(self, pat, v, env):
        k = pat.get("k")
        if k == "TupleStruct":
            name = (pat.get("path") or {}).get("path", "").rsplit("::", 1)[-1]
            if name in ("Ok", "Err", "Some"):
                return isinstance(v, tuple) and len(v) == 2 and v[0] == name and self.bind(pat["pats"][0], v[1], env)
        if k == "Expr" and "lit" not in pat:
            name = (pat.get("path") or {}).get("path", "").rsplit("::", 1)[-1]
            if name in ("Less", "Equal", "Greater"):
                return v == name
        return super().bind(pat, v, env)

    def e_Binary(self, n, env):
        op = n["op"]
        if op in ("Or", "And"):
            return super().e_Binary(n, env)
        a, b = self.ev(n["a"], env), self.ev(n["b"], env)
        num = lambda x: isinstance(x, int) and not isinstance(x, bool)     # noqa: E731
        if op in ("Eq", "Ne"):
            return (a == b) == (op == "Eq")
        if op in ("Lt", "Le", "Gt", "Ge") and ((num(a) and num(b)) or (isinstance(a, str) and isinstance(b, str))):
            return {"Lt": a < b, "Le": a <= b, "Gt": a > b, "Ge": a >= b}[op]
        if op in ("Add", "Sub", "Mul") and num(a) and num(b):
            return {"Add": a + b, "Sub": a - b, "Mul": a * b}[op]
        raise Unsupported(f"binary {op}", n.get("sp"))

    def call_path(self, path, args, n):
        last = path.rsplit("::", 1)[-1]
        if last in ("Ok", "Err", "Some") and len(args) == 1:
            return (last, args[0])
        if path.startswith("std::ops::RangeInclusive") and last == "new" and len(args) == 2:
            return ("range_inclusive", args[0], args[1])
        if path.startswith("std::ops::Range") and last == "new" and len(args) == 2:
            return ("range", args[0], args[1])
        return super().call_path(path, args, n)

    def e_Struct(self, n, env):
        p = (n.get("path") or {}).get("path", "")
        f = {x["name"]: self.ev(x["e"], env) for x in n.get("fields", [])}
        if p.endswith("ops::Range") and set(f) == {"start", "end"}:
            return ("range", f["start"], f["end"])
        raise Unsupported(f"struct literal {p}", n.get("sp"))

    def e_MethodCall(self, n, env):
        name = n["name"]
        recv = self.ev(n["recv"], env)
        args = [self.ev(a, env) for a in n["args"]]
        num = lambda x: isinstance(x, int) and not isinstance(x, bool)     # noqa: E731
        if isinstance(recv, tuple) and recv and recv[0] in ("range_inclusive", "range") and name == "contains" and len(args) == 1 and num(args[0]):
            return recv[1] <= args[0] <= recv[2] if recv[0] == "range_inclusive" else recv[1] <= args[0] < recv[2]
        if isinstance(recv, str) and not isinstance(recv, Ch):
            if name == "len" and not args:
                return len(recv.encode("utf-8"))
            if name == "as_bytes" and not args:
                return list(recv.encode("utf-8"))
            if name == "bytes" and not args:
                return list(recv.encode("utf-8"))
            if name == "cmp" and len(args) == 1 and isinstance(args[0], str):
                a_, b_ = recv.encode("utf-8"), args[0].encode("utf-8")
                return LESS if a_ < b_ else GREATER if a_ > b_ else EQUAL
            if name in ("eq", "ne") and len(args) == 1 and isinstance(args[0], str):
                return (recv == args[0]) == (name == "eq")
            if name == "is_empty":
                return recv == ""
            if name in ("starts_with", "ends_with") and len(args) == 1 and isinstance(args[0], str):
                return recv.startswith(args[0]) if name == "starts_with" else recv.endswith(args[0])
        if num(recv):
            if name in ("is_ascii_lowercase", "is_ascii_uppercase", "is_ascii_alphabetic", "is_ascii_digit", "is_ascii_alphanumeric") and not args:
                c = chr(recv) if recv < 128 else ""
                return {"is_ascii_lowercase": c.islower() and c.isalpha(), "is_ascii_uppercase": c.isupper() and c.isalpha(), "is_ascii_alphabetic": c.isalpha(),
                        "is_ascii_digit": c.isdigit(), "is_ascii_alphanumeric": c.isalnum()}[name] if c else False
            if name == "cmp" and len(args) == 1 and num(args[0]):
                return LESS if recv < args[0] else GREATER if recv > args[0] else EQUAL
        if isinstance(recv, list):
            if name == "len" and not args:
                return len(recv)
            if name in ("first", "last") and not args:
                return ("Some", recv[0 if name == "first" else -1]) if recv else ("None",)
            if name == "get" and len(args) == 1 and num(args[0]):
                return ("Some", recv[args[0]]) if 0 <= args[0] < len(recv) else ("None",)
            if name.startswith("binary_search"):
                # the table has to be in ascending order for what is searched by (the caller checks that separately); then the
                # bisection finds the row that compares Equal, if there is one
                if name == "binary_search" and len(args) == 1:
                    key = lambda row: row       # noqa: E731
                    want = args[0]
                    cmp_ = lambda row: LESS if key(row) < want else GREATER if key(row) > want else EQUAL     # noqa: E731
                elif name == "binary_search_by_key" and len(args) == 2:
                    want = args[0]
                    cmp_ = lambda row: (lambda k_: LESS if k_ < want else GREATER if k_ > want else EQUAL)(self.apply(args[1], [row], n))   # noqa: E731
                elif name == "binary_search_by" and len(args) == 1:
                    cmp_ = lambda row: self.apply(args[0], [row], n)       # noqa: E731
                else:
                    raise Unsupported(name, n.get("sp"))
                res = [cmp_(row) for row in recv]
                order = {"Less": 0, "Equal": 1, "Greater": 2}
                if [order[str(r)] for r in res] != sorted(order[str(r)] for r in res):
                    raise Unsupported("the table is not in ascending order of what it is searched by: what a bisection finds is not defined", n.get("sp"))
                for i, r in enumerate(res):
                    if r == "Equal":
                        return ("Ok", i)
                return ("Err", sum(1 for r in res if r == "Less"))
            if name in ("iter", "into_iter", "as_slice", "to_vec", "clone", "as_ref"):
                return recv
            if name in ("find", "position", "any", "all") and len(args) == 1:
                for i, row in enumerate(recv):
                    t = self.truth(self.apply(args[0], [row], n), n)
                    if name == "any" and t:
                        return True
                    if name == "all" and not t:
                        return False
                    if name == "find" and t:
                        return ("Some", row)
                    if name == "position" and t:
                        return ("Some", i)
                return {"any": False, "all": True}.get(name, ("None",))
            if name == "contains" and len(args) == 1:
                return args[0] in recv
        if isinstance(recv, tuple) and recv and recv[0] in ("Some", "None", "Ok", "Err"):
            if name == "map" and len(args) == 1:
                return (recv[0], self.apply(args[0], [recv[1]], n)) if recv[0] in ("Some", "Ok") else recv
            if name in ("map_or",) and len(args) == 2:
                return self.apply(args[1], [recv[1]], n) if recv[0] in ("Some", "Ok") else args[0]
            if name in ("unwrap_or",) and len(args) == 1:
                return recv[1] if recv[0] in ("Some", "Ok") else args[0]
            if name in ("is_some", "is_ok"):
                return recv[0] in ("Some", "Ok")
            if name in ("is_none", "is_err"):
                return recv[0] in ("None", "Err")
            if name == "ok" and not args:
                return ("Some", recv[1]) if recv[0] == "Ok" else ("None",)
            if name in ("is_some_and", "is_ok_and") and len(args) == 1:
                return recv[0] in ("Some", "Ok") and self.truth(self.apply(args[0], [recv[1]], n), n)
        if isinstance(recv, tuple) and name in ("clone", "to_owned"):
            return recv
        return super().e_MethodCall(n, env)


def evaluate(F, fn_path, args, local_fn=None):
    """the value `fn_path(args..)` has according to the function's text; raises Unsupported"""
    b = F.lib.body(fn_path)
    if b is None or b.get("hir") is None:
        raise Unsupported(f"{fn_path} has no body in the facts")

    def lf(path):
        x = F.lib.body(path) or (F.lib.body(path[len("zeep_lib::"):]) if path.startswith("zeep_lib::") else None)
        return H.norm_body(x) if x is not None and x.get("hir") is not None and not x.get("closure") else None
    ip = Concrete(F, local_fn or lf)
    return ip.call_fn(H.norm_body(b), list(args))
