"""P6 finite-domain evaluator: abstract evaluation of provenance normal forms (a closed subset of pure
expressions) over a finite partition of the inputs. Anything outside the subset raises Undecided."""
import itertools

CONST_VALUES = {}     # path -> value, for constants of the analysed crate whose initialisers are literals (see register_constants)

NARROW = {"u8": (0, 2 ** 8 - 1), "u16": (0, 2 ** 16 - 1), "u32": (0, 2 ** 32 - 1), "i8": (-2 ** 7, 2 ** 7 - 1), "i16": (-2 ** 15, 2 ** 15 - 1),
          "i32": (-2 ** 31, 2 ** 31 - 1)}


class Undecided(Exception):
    pass


NONE = None


def some(v):
    return ("some", v)


def _parse_pattern(text):
    """pattern text (engine.rulekit.hir.pat_desc) -> tree: ("or", [..]) ("wild",) ("bind", name) ("lit", v) ("tuple", [..])
    ("ctor", path, [sub..]); None when the text is outside this grammar"""
    pos = [0]
    s = text

    def ws():
        while pos[0] < len(s) and s[pos[0]] == " ":
            pos[0] += 1

    def alt():
        items = [single()]
        ws()
        while pos[0] < len(s) and s[pos[0]] == "|":
            pos[0] += 1
            items.append(single())
            ws()
        return items[0] if len(items) == 1 else ("or", items)

    def seq(close):
        out = []
        ws()
        if pos[0] < len(s) and s[pos[0]] == close:
            pos[0] += 1
            return out
        while True:
            out.append(alt())
            ws()
            if pos[0] >= len(s):
                raise ValueError
            ch = s[pos[0]]
            pos[0] += 1
            if ch == close:
                return out
            if ch != ",":
                raise ValueError

    def single():
        ws()
        if pos[0] >= len(s):
            raise ValueError
        ch = s[pos[0]]
        if ch == "&":
            pos[0] += 1
            return single()
        if ch == "(":
            pos[0] += 1
            return ("tuple", seq(")"))
        if ch in "'\"":
            q = ch
            j = pos[0] + 1
            while j < len(s) and s[j] != q:
                j += 2 if s[j] == "\\" else 1
            lit = s[pos[0] + 1:j]
            pos[0] = j + 1
            return ("lit", lit)
        j = pos[0]
        while j < len(s) and (s[j].isalnum() or s[j] in "_:-."):
            j += 1
        word = s[pos[0]:j]
        if not word:
            raise ValueError
        pos[0] = j
        ws()
        if pos[0] < len(s) and s[pos[0]] == "(":
            pos[0] += 1
            return ("ctor", word, seq(")"))
        if pos[0] < len(s) and s[pos[0]] == "{":
            raise ValueError
        if word == "_":
            return ("wild",)
        if word in ("true", "false"):
            return ("lit", word == "true")
        if word.lstrip("-").isdigit():
            return ("lit", int(word))
        if "::" in word or word[:1].isupper():
            return ("ctor", word, [])
        return ("bind", word)
    try:
        t = alt()
        ws()
        return t if pos[0] == len(s) else None
    except (ValueError, IndexError):
        return None


def _nested(t):
    """does the pattern look inside a constructor's payload (beyond a binding / wildcard)?"""
    if t[0] == "or":
        return any(_nested(x) for x in t[1])
    if t[0] == "tuple":
        return any(x[0] not in ("wild", "bind", "lit") for x in t[1])
    if t[0] == "ctor":
        return any(x[0] not in ("wild", "bind") for x in t[2])
    return False


def _is_variant_path(path):
    segs = str(path).split("::")
    return len(segs) >= 2 and segs[-1][:1].isupper() and segs[-2][:1].isupper() and not segs[-1].isupper()


class Node:
    """An abstract XML element: tag + attribute map (string -> str|None) + parent."""

    def __init__(self, tag, attrs, parent=None, name="node"):
        self.tag = tag
        self.attrs = attrs
        self.parent = parent
        self.name = name

    def __repr__(self):
        return f"<{self.tag} {self.attrs}>"


IDENTITY_CALLS = ("clone", "cloned", "copied", "as_ref", "as_deref", "deref", "borrow", "to_owned", "into", "as_str", "as_mut", "iter", "into_iter")


class Evaluator:
    def __init__(self, bindings, opaque=False):
        """bindings: {("param", name) or nf -> python value}; with `opaque`, a call the evaluator has no meaning for yields an opaque
        value instead of ending the evaluation (for questions that only ask which variant / which branch results)"""
        self.b = bindings
        self.opaque = opaque

    def ev(self, n):
        if not isinstance(n, tuple):
            raise Undecided(f"non-nf {n!r}")
        if n in self.b:
            return self.b[n]
        k = n[0]
        if k == "lit":
            return n[1]
        if k == "param" or k == "local":
            if self.opaque:
                return ("opaque", n[1])
            raise Undecided(f"free variable {n[1]}")
        if k == "const":
            name = n[1].rsplit("::", 1)[-1]
            if name == "None":
                return NONE
            if _is_variant_path(n[1]):
                return ("variant", n[1])       # a unit variant of an enum
            if n[1] in CONST_VALUES:
                return CONST_VALUES[n[1]]      # a constant of the crate whose initialiser is literals (registered by the rule)
            raise Undecided(f"constant {n[1]}")
        if k == "not":
            return not self._bool(self.ev(n[1]))
        if k == "binop":
            op = n[1]
            if op == "And":
                return self._bool(self.ev(n[2])) and self._bool(self.ev(n[3]))
            if op == "Or":
                return self._bool(self.ev(n[2])) or self._bool(self.ev(n[3]))
            a, b = self.ev(n[2]), self.ev(n[3])
            if op == "Eq":
                return a == b
            if op == "Ne":
                return a != b
            if op in ("Lt", "Le", "Gt", "Ge") and isinstance(a, int) and isinstance(b, int):
                return {"Lt": a < b, "Le": a <= b, "Gt": a > b, "Ge": a >= b}[op]
            raise Undecided(f"binop {op} on {a!r},{b!r}")
        if k == "ifelse":
            c = self.ev(n[1])
            return self.ev(n[2]) if self._bool(c) else self.ev(n[3])
        if k == "islet":
            v = self.ev(n[2])
            return self._matches(n[1], v)
        if k == "payload":
            v = self.ev(n[2])
            if isinstance(v, tuple) and v and v[0] in ("some", "ok", "err") and n[1] in ("Some", "Ok", "Err") and v[0] == n[1].lower():
                return v[1]
            if isinstance(v, tuple) and v and v[0] == "variant" and len(v) > 2 and str(v[1]).rsplit("::", 1)[-1] == str(n[1]).rsplit("::", 1)[-1]:
                return v[2][0] if len(v[2]) == 1 else ("tuple", tuple(v[2]))
            raise Undecided(f"payload {n[1]} of {v!r}")
        if k == "map":
            v = self.ev(n[1])
            if v is NONE:
                return NONE
            if isinstance(v, tuple) and v[0] == "err":
                return v
            if isinstance(v, tuple) and v[0] == "ok":
                r = self.ev(n[2])
                return r if isinstance(r, tuple) and r and r[0] in ("ok", "err") else ("ok", r)
            if isinstance(v, tuple) and v[0] == "some":
                r = self.ev(n[2])
                # and_then returns the closure's Option unchanged; map wraps. The closure bodies used here return Options
                # (attribute lookups) or plain values; normalise: Option stays Option, plain value gets wrapped.
                if r is NONE or (isinstance(r, tuple) and r and r[0] == "some"):
                    return r
                return some(r)
            raise Undecided(f"map over {v!r}")
        if k == "call":
            return self._call(n)
        if k == "format":
            s = ""
            for p in n[1]:
                if p[0] == "lit":
                    s += p[1]
                else:
                    v = self.ev(p[1])
                    s += str(v)
            return s
        if k == "match":
            v = self.ev(n[1])
            for pat, body in n[2]:
                if self._matches(pat, v):
                    return self.ev(body)
            raise Undecided(f"no arm matches {v!r}")
        if k == "field":
            base = self.ev(n[1])
            if isinstance(base, dict) and n[2] in base:
                return base[n[2]]
            if isinstance(base, tuple) and n[2].isdigit() and base and base[0] == "tuple":
                return base[1][int(n[2])]
            raise Undecided(f"field {n[2]} of {base!r}")
        if k == "tuple":
            return ("tuple", tuple(self.ev(x) for x in n[1]))
        raise Undecided(f"normal form {k}")

    def _soft(self, n):
        """a component of a value being built: in opaque mode one that cannot be evaluated is opaque, the value is still built"""
        if not self.opaque:
            return self.ev(n)
        try:
            return self.ev(n)
        except Undecided:
            return ("opaque", "?")

    def _bool(self, v):
        if isinstance(v, bool):
            return v
        raise Undecided(f"not a bool: {v!r}")

    def _matches(self, pat, v):
        pat = pat.strip()
        if pat in ("_",):
            return True
        st = _parse_pattern(pat)
        if st is not None and _nested(st):
            return self._matches_tree(st, v)
        return self._matches_flat(pat, v)

    def _matches_tree(self, t, v):
        """a pattern with sub-patterns (`Ok(MaxOccurs::Count(n))`) against a value built from ok / some / err / variant / tuple"""
        kind = t[0]
        if kind == "or":
            return any(self._matches_tree(x, v) for x in t[1])
        if kind == "wild" or kind == "bind":
            return True
        if kind == "lit":
            return v == t[1]
        if kind == "tuple":
            if isinstance(v, tuple) and v and v[0] == "tuple" and len(v[1]) == len(t[1]):
                return all(self._matches_tree(x, y) for x, y in zip(t[1], v[1]))
            raise Undecided(f"tuple pattern on {v!r}")
        if kind == "ctor":
            head, subs = t[1], t[2]
            short = head.rsplit("::", 1)[-1]
            if short in ("Some", "Ok", "Err"):
                tag = short.lower()
                if v is NONE:
                    return False
                if isinstance(v, tuple) and v and v[0] in ("some", "ok", "err"):
                    return v[0] == tag and (not subs or self._matches_tree(subs[0], v[1]))
                raise Undecided(f"pattern {short}(..) on {v!r}")
            if short == "None":
                if v is NONE:
                    return True
                if isinstance(v, tuple) and v and v[0] == "some":
                    return False
                raise Undecided(f"pattern None on {v!r}")
            if isinstance(v, tuple) and v and v[0] == "variant":
                if str(v[1]).rsplit("::", 1)[-1] != short:
                    return False
                payload = v[2] if len(v) > 2 else ()
                if subs and len(subs) != len(payload):
                    raise Undecided(f"pattern {head} with {len(subs)} sub-patterns on {v!r}")
                return all(self._matches_tree(x, y) for x, y in zip(subs, payload))
            raise Undecided(f"pattern {head} on {v!r}")
        raise Undecided(f"pattern {t!r}")

    def _matches_flat(self, pat, v):
        if "|" in pat and "(" not in pat and "{" not in pat and not pat.startswith(("'", '"')):
            return any(self._matches_flat(p_.strip(), v) for p_ in pat.split("|"))      # `A | B`: either
        if isinstance(v, tuple) and v and v[0] == "variant":
            # an enum value known by its variant: the pattern names a variant (path, possibly with sub-patterns) or binds
            head = pat.split("(")[0].split("{")[0].strip()
            if "::" in head or head[:1].isupper():
                return head.rsplit("::", 1)[-1] == str(v[1]).rsplit("::", 1)[-1]
            if head.isidentifier():
                return True
            raise Undecided(f"pattern {pat} on {v!r}")
        if pat.startswith("Some("):
            return isinstance(v, tuple) and v and v[0] == "some"
        if pat == "None" or pat.endswith("::None"):
            return v is NONE
        if pat.startswith("Ok("):
            return isinstance(v, tuple) and v and v[0] == "ok"
        if pat.startswith("Err("):
            return isinstance(v, tuple) and v and v[0] == "err"
        if pat.startswith("'") or pat.startswith('"'):
            # literal pattern(s), possibly or-ed
            alts = [p.strip().strip("'\"") for p in pat.split("|")]
            return v in alts
        if pat == "true":
            return v is True
        if pat == "false":
            return v is False
        if pat.isidentifier():
            return True  # binding
        raise Undecided(f"pattern {pat}")

    def _call(self, n):
        path = n[1] if isinstance(n[1], str) else "?"
        short = path.rsplit("::", 1)[-1]
        args = n[2]
        if path.startswith("struct:"):
            return {a[1]: self._soft(a[2]) for a in args if isinstance(a, tuple) and a[0] == "field_init"}
        if short == "Some" and len(args) == 1:
            return some(self.ev(args[0]))
        if short == "Ok" and len(args) == 1:
            return ("ok", self.ev(args[0]))
        if short == "Err" and len(args) == 1:
            try:
                return ("err", self.ev(args[0]))
            except Undecided:
                return ("err", "?")
        if _is_variant_path(path) and short not in ("Some", "Ok", "Err"):
            return ("variant", path, tuple(self._soft(a) for a in args))      # a tuple variant built from its payload
        if path.endswith("Node::<'a, 'input>::attribute") or short == "attribute":
            node = self.ev(args[0])
            name = self.ev(args[1])
            if isinstance(node, Node):
                v = node.attrs.get(name, NONE)
                return NONE if v is NONE else some(v)
            raise Undecided(f"attribute of {node!r}")
        if path.endswith("Node::<'a, 'input>::parent") or short == "parent":
            node = self.ev(args[0])
            if isinstance(node, Node):
                return NONE if node.parent is None else some(node.parent)
            raise Undecided(f"parent of {node!r}")
        if path.endswith("Node::<'a, 'input>::tag_name") or short == "tag_name":
            node = self.ev(args[0])
            if isinstance(node, Node):
                return ("tagname", node.tag)
            raise Undecided(f"tag_name of {node!r}")
        if short == "name" and len(args) == 1:
            v = self.ev(args[0])
            if isinstance(v, tuple) and v[0] == "tagname":
                return v[1]
            raise Undecided(f"name of {v!r}")
        if short == "filter" and len(args) == 2:
            # Option::filter(pred): the predicate body refers to the payload of the receiver
            v = self.ev(args[0])
            if v is NONE:
                return NONE
            if isinstance(v, tuple) and v[0] == "some":
                return v if self._bool(self.ev(args[1])) else NONE
            raise Undecided(f"filter of {v!r}")
        if short == "is_element" and len(args) == 1:
            v = self.ev(args[0])
            if isinstance(v, Node):
                return True
            raise Undecided(f"is_element of {v!r}")
        if path in ("iter::any", "iter::all") and len(args) == 2:
            # `[a, b].into_iter().flatten().any(p)`: the elements of a literal array (those that are there, through `flatten`), each
            # tried with the predicate (which is written over ("elem", <the iterated value>))
            src = args[0]
            cur, flat = src, False
            for _ in range(6):
                if isinstance(cur, tuple) and cur and cur[0] == "call" and len(cur[2]) == 1 and str(cur[1]).rsplit("::", 1)[-1] in ("into_iter", "iter", "flatten", "copied", "cloned"):
                    flat = flat or str(cur[1]).rsplit("::", 1)[-1] == "flatten"
                    cur = cur[2][0]
                else:
                    break
            if isinstance(cur, tuple) and cur and cur[0] == "tuple":
                vals = [self.ev(x) for x in cur[1]]
                if flat:
                    vals = [v[1] if isinstance(v, tuple) and v and v[0] == "some" else v for v in vals if v is not NONE]
                outs = []
                for v in vals:
                    b2 = dict(self.b)
                    b2[("elem", src)] = v
                    sub = Evaluator(b2, opaque=self.opaque)
                    outs.append(sub._bool(sub.ev(args[1])))
                return any(outs) if path == "iter::any" else all(outs)
            raise Undecided(f"call {path}")
        if short == "is_some_and":
            v = self.ev(args[0])
            if v is NONE:
                return False
            return self._bool(self.ev(args[1]))
        if short == "is_ok_and":
            v = self.ev(args[0])
            if isinstance(v, tuple) and v[0] == "err":
                return False
            # closure body refers to payload Some/Ok of recv: rebind through payload
            return self._bool(self.ev(args[1]))
        if short in ("is_some",):
            return self.ev(args[0]) is not NONE
        if short in ("is_none",):
            return self.ev(args[0]) is NONE
        if short == "parse":
            v = self.ev(args[0])
            if isinstance(v, str) and v.strip().isdigit():
                targs = n[3][1] if len(n) > 3 and isinstance(n[3], tuple) and n[3] and n[3][0] == "targs" else ()
                if len(targs) == 1 and targs[0] in NARROW and not NARROW[targs[0]][0] <= int(v.strip()) <= NARROW[targs[0]][1]:
                    return ("err", "parse")          # the number does not fit the type it is read into
                return ("ok", int(v.strip()))
            if isinstance(v, str):
                return ("err", "parse")
            raise Undecided(f"parse of {v!r}")
        if short == "split_once":
            v = self.ev(args[0])
            sep = self.ev(args[1])
            if isinstance(v, str) and isinstance(sep, str):
                if sep in v:
                    a, b = v.split(sep, 1)
                    return some(("tuple", (a, b)))
                return NONE
            raise Undecided(f"split_once of {v!r}")
        if short in ("trim",):
            v = self.ev(args[0])
            return v.strip() if isinstance(v, str) else v
        if short in ("trim_matches", "trim_start_matches", "trim_end_matches") and len(args) == 2:
            v = self.ev(args[0])
            pat = self.ev(args[1])
            chars = pat if isinstance(pat, str) and len(pat) == 1 else "".join(pat) if isinstance(pat, (list, tuple)) and pat and all(isinstance(c_, str) and len(c_) == 1 for c_ in pat) else None
            if isinstance(v, str) and chars is not None:
                return v.strip(chars) if short == "trim_matches" else v.lstrip(chars) if short == "trim_start_matches" else v.rstrip(chars)
            raise Undecided(f"{short} of {v!r} by {pat!r}")
        if short in ("unwrap_or",):
            v = self.ev(args[0])
            if v is NONE:
                return self.ev(args[1])
            return v[1]
        if short == "matches" or short == "eq":
            return self.ev(args[0]) == self.ev(args[1])
        if short == "ok" and len(args) == 1:
            v = self.ev(args[0])
            if isinstance(v, tuple) and v[0] == "ok":
                return some(v[1])
            if isinstance(v, tuple) and v[0] == "err":
                return NONE
        if short in ("ok_or", "ok_or_else") and args:
            v = self.ev(args[0])
            if v is NONE:
                return ("err", "?")
            if isinstance(v, tuple) and v[0] == "some":
                return ("ok", v[1])
            raise Undecided(f"{short} of {v!r}")
        if short in IDENTITY_CALLS and len(args) == 1:
            return self.ev(args[0])
        if self.opaque:
            return ("opaque", path)
        raise Undecided(f"call {path}")


def product(domains):
    keys = list(domains)
    for combo in itertools.product(*[domains[k] for k in keys]):
        yield dict(zip(keys, combo))


def register_constants(F):
    """the constants of the crate whose initialiser is a literal or an array / tuple of literals (`const XSD_WHITE_SPACE: [char; 4]`)
    get their values here, read off their text"""
    from . import ceval
    ip = None
    for cr in (F.lib,):
        for c in cr.items.get("consts", []):
            ty = str(c.get("ty", "")).replace(" ", "")
            if not ty.startswith(("[char;", "char", "&str", "&'static str", "[&str;", "[&'staticstr;", "&[char", "&[&str", "&'static[", "usize", "u8", "u32", "u64", "i32")):
                continue
            try:
                ip = ip or ceval.Concrete(F)
                v = ip.const(c["path"], {"sp": c.get("span")})
            except Exception:       # noqa: BLE001 (an initialiser outside the evaluator's subset: the constant stays unknown)
                continue
            if isinstance(v, (str, int)) and not isinstance(v, bool):
                CONST_VALUES[c["path"]] = v
            elif isinstance(v, (list, tuple)) and all(isinstance(x, (str, int)) for x in v):
                CONST_VALUES[c["path"]] = tuple(v)
