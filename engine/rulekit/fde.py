"""P6 finite-domain evaluator: abstract evaluation of provenance normal forms (a closed subset of pure
expressions) over a finite partition of the inputs. Anything outside the subset raises Undecided."""
import itertools


class Undecided(Exception):
    pass


NONE = None


def some(v):
    return ("some", v)


class Node:
    """An abstract XML element: tag + attribute map (string -> str|None) + parent."""

    def __init__(self, tag, attrs, parent=None, name="node"):
        self.tag = tag
        self.attrs = attrs
        self.parent = parent
        self.name = name

    def __repr__(self):
        return f"<{self.tag} {self.attrs}>"


class Evaluator:
    def __init__(self, bindings):
        """bindings: {("param", name) or nf -> python value}"""
        self.b = bindings

    def ev(self, n):
        if not isinstance(n, tuple):
            raise Undecided(f"non-nf {n!r}")
        if n in self.b:
            return self.b[n]
        k = n[0]
        if k == "lit":
            return n[1]
        if k == "param" or k == "local":
            raise Undecided(f"free variable {n[1]}")
        if k == "const":
            name = n[1].rsplit("::", 1)[-1]
            if name == "None":
                return NONE
            raise Undecided(f"constant {n[1]}")
        if k == "not":
            return not self._bool(self.ev(n[1]))
        if k == "binop":
            op = n[1]
            if op == "And":
                return self._bool(self.ev(n[2])) and self._bool(self.ev(n[3]))
            if op == "Or":
                return self._bool(self.ev(n[2])) or self._bool(self.ev(n[3]))
            a, b = self.ev(n[2]), self.ev(n[3])
            if op == "Eq":
                return a == b
            if op == "Ne":
                return a != b
            if op in ("Lt", "Le", "Gt", "Ge") and isinstance(a, int) and isinstance(b, int):
                return {"Lt": a < b, "Le": a <= b, "Gt": a > b, "Ge": a >= b}[op]
            raise Undecided(f"binop {op} on {a!r},{b!r}")
        if k == "ifelse":
            c = self.ev(n[1])
            return self.ev(n[2]) if self._bool(c) else self.ev(n[3])
        if k == "islet":
            v = self.ev(n[2])
            return self._matches(n[1], v)
        if k == "payload":
            v = self.ev(n[2])
            if isinstance(v, tuple) and v and v[0] in ("some", "ok") and n[1] in ("Some", "Ok"):
                return v[1]
            raise Undecided(f"payload {n[1]} of {v!r}")
        if k == "map":
            v = self.ev(n[1])
            if v is NONE:
                return NONE
            if isinstance(v, tuple) and v[0] == "some":
                r = self.ev(n[2])
                # and_then returns the closure's Option unchanged; map wraps. The closure bodies used here return Options
                # (attribute lookups) or plain values; normalise: Option stays Option, plain value gets wrapped.
                if r is NONE or (isinstance(r, tuple) and r and r[0] == "some"):
                    return r
                return some(r)
            raise Undecided(f"map over {v!r}")
        if k == "call":
            return self._call(n)
        if k == "format":
            s = ""
            for p in n[1]:
                if p[0] == "lit":
                    s += p[1]
                else:
                    v = self.ev(p[1])
                    s += str(v)
            return s
        if k == "match":
            v = self.ev(n[1])
            for pat, body in n[2]:
                if self._matches(pat, v):
                    return self.ev(body)
            raise Undecided(f"no arm matches {v!r}")
        if k == "field":
            base = self.ev(n[1])
            if isinstance(base, dict) and n[2] in base:
                return base[n[2]]
            if isinstance(base, tuple) and n[2].isdigit() and base and base[0] == "tuple":
                return base[1][int(n[2])]
            raise Undecided(f"field {n[2]} of {base!r}")
        if k == "tuple":
            return ("tuple", tuple(self.ev(x) for x in n[1]))
        raise Undecided(f"normal form {k}")

    def _bool(self, v):
        if isinstance(v, bool):
            return v
        raise Undecided(f"not a bool: {v!r}")

    def _matches(self, pat, v):
        pat = pat.strip()
        if pat in ("_",):
            return True
        if isinstance(v, tuple) and v and v[0] == "variant":
            # an enum value known by its variant: the pattern names a variant (path, possibly with sub-patterns) or binds
            head = pat.split("(")[0].split("{")[0].strip()
            if "::" in head or head[:1].isupper():
                return head.rsplit("::", 1)[-1] == str(v[1]).rsplit("::", 1)[-1]
            if head.isidentifier():
                return True
            raise Undecided(f"pattern {pat} on {v!r}")
        if pat.startswith("Some("):
            return isinstance(v, tuple) and v and v[0] == "some"
        if pat == "None" or pat.endswith("::None"):
            return v is NONE
        if pat.startswith("Ok("):
            return isinstance(v, tuple) and v and v[0] == "ok"
        if pat.startswith("Err("):
            return isinstance(v, tuple) and v and v[0] == "err"
        if pat.startswith("'") or pat.startswith('"'):
            # literal pattern(s), possibly or-ed
            alts = [p.strip().strip("'\"") for p in pat.split("|")]
            return v in alts
        if pat == "true":
            return v is True
        if pat == "false":
            return v is False
        if pat.isidentifier():
            return True  # binding
        raise Undecided(f"pattern {pat}")

    def _call(self, n):
        path = n[1] if isinstance(n[1], str) else "?"
        short = path.rsplit("::", 1)[-1]
        args = n[2]
        if short == "Some" and len(args) == 1:
            return some(self.ev(args[0]))
        if short == "Ok" and len(args) == 1:
            return ("ok", self.ev(args[0]))
        if path.endswith("Node::<'a, 'input>::attribute") or short == "attribute":
            node = self.ev(args[0])
            name = self.ev(args[1])
            if isinstance(node, Node):
                v = node.attrs.get(name, NONE)
                return NONE if v is NONE else some(v)
            raise Undecided(f"attribute of {node!r}")
        if path.endswith("Node::<'a, 'input>::parent") or short == "parent":
            node = self.ev(args[0])
            if isinstance(node, Node):
                return NONE if node.parent is None else some(node.parent)
            raise Undecided(f"parent of {node!r}")
        if path.endswith("Node::<'a, 'input>::tag_name") or short == "tag_name":
            node = self.ev(args[0])
            if isinstance(node, Node):
                return ("tagname", node.tag)
            raise Undecided(f"tag_name of {node!r}")
        if short == "name" and len(args) == 1:
            v = self.ev(args[0])
            if isinstance(v, tuple) and v[0] == "tagname":
                return v[1]
            raise Undecided(f"name of {v!r}")
        if short == "filter" and len(args) == 2:
            # Option::filter(pred): the predicate body refers to the payload of the receiver
            v = self.ev(args[0])
            if v is NONE:
                return NONE
            if isinstance(v, tuple) and v[0] == "some":
                return v if self._bool(self.ev(args[1])) else NONE
            raise Undecided(f"filter of {v!r}")
        if short == "is_element" and len(args) == 1:
            v = self.ev(args[0])
            if isinstance(v, Node):
                return True
            raise Undecided(f"is_element of {v!r}")
        if short == "is_some_and":
            v = self.ev(args[0])
            if v is NONE:
                return False
            return self._bool(self.ev(args[1]))
        if short == "is_ok_and":
            v = self.ev(args[0])
            if isinstance(v, tuple) and v[0] == "err":
                return False
            # closure body refers to payload Some/Ok of recv: rebind through payload
            return self._bool(self.ev(args[1]))
        if short in ("is_some",):
            return self.ev(args[0]) is not NONE
        if short in ("is_none",):
            return self.ev(args[0]) is NONE
        if short == "parse":
            v = self.ev(args[0])
            if isinstance(v, str) and v.strip().isdigit():
                return ("ok", int(v.strip()))
            if isinstance(v, str):
                return ("err", "parse")
            raise Undecided(f"parse of {v!r}")
        if short == "split_once":
            v = self.ev(args[0])
            sep = self.ev(args[1])
            if isinstance(v, str) and isinstance(sep, str):
                if sep in v:
                    a, b = v.split(sep, 1)
                    return some(("tuple", (a, b)))
                return NONE
            raise Undecided(f"split_once of {v!r}")
        if short in ("trim",):
            v = self.ev(args[0])
            return v.strip() if isinstance(v, str) else v
        if short in ("unwrap_or",):
            v = self.ev(args[0])
            if v is NONE:
                return self.ev(args[1])
            return v[1]
        if short == "matches" or short == "eq":
            return self.ev(args[0]) == self.ev(args[1])
        if short == "ok" and len(args) == 1:
            v = self.ev(args[0])
            if isinstance(v, tuple) and v[0] == "ok":
                return some(v[1])
            if isinstance(v, tuple) and v[0] == "err":
                return NONE
        s = self.summaries.get(path) if hasattr(self, "summaries") else None
        raise Undecided(f"call {path}")


def product(domains):
    keys = list(domains)
    for combo in itertools.product(*[domains[k] for k in keys]):
        yield dict(zip(keys, combo))
