"""E3: assemble and type-check the witness crate (stable cargo check, six documented dependencies)."""
import hashlib
import json
import os
import shutil
import subprocess

from . import facts as factsmod

VERIF = factsmod.VERIF
BUILD = os.path.join(VERIF, "witness", "build.sh")
TAIL = os.path.join(VERIF, "witness", "prelude", "witness_tail.rs")


def const_value(F, suffix):
    for c in F.lib.items["consts"]:
        if c["path"].endswith(suffix) and c.get("value") is not None and "{constant" not in c["path"]:
            return c["value"]
    return None


class FixedTextUnreadable(Exception):
    """the header / helper writers do not write one constant text: a statement about the analysed code, not about the harness"""


def fixed_texts(F):
    """(header text, helper text): what the FileHeader and Helpers writers put around the generated items, read off the output
    grammar (constants evaluated by the compiler, literals), not looked up by the name of a constant"""
    from rules import anchors as A
    from rules import templates as T
    X = T.extractor(F)
    header, why_h = A.header_text(F, X)
    helpers, why_p = A.helpers_text(F, X)
    if header is None or helpers is None:
        raise FixedTextUnreadable(f"header: {why_h}; helpers: {why_p}")
    return header, helpers


class Segment:
    def __init__(self, name, text):
        self.name = name
        self.text = text if text.endswith("\n") else text + "\n"
        self.start = 0
        self.end = 0


def assemble(segments):
    out = []
    line = 1
    for s in segments:
        s.start = line
        n = s.text.count("\n")
        s.end = line + n - 1
        line += n
        out.append(s.text)
    return "".join(out)


def locate(segments, line):
    for s in segments:
        if s.start <= line <= s.end:
            return s, line - s.start + 1
    return None, line


def check(F, segments, tag="prelude"):
    """Type-check the assembled crate. Returns (ok, diagnostics) where each diagnostic is
    {level, code, message, segment, line (within the segment), text}."""
    src = assemble(segments)
    h = hashlib.sha256(src.encode()).hexdigest()[:16]
    work = os.path.join(factsmod.CACHE, "witness-work", f"{tag}-{h}")
    cache = os.path.join(work, "result.json")

    def cached():
        try:
            with open(cache) as f:
                return tuple(json.load(f))
        except (OSError, ValueError):
            return None

    r0 = cached()
    if r0 is not None:
        return r0
    env = dict(os.environ, VERIF_REPO=F.root)
    # one witness build at a time, and nothing touches a work directory outside the lock: a second process with the same
    # source waits here and then finds the result of the first
    lock = factsmod._lock("witness")
    try:
        r0 = cached()
        if r0 is not None:
            return r0
        shutil.rmtree(work, ignore_errors=True)
        os.makedirs(work, exist_ok=True)
        lib = os.path.join(work, "lib_src.rs")
        with open(lib, "w") as f:
            f.write(src)
        r = subprocess.run([BUILD, "check", work, lib], env=env, stdout=subprocess.PIPE, stderr=subprocess.STDOUT, text=True)
        return _collect(F, segments, work, cache, r)
    finally:
        lock.close()


def _collect(F, segments, work, cache, r):
    diags = []
    msgs = os.path.join(work, "messages.json")
    if os.path.exists(msgs):
        for ln in open(msgs):
            try:
                m = json.loads(ln)
            except ValueError:
                continue
            if m.get("reason") != "compiler-message":
                continue
            d = m["message"]
            if d.get("level") not in ("error",):
                continue
            spans = [s for s in d.get("spans", []) if s.get("is_primary")] or d.get("spans", [])
            line = spans[0]["line_start"] if spans else 0
            seg, rel = locate(segments, line)
            text = spans[0]["text"][0]["text"] if spans and spans[0].get("text") else ""
            diags.append({"level": d["level"], "code": (d.get("code") or {}).get("code"), "message": d["message"],
                          "segment": seg.name if seg else "?", "line": rel, "text": text.strip()[:200]})
    ok = r.returncode == 0
    if not ok and not diags:
        err = open(os.path.join(work, "stderr.txt")).read()[-3000:] if os.path.exists(os.path.join(work, "stderr.txt")) else r.stdout[-2000:]
        if "error: no matching package" in err or "failed to select a version" in err or "could not find" in err and "registry" in err:
            raise factsmod.InfraError("witness crate: dependencies unavailable offline:\n" + err)
        # not a statement about the generated code: the build itself failed
        raise factsmod.InfraError("witness crate: cargo check failed without a compiler message:\n" + err[-1500:])
    tmp = cache + ".tmp"
    with open(tmp, "w") as f:
        json.dump([ok, diags], f)
    os.replace(tmp, cache)
    # keep the work area small (still under the lock: no other process is inside a work directory)
    base = os.path.join(factsmod.CACHE, "witness-work")
    ds = sorted((os.path.getmtime(os.path.join(base, d)), d) for d in os.listdir(base) if "-" in d)
    for _, d in ds[:-40]:
        shutil.rmtree(os.path.join(base, d), ignore_errors=True)
    return ok, diags


def prelude_segments(F, samples=None):
    header, helpers = fixed_texts(F)
    segs = [Segment("header", header)]
    for name, text in (samples or []):
        segs.append(Segment(name, text))
    segs.append(Segment("helpers", helpers))
    segs.append(Segment("witness", open(TAIL).read()))
    return segs
