"""Jump threading over factgen's MIR JSON: removal of control-flow edges that no execution can take because the value switched
on was fixed earlier on the same path.

Why: after inlining, `helper(..)?` reads  `ret = Err(..)` / `ret = Ok(..)` inside the helper, a join at the helper's return,
`Try::branch(ret)`, and a switch on the discriminant. In the plain CFG the helper's failing path joins and then seems able to
take the Continue arm, so "the check's success continuation dominates the send" is false in the graph although it is true of
every execution. The paths are separated here: blocks are specialised by what is known about the variant of Result / Option /
ControlFlow / Poll locals (set by an aggregate, by `from_residual`, by `Try::branch` of a known value, copied by moves), switches
on a known discriminant keep only the arm taken, and clones that behave the same are merged again (partition refinement), so
that only the blocks between a known assignment and the switch it decides are duplicated.

Sound direction: only edges that cannot be taken are removed; statements are never changed. A local whose address is taken
mutably is not tracked."""
import copy

VARIANT_INDEX = {"Ok": 0, "Err": 1, "Continue": 0, "Break": 1, "Ready": 0, "Pending": 1, "None": 0, "Some": 1}
TRACKED_ADTS = ("result::Result", "ops::ControlFlow", "ops::control_flow::ControlFlow", "task::Poll", "task::poll::Poll", "option::Option")
BLOCK_KEYS = ("target", "otherwise", "imaginary", "drop")


def _tracked_adt(name):
    return any((name or "").endswith(a) for a in TRACKED_ADTS)


def _whole_local(op):
    return op.get("k") in ("copy", "move") and not op["p"].get("proj")


def _untrackable(m):
    """locals whose address is taken mutably (or raw): what they hold can change behind the analysis"""
    bad = set()
    for blk in m["blocks"]:
        for s in blk["stmts"]:
            if s["k"] == "assign" and s["rv"]["k"] in ("ref", "addr_of", "raw"):
                if s["rv"]["k"] != "ref" or s["rv"].get("bk") != "Shared":
                    bad.add(s["rv"]["p"]["l"])
    return bad


def _step_stmt(facts, s, bad):
    if s["k"] in ("storage_dead", "storage_live"):
        facts.pop(s.get("l"), None)
        return
    if s["k"] != "assign":
        return
    l = s["p"]["l"]
    if s["p"].get("proj"):
        facts.pop(l, None)
        return
    rv = s["rv"]
    new = None
    if l not in bad:
        if rv["k"] == "aggregate" and rv.get("ak") == "adt" and _tracked_adt(rv.get("adt")) and rv.get("variant") in VARIANT_INDEX:
            inner = None
            if len(rv.get("ops", [])) == 1 and _whole_local(rv["ops"][0]):
                inner = facts.get(rv["ops"][0]["p"]["l"])
            new = ("v", rv["variant"], inner)
        elif rv["k"] == "use" and _whole_local(rv["op"]):
            new = facts.get(rv["op"]["p"]["l"])
        elif rv["k"] == "use" and rv["op"].get("k") in ("copy", "move"):
            # the payload of a known variant: `(x as Ready).0`
            pr = rv["op"]["p"].get("proj") or []
            base = facts.get(rv["op"]["p"]["l"])
            if base and base[0] == "v" and len(pr) == 2 and isinstance(pr[0], dict) and pr[0].get("downcast") == base[1] \
                    and isinstance(pr[1], dict) and pr[1].get("i") == 0:
                new = base[2]
        elif rv["k"] == "discr" and not rv["p"].get("proj"):
            base = facts.get(rv["p"]["l"])
            if base and base[0] == "v":
                new = ("int", VARIANT_INDEX[base[1]])
    if new is None:
        facts.pop(l, None)
    else:
        facts[l] = new


def _step_call(facts, t, locals_, bad):
    d = t.get("dest") or {}
    if "l" not in d:
        return
    l = d["l"]
    if d.get("proj"):
        facts.pop(l, None)
        return
    decl = (t.get("func") or {}).get("fn_path") or ""
    new = None
    if l not in bad:
        ty = locals_[l].get("ty", "")
        if decl.endswith("FromResidual::from_residual"):
            if ty.startswith(("std::result::Result<", "core::result::Result<")):
                new = ("v", "Err", None)
            elif ty.startswith(("std::option::Option<", "core::option::Option<")):
                new = ("v", "None", None)
        elif decl.endswith("ops::Try::branch") and t.get("args") and _whole_local(t["args"][0]):
            a = facts.get(t["args"][0]["p"]["l"])
            if a and a[0] == "v" and a[1] in ("Ok", "Some"):
                new = ("v", "Continue", None)
            elif a and a[0] == "v" and a[1] in ("Err", "None"):
                new = ("v", "Break", None)
    if new is None:
        facts.pop(l, None)
    else:
        facts[l] = new


def _key(facts):
    return tuple(sorted(facts.items(), key=lambda kv: kv[0]))


def thread(fact, max_factor=8):
    """A new fact body with infeasible edges removed (or `fact` itself when nothing could be resolved / the bound was hit)."""
    m = fact["mir"]
    blocks = m["blocks"]
    bad = _untrackable(m) | {0}
    nodes = {}      # (bb, key) -> node id
    info = []       # node id -> (bb, succ list in terminator order [(slot, node id)], resolved switch arm or None)
    work = []

    def node(bb, facts):
        k = (bb, _key(facts))
        if k not in nodes:
            nodes[k] = len(info)
            info.append(None)
            work.append((nodes[k], bb, dict(facts)))
        return nodes[k]

    node(0, {})
    resolved_any = False
    while work:
        nid, bb, facts = work.pop()
        if len(info) > max_factor * len(blocks) + 64:
            return fact
        blk = blocks[bb]
        for s in blk["stmts"]:
            _step_stmt(facts, s, bad)
        t = blk.get("term") or {}
        k = t.get("k")
        succ = []
        res = None
        if k == "call":
            _step_call(facts, t, m["locals"], bad)
            if "target" in t and t["target"] is not None:
                succ.append(("target", node(t["target"], facts)))
        elif k == "switch":
            d = t["discr"]
            known = facts.get(d["p"]["l"]) if _whole_local(d) else None
            if known and known[0] == "int":
                taken = [b2 for v, b2 in t["targets"] if v == known[1]]
                if taken:
                    res = ("value", known[1])
                    succ.append((("targets", known[1]), node(taken[0], facts)))
                else:
                    res = ("otherwise", None)
                    succ.append(("otherwise", node(t["otherwise"], facts)))
                resolved_any = True
            else:
                for v, b2 in t["targets"]:
                    succ.append((("targets", v), node(b2, facts)))
                succ.append(("otherwise", node(t["otherwise"], facts)))
        else:
            if k == "yield":
                facts = {}   # resumed later: nothing is assumed across a suspension point
            for key in ("target",):
                if key in t and isinstance(t[key], int):
                    succ.append((key, node(t[key], facts)))
        info[nid] = (bb, succ, res)
    if not resolved_any:
        return fact
    # merge clones that behave the same: coarsest partition by (original block, classes of the successors)
    cls = [i[0] for i in info]
    while True:
        sig = {}
        new = []
        for i, (bb, succ, res) in enumerate(info):
            s = (cls[i], res, tuple((slot, cls[n]) for slot, n in succ))
            new.append(sig.setdefault(s, len(sig)))
        if len(sig) == len(set(cls)):
            cls = new
            break
        cls = new
    # class of node 0 must become block 0
    order = []
    seen = set()
    for i in range(len(info)):
        if cls[i] not in seen:
            seen.add(cls[i])
            order.append(i)
    order.sort(key=lambda i: (0 if i == 0 else 1, info[i][0], i))
    newidx = {cls[i]: n for n, i in enumerate(order)}
    out = dict(fact)
    nm = dict(m)
    nb = []
    dead = len(order)   # one shared unreachable block for the arms that cannot be taken
    for n, i in enumerate(order):
        bb, succ, res = info[i]
        src = blocks[bb]
        blk = dict(src)
        blk["i"] = n
        blk["orig"] = src.get("orig", bb)
        t = copy.deepcopy(src.get("term") or {})
        smap = {slot: newidx[cls[x]] for slot, x in succ}
        if t.get("k") == "switch":
            if res is not None:
                t["resolved"] = True
                if res[0] == "value":
                    t["targets"] = [[res[1], smap[("targets", res[1])]]]
                    t["otherwise"] = dead
                else:
                    t["targets"] = []
                    t["otherwise"] = smap["otherwise"]
            else:
                t["targets"] = [[v, smap[("targets", v)]] for v, _ in t["targets"]]
                t["otherwise"] = smap["otherwise"]
        else:
            if "target" in t and isinstance(t.get("target"), int):
                t["target"] = smap.get("target", dead)
            for key in ("imaginary",) + (("drop",) if t.get("k") == "yield" else ()):
                if key in t:
                    t[key] = dead
            t.pop("unwind", None)
        blk["term"] = t
        nb.append(blk)
    nb.append({"i": dead, "stmts": [], "term": {"k": "unreachable"}, "orig": None})
    nm["blocks"] = nb
    out["mir"] = nm
    out["threaded"] = {"blocks_before": len(blocks), "blocks_after": len(nb)}
    return out
