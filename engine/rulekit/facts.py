"""Fact generation (E1) and loading. Facts are produced by the factgen driver from the
*current* working tree of the repository and cached only by a content hash of that tree."""
import fcntl
import hashlib
import json
import re
import os
import shutil
import subprocess
import sys
import time

VERIF = os.path.dirname(os.path.dirname(os.path.dirname(os.path.abspath(__file__))))
CACHE = os.path.join(VERIF, ".cache")
DRIVER_DIR = os.path.join(VERIF, "engine", "factgen")
DRIVER = os.path.join(DRIVER_DIR, "target", "debug", "factgen")


class InfraError(Exception):
    pass


def repo_root():
    return os.path.abspath(os.environ.get("VERIF_REPO", "/repo"))


def _tracked_files(root):
    out = []
    for base in ("zeep-lib", "zeep"):
        for dp, dns, fns in os.walk(os.path.join(root, base)):
            dns[:] = sorted(d for d in dns if d not in ("target", ".git", "test-data"))
            for fn in sorted(fns):
                if fn.endswith((".rs", ".toml")):
                    out.append(os.path.join(dp, fn))
    for fn in ("Cargo.toml", "Cargo.lock"):
        p = os.path.join(root, fn)
        if os.path.exists(p):
            out.append(p)
    return out


def tree_hash(root=None):
    root = root or repo_root()
    h = hashlib.sha256()
    for p in _tracked_files(root):
        h.update(os.path.relpath(p, root).encode())
        h.update(b"\0")
        with open(p, "rb") as f:
            h.update(f.read())
        h.update(b"\0")
    # the driver itself is part of the key: a rebuilt driver invalidates cached facts
    for dp, _, fns in os.walk(os.path.join(DRIVER_DIR, "src")):
        for fn in sorted(fns):
            with open(os.path.join(dp, fn), "rb") as f:
                h.update(f.read())
    return h.hexdigest()[:24]


def nightly_sysroot():
    try:
        return subprocess.check_output(["rustc", "+nightly", "--print", "sysroot"], text=True).strip()
    except Exception as e:  # pragma: no cover
        raise InfraError(f"nightly toolchain unavailable: {e}")


def _driver_stale():
    """a source file of the driver is newer than the binary"""
    bt = _mtime(DRIVER)
    for dp, _, fns in os.walk(os.path.join(DRIVER_DIR, "src")):
        for fn in fns:
            if _mtime(os.path.join(dp, fn)) > bt:
                return True
    return False


def build_driver():
    env = dict(os.environ, CARGO_NET_OFFLINE="true")
    r = subprocess.run(["cargo", "build", "--offline"], cwd=DRIVER_DIR, env=env,
                       stdout=subprocess.PIPE, stderr=subprocess.STDOUT, text=True)
    if r.returncode != 0 or not os.path.exists(DRIVER):
        raise InfraError("factgen driver does not build:\n" + r.stdout[-4000:])


def _lock(name):
    os.makedirs(CACHE, exist_ok=True)
    f = open(os.path.join(CACHE, name + ".lock"), "w")
    fcntl.flock(f, fcntl.LOCK_EX)
    return f


def _mtime(p):
    try:
        return os.path.getmtime(p)
    except OSError:
        return 0.0


def _touch(p):
    try:
        os.utime(p, None)
    except OSError:
        pass


def generate(root=None, force=False):
    """Run the driver over the workspace at `root`; returns the facts directory."""
    root = root or repo_root()
    h = tree_hash(root)
    out = os.path.join(CACHE, "facts", h)
    marker = os.path.join(out, "OK")
    if os.path.exists(marker) and not force:
        _touch(marker)
        return out
    lock = _lock("facts")
    try:
        if os.path.exists(marker) and not force:
            return out
        if not os.path.exists(DRIVER) or _driver_stale():
            build_driver()
        shutil.rmtree(out, ignore_errors=True)
        os.makedirs(out)
        target = os.path.join(CACHE, "target-nightly")
        os.makedirs(target, exist_ok=True)
        # cargo's freshness cache would skip the wrapper: forget the workspace members
        fp = os.path.join(target, "debug", ".fingerprint")
        if os.path.isdir(fp):
            for d in os.listdir(fp):
                if d.startswith(("zeep-", "zeep_")) or d == "zeep":
                    shutil.rmtree(os.path.join(fp, d), ignore_errors=True)
        env = dict(os.environ)
        env.update({
            "LD_LIBRARY_PATH": os.path.join(nightly_sysroot(), "lib"),
            "RUSTFLAGS": "-Zmir-opt-level=0 -Awarnings",
            "RUSTC_WORKSPACE_WRAPPER": DRIVER,
            "FACTGEN_OUT": out,
            "CARGO_TARGET_DIR": target,
            "CARGO_NET_OFFLINE": "true",
        })
        env.pop("RUSTC_WRAPPER", None)
        t0 = time.time()
        r = subprocess.run(["cargo", "+nightly", "check", "--offline", "--workspace"], cwd=root, env=env,
                           stdout=subprocess.PIPE, stderr=subprocess.STDOUT, text=True)
        if r.returncode != 0:
            raise InfraError("the tree does not compile under the analysis driver:\n" + r.stdout[-6000:])
        for need in ("zeep_lib.json", "zeep.json"):
            if not os.path.exists(os.path.join(out, need)):
                raise InfraError(f"driver produced no {need} (cargo skipped the wrapper?)\n" + r.stdout[-3000:])
        with open(marker, "w") as f:
            json.dump({"tree_hash": h, "root": root, "wall_s": round(time.time() - t0, 2)}, f)
        # keep the cache small: beyond the 6 most recent fact sets, drop those nobody has used for 20 minutes (a concurrent
        # check of another tree may still be loading its own set; every use touches the marker)
        base = os.path.join(CACHE, "facts")
        ds = sorted((_mtime(os.path.join(base, d, "OK")), d) for d in os.listdir(base))
        for mt, d in ds[:-6]:
            if time.time() - mt > 1200:
                shutil.rmtree(os.path.join(base, d), ignore_errors=True)
        return out
    finally:
        lock.close()


def controls():
    """Facts of the positive-control crate (/verif/engine/controls), cached by its content + driver hash."""
    cdir = os.path.join(VERIF, "engine", "controls")
    h = hashlib.sha256()
    for rel in ("src/lib.rs", "Cargo.toml"):
        with open(os.path.join(cdir, rel), "rb") as f:
            h.update(f.read())
    for dp, _, fns in os.walk(os.path.join(DRIVER_DIR, "src")):
        for fn in sorted(fns):
            with open(os.path.join(dp, fn), "rb") as f:
                h.update(f.read())
    key = h.hexdigest()[:24]
    out = os.path.join(CACHE, "controls-facts", key)
    fact = os.path.join(out, "controls.json")
    if not os.path.exists(fact):
        lock = _lock("controls")
        try:
            if not os.path.exists(fact):
                if not os.path.exists(DRIVER):
                    build_driver()
                shutil.rmtree(os.path.join(CACHE, "controls-facts"), ignore_errors=True)
                os.makedirs(out)
                target = os.path.join(CACHE, "target-controls")
                shutil.rmtree(target, ignore_errors=True)
                env = dict(os.environ)
                env.update({
                    "LD_LIBRARY_PATH": os.path.join(nightly_sysroot(), "lib"),
                    "RUSTFLAGS": "-Zmir-opt-level=0 -Awarnings",
                    "RUSTC_WORKSPACE_WRAPPER": DRIVER,
                    "FACTGEN_OUT": out,
                    "CARGO_TARGET_DIR": target,
                    "CARGO_NET_OFFLINE": "true",
                })
                env.pop("RUSTC_WRAPPER", None)
                r = subprocess.run(["cargo", "+nightly", "check", "--offline"], cwd=cdir, env=env,
                                   stdout=subprocess.PIPE, stderr=subprocess.STDOUT, text=True)
                if r.returncode != 0 or not os.path.exists(fact):
                    raise InfraError("positive-control crate does not build under the driver:\n" + r.stdout[-3000:])
        finally:
            lock.close()
    return Crate(fact)


CANONICAL = os.path.join(os.path.dirname(os.path.dirname(os.path.abspath(__file__))), "canonical_paths.json")


def _moved_items(d):
    """{current path: canonical path} for the types and free functions of the library that live in another module than on the
    pinned tree (same name, unique in the crate): rules name items by their canonical path, so a module move is undone in the facts"""
    try:
        canon = json.load(open(CANONICAL))
    except (OSError, ValueError):
        return {}
    cur = {"types": {}, "fns": {}}
    mods = {m["path"] for m in d["items"].get("modules", [])}
    for k in ("structs", "enums", "traits"):
        for it in d["items"].get(k, []):
            p_ = it["path"]
            if p_.startswith("<") or "{" in p_ or "yaserde_tests" in p_ or "::tests::" in p_ or "test_utils" in p_:
                continue
            cur["types"].setdefault(p_.rsplit("::", 1)[-1], set()).add(p_)
    for f_ in d["items"].get("fns", []):
        p_ = f_["path"]
        if p_.startswith("<") or "{" in p_ or "yaserde_tests" in p_ or "::tests::" in p_ or "test_utils" in p_ or "::" not in p_:
            continue
        if p_.rsplit("::", 1)[0] in mods:
            cur["fns"].setdefault(p_.rsplit("::", 1)[-1], set()).add(p_)
    out = {}
    for kind in ("types", "fns"):
        for last, want in canon.get(kind, {}).items():
            have = cur[kind].get(last, set())
            if len(have) == 1:
                p_ = next(iter(have))
                if p_ != want:
                    out[p_] = want
    return out


def _shape_of(it, kind):
    import re

    def norm(t):
        return re.sub(r"'\w+ ?", "", t or "").replace(" ", "")
    if kind == "struct":
        return {"kind": "struct", "fields": [[f["name"], norm(f["ty"])] for f in it["variants"][0]["fields"]]}
    return {"kind": "enum", "variants": [[v["name"], [norm(f["ty"]) for f in v["fields"]]] for v in it["variants"]]}


def _renamed_types(d):
    """{current path: canonical path} for structs / enums of the library that were renamed: the type of the pinned tree is gone and
    exactly one new type has its shape (field types in order for a struct, payload types per variant for an enum)."""
    try:
        shapes = json.load(open(CANONICAL)).get("shapes", {})
    except (OSError, ValueError):
        return {}
    cur = {}
    for kind, key in (("struct", "structs"), ("enum", "enums")):
        for it in d["items"].get(key, []):
            p_ = it["path"]
            if "yaserde_tests" in p_ or "::tests::" in p_ or "helpers_content" in p_ or "test_utils" in p_ or "{" in p_:
                continue
            cur[p_] = _shape_of(it, kind)
    out = {}
    for want, sh in shapes.items():
        if want in cur:
            continue
        if sh["kind"] == "struct":
            tys = [t for _n, t in sh["fields"]]
            cands = [p_ for p_, c in cur.items() if p_ not in shapes and c["kind"] == "struct" and sorted(t for _n, t in c["fields"]) == sorted(tys)]
        else:
            tys = sorted(tuple(t) for _n, t in sh["variants"])
            cands = [p_ for p_, c in cur.items() if p_ not in shapes and c["kind"] == "enum" and sorted(tuple(t) for _n, t in c["variants"]) == tys]
        same_mod = [p_ for p_ in cands if p_.rsplit("::", 1)[0] == want.rsplit("::", 1)[0]]
        cands = same_mod or cands
        if len(cands) == 1:
            out[cands[0]] = want
    return out


def _renamed_members(d):
    """({field: canonical field}, {(enum path, variant): canonical variant}) for renamed struct fields / enum variants of types that
    still carry their pinned name: matched by type (and position among equals); a new name that also names a member of another type
    is not touched."""
    try:
        shapes = json.load(open(CANONICAL)).get("shapes", {})
    except (OSError, ValueError):
        return {}, {}
    all_fields, all_variants = {}, {}
    cur = {}
    for kind, key in (("struct", "structs"), ("enum", "enums")):
        for it in d["items"].get(key, []):
            sh = _shape_of(it, kind)
            cur[it["path"]] = sh
            for n_, _t in (sh.get("fields") or []):
                all_fields.setdefault(n_, set()).add(it["path"])
            for n_, _t in (sh.get("variants") or []):
                all_variants.setdefault(n_, set()).add(it["path"])

    def align(want_members, have_members):
        """[(have name, want name)] for members that were renamed"""
        wn = [n for n, _t in want_members]
        hn = [n for n, _t in have_members]
        missing = [(i, n, t) for i, (n, t) in enumerate(want_members) if n not in hn]
        extra = [(i, n, t) for i, (n, t) in enumerate(have_members) if n not in wn]
        pairs = []
        for (i, n, t) in missing:
            c = [(j, m) for (j, m, u) in extra if u == t and m not in [x for x, _y in pairs]]
            if len(c) > 1:
                c = [(j, m) for (j, m) in c if j == i] or c
            if len(c) == 1:
                pairs.append((c[0][1], n))
        return pairs
    fields, variants = {}, {}
    for p_, sh in shapes.items():
        if p_ not in cur or cur[p_]["kind"] != sh["kind"]:
            continue
        if sh["kind"] == "struct":
            for have, want in align(sh["fields"], cur[p_]["fields"]):
                if all_fields.get(have) == {p_} and want not in [n for n, _t in cur[p_]["fields"]]:
                    fields[have] = want
        else:
            for have, want in align([(n, tuple(t)) for n, t in sh["variants"]], [(n, tuple(t)) for n, t in cur[p_]["variants"]]):
                if all_variants.get(have) == {p_}:
                    variants[(p_, have)] = want
    return fields, variants


def _rewrite_members(text, fields, variants):
    import re
    for have, want in fields.items():
        h, w = re.escape(json.dumps(have)), json.dumps(want)
        text = re.sub(r'("(?:f|name)":\s*)' + h, lambda m_: m_.group(1) + w, text)
        # names listed in aggregates / upvars / struct patterns: ["a", "b"]
        text = re.sub(r'("(?:fields|upvars)":\s*\[[^\]]*?)' + h, lambda m_: m_.group(1) + w, text)
    for (enum, have), want in variants.items():
        text = re.sub(r"(?<![A-Za-z0-9_])" + re.escape(enum + "::" + have) + r"(?![A-Za-z0-9_])", enum + "::" + want, text)
        h, w = re.escape(json.dumps(have)), json.dumps(want)
        text = re.sub(r'("(?:variant|downcast|v|name)":\s*)' + h, lambda m_: m_.group(1) + w, text)
    return text


def _renamed_fns(d):
    """{current path: canonical path} for public functions of the library that were renamed: the function named on the pinned tree is
    gone, and exactly one function of the analysed tree has its signature (and, where several functions share a signature, its
    distinguishing trait: a crate it calls, a field it reads, a variant it mentions)."""
    import re
    try:
        canon = json.load(open(CANONICAL)).get("fns_by_signature", [])
    except (OSError, ValueError):
        return {}

    def norm(t):
        return re.sub(r"'\w+ ?", "", t or "").replace(" ", "")
    fns = [f for f in d["items"].get("fns", []) if "yaserde_tests" not in f["path"] and "tests::" not in f["path"] and "helpers_content" not in f["path"]
           and "{" not in f["path"] and "test_utils" not in f["path"]]
    have = {f["path"] for f in fns}
    canon_paths = {r["path"] for r in canon}
    bodies = {b["path"]: b for b in d.get("bodies", [])}
    out = {}
    for r in canon:
        if r["path"] in have:
            continue
        cands = [f for f in fns if [norm(x) for x in f["inputs"]] == r["inputs"] and norm(f["output"]) == r["output"] and f["path"] not in canon_paths]
        # methods stay methods of the same type, free functions stay free functions of some module
        owner = r["path"].rsplit("::", 1)[0]
        is_method = owner.rsplit("::", 1)[-1][:1].isupper()
        cands = [f for f in cands if (f["path"].rsplit("::", 1)[0] == owner) == is_method or not is_method]
        if is_method:
            cands = [f for f in cands if f["path"].rsplit("::", 1)[0] == owner]

        def has(f, key, needle):
            bs = [b_ for p_, b_ in bodies.items() if p_ == f["path"] or p_.startswith(f["path"] + "::{closure")]
            if not bs:
                return False
            txt = " ".join(json.dumps(b_.get("mir") if key != "mentions" else b_.get("hir")) for b_ in bs)
            if key == "calls":
                return needle in txt
            if key == "reads":
                return ('"f": "%s"' % needle) in txt
            return needle in txt
        for key in ("calls", "reads", "mentions"):
            if key in r:
                cands = [f for f in cands if has(f, key, r[key])]
        if "not_calls" in r:
            cands = [f for f in cands if not has(f, "calls", r["not_calls"])]
        if len(cands) == 1:
            out[cands[0]["path"]] = r["path"]
    return out


def _rename_method_calls(node, renamed_last):
    """method-call nodes of the typed HIR carry the method's name next to its path: align it with the (rewritten) path"""
    if isinstance(node, dict):
        if node.get("k") == "MethodCall":
            for key in ("inst_path", "path"):
                p_ = node.get(key)
                if p_ in renamed_last:
                    node["name"] = renamed_last[p_]
                    break
        for v in node.values():
            if isinstance(v, (dict, list)):
                _rename_method_calls(v, renamed_last)
    elif isinstance(node, list):
        for v in node:
            _rename_method_calls(v, renamed_last)


def _normalise_impl_paths(text):
    """rustc names a method of an impl block that sits in another module than its type `module::<impl Type>::method` (inherent) or
    `module::<impl Trait for Type>::method`. Where the block sits is incidental: both are rewritten to the form used when it sits next
    to the type, `Type::method` / `<Type as Trait>::method`."""
    out = []
    i = 0
    marker = "::<impl "
    while True:
        j = text.find(marker, i)
        if j < 0:
            out.append(text[i:])
            break
        # the module prefix: identifier characters and `::` before the marker
        k = j
        while k > i and (text[k - 1].isalnum() or text[k - 1] in "_:"):
            k -= 1
        # the matching `>` of `<impl ..`
        depth, m = 0, j + 2
        while m < len(text):
            c = text[m]
            if c == "<":
                depth += 1
            elif c == ">":
                depth -= 1
                if depth == 0:
                    break
            elif c == '"':
                m = -1
                break
            m += 1
        if m < 0 or m >= len(text):
            out.append(text[i:j + len(marker)])
            i = j + len(marker)
            continue
        inner = text[j + len(marker):m]
        if text[k:j].split("::", 1)[0] not in ("model", "reader", "utils", "error", "zeep_lib"):
            # an impl of another crate (`core::str::<impl str>::len`): left as rustc prints it
            out.append(text[i:m + 1])
            i = m + 1
            continue
        if " for " in inner:
            tr, ty = inner.split(" for ", 1)
            repl = "<" + ty + " as " + tr + ">"
        else:
            repl = inner
        out.append(text[i:k])
        out.append(repl)
        i = m + 1
    return "".join(out)


def _rewrite_paths(text, mapping, prefix=""):
    import re
    for old_ in sorted(mapping, key=len, reverse=True):
        pat = re.compile(r"(?<![A-Za-z0-9_])" + (re.escape(prefix) if prefix else r"(?<!::)") + re.escape(old_) + r"(?![A-Za-z0-9_])")
        text = pat.sub(lambda m_: prefix + mapping[old_], text)
    return text


def _erase(ty):
    t = re.sub(r"'\w+\s*", "", ty or "")
    return re.sub(r"\s+", "", t).replace("<>", "")


def _base_ty(ty):
    t = _erase(ty)
    while t.startswith("&"):
        t = t[4:] if t.startswith("&mut") else t[1:]
    return re.sub(r"<.*$", "", t)


def _first_generic(ty):
    """`A` of `X<A, B>` (top-level split)"""
    t = ty or ""
    i = t.find("<")
    if i < 0:
        return None
    depth, cur = 0, ""
    for ch in t[i + 1:]:
        if ch in "<([":
            depth += 1
        elif ch in ">)]":
            if depth == 0:
                break
            depth -= 1
        elif ch == "," and depth == 0:
            break
        cur += ch
    return cur.strip() or None


_CONVERSION_IMPL = re.compile(r"^<(.+) as (?:std|core)::(?:convert::From|convert::TryFrom|str::FromStr|str::traits::FromStr)(?:<(.*)>)?>::(from|try_from|from_str)$")
_DISPATCHERS = (("convert::Into::into", "from"), ("convert::TryInto::try_into", "try_from"), ("str>::parse", "from_str"))


def _resolve_trait_methods(bodies):
    """A method of a trait of the crate that is called on a value of a known type is the method of that type's impl: `node.xml_name()` on
    an `Rc<RustNode>` (through the forwarding impl for `Rc<T>`) is `<RustNode as HasXmlName>::xml_name`. A *provided* method of the trait
    (`fn referenced_xml_name(&self) { self.xml_name().ok_or(..) }`) called on a known type is a copy of its body in which the trait's
    other methods, called on `self`, are that type's. The typed syntax tree is rewritten accordingly (the MIR already carries resolved
    instances), so that a function moved into a trait reads like the function it was."""
    import copy
    import re as _re
    impl_re = _re.compile(r"^<(.+) as ([\w:]+)>::(\w+)$")
    impls = {}        # (trait, method) -> {self type: path}
    for b in bodies:
        m = impl_re.match(b["path"])
        if m and "{closure" not in b["path"] and not m.group(2).startswith(("std::", "core::", "alloc::", "yaserde")):
            impls.setdefault((m.group(2), m.group(3)), {})[m.group(1)] = b["path"]
    traits = {t for (t, _m) in impls}
    if not traits:
        return
    by_path = {b["path"]: b for b in bodies}
    provided = {p: b for p, b in by_path.items() if any(p.startswith(t + "::") and p.count("::") == t.count("::") + 1 for t in traits) and b.get("hir") is not None}
    POINTERS = ("std::rc::Rc<", "std::boxed::Box<", "std::sync::Arc<")

    def strip_ty(t):
        t = (t or "").strip()
        while t.startswith("&"):
            t = t[1:].strip()
            if t.startswith("mut "):
                t = t[4:].strip()
            if t.startswith("'"):
                t = t.split(" ", 1)[1].strip() if " " in t else t
        return t

    def concrete(trait, method, ty):
        """the impl method for a value of type `ty` (through forwarding impls for smart pointers), or None"""
        table = impls.get((trait, method), {})
        ty = strip_ty(ty)
        for _ in range(4):
            if ty in table:
                return table[ty], ty
            base = ty.split("<", 1)[0]
            generic = [k for k in table if k.split("<", 1)[0] == base and _re.fullmatch(r"[\w:]+<[A-Z]\w*>", k)]
            if ty.startswith(POINTERS) and ty.endswith(">") and generic:
                ty = strip_ty(ty[ty.index("<") + 1:-1])     # `impl<T: Tr> Tr for Rc<T> { fn m(&self) { (**self).m() } }`
                continue
            return None, ty
        return None, ty

    made = {}

    def specialise(trait, method, ty):
        """a copy of the provided method for Self = ty"""
        key = f"<{ty} as {trait}>::{method}"
        if key in made or key in by_path:
            return key
        src = provided.get(f"{trait}::{method}")
        if src is None:
            return None
        nb = copy.deepcopy(src)
        nb["path"] = key
        self_ids = set()
        ps = (nb.get("hir") or {}).get("params") or []
        if ps:
            def ids(p_):
                if isinstance(p_, dict):
                    if p_.get("k") == "Binding" and "id" in p_:
                        self_ids.add(p_["id"])
                    for v_ in p_.values():
                        ids(v_)
                elif isinstance(p_, list):
                    for v_ in p_:
                        ids(v_)
            ids(ps[0])
        made[key] = nb

        def fix(n):
            if isinstance(n, list):
                for x in n:
                    fix(x)
                return
            if not isinstance(n, dict):
                return
            for v in n.values():
                if isinstance(v, (dict, list)):
                    fix(v)
            if n.get("k") == "MethodCall" and (n.get("path") or "").startswith(trait + "::") and not n.get("inst_path"):
                r = n.get("recv")
                while isinstance(r, dict) and r.get("k") in ("DropTemps", "Paren", "AddrOf") and "e" in r:
                    r = r["e"]
                while isinstance(r, dict) and r.get("k") == "Unary" and r.get("op") == "Deref":
                    r = r["e"]
                if isinstance(r, dict) and r.get("k") == "Path" and r.get("res") == "local" and r.get("id") in self_ids:
                    m2 = n["path"].rsplit("::", 1)[1]
                    c, t2 = concrete(trait, m2, ty)
                    if c:
                        n["inst_path"] = c
                    else:
                        sp_ = specialise(trait, m2, t2)
                        if sp_:
                            n["inst_path"] = sp_
        fix(nb.get("hir"))
        nb.pop("mir", None)
        return key

    def hir(n):
        if isinstance(n, list):
            for x in n:
                hir(x)
            return
        if not isinstance(n, dict):
            return
        for v in n.values():
            if isinstance(v, (dict, list)):
                hir(v)
        if n.get("k") == "MethodCall" and not n.get("inst_path"):
            pth = n.get("path") or ""
            tr = next((t for t in traits if pth.startswith(t + "::") and pth.count("::") == t.count("::") + 1), None)
            if tr is None:
                return
            r = n.get("recv")
            while isinstance(r, dict) and r.get("k") in ("DropTemps", "Paren") and "e" in r:
                r = r["e"]
            ty = (r.get("adj_ty") or r.get("ty")) if isinstance(r, dict) else None
            if not ty or "dyn " in ty or _re.fullmatch(r"&?(mut )?[A-Z]\w{0,2}", strip_ty(ty) or "X"):
                return       # a trait object or a type parameter: the receiver's type is not known here
            method = pth.rsplit("::", 1)[1]
            c, t2 = concrete(tr, method, ty)
            if c:
                n["inst_path"] = c
            elif f"{tr}::{method}" in provided and t2 and "dyn " not in t2:
                sp_ = specialise(tr, method, t2)
                if sp_:
                    n["inst_path"] = sp_
    for b in list(bodies):
        if b.get("hir") is not None:
            hir(b["hir"])
    bodies.extend(made.values())


def _resolve_conversions(bodies):
    """Implicit conversions spelled through the standard dispatchers — `x.into()`, `x.try_into()`, `s.parse()` — are calls of the
    crate's own `From` / `TryFrom` / `FromStr` impl of the target type (that is all the dispatchers do). They are rewritten to
    direct calls of that impl, in the typed syntax tree and in the MIR alike, so that a mapping moved behind a conversion trait
    reads like the function it is."""
    impls = {}
    for b in bodies:
        m = _CONVERSION_IMPL.match(b["path"])
        if m and "{closure" not in b["path"]:
            impls.setdefault((m.group(3), _base_ty(m.group(1))), []).append((b["path"], _erase(m.group(2) or "")))
    if not impls:
        return

    def pick(method, target, source):
        c = impls.get((method, _base_ty(target)), [])
        if len(c) > 1 and source is not None:
            c = [x for x in c if x[1] == _erase(source)] or [x for x in c if _base_ty(x[1]) == _base_ty(source)]
        return c[0][0] if len(c) == 1 else None

    def hir(n):
        if isinstance(n, list):
            for x in n:
                hir(x)
            return
        if not isinstance(n, dict):
            return
        for v in n.values():
            if isinstance(v, (dict, list)):
                hir(v)
        if n.get("k") == "MethodCall" and not n.get("args"):
            for suffix, method in _DISPATCHERS:
                if (n.get("path") or "").endswith(suffix):
                    target = n.get("ty") if method == "from" else _first_generic(n.get("ty"))
                    r = n["recv"]
                    while isinstance(r, dict) and r.get("k") in ("DropTemps", "Paren") and "e" in r:
                        r = r["e"]
                    impl = pick(method, target or "", (r.get("adj_ty") or r.get("ty")) if isinstance(r, dict) else None)
                    if impl:
                        recv = n["recv"]
                        keep = {k: n[k] for k in ("hid", "ty", "adj_ty", "sp") if k in n}
                        n.clear()
                        n.update(keep)
                        n.update({"k": "Call", "f": {"k": "Path", "path": impl, "res": "def", "dk": "AssocFn", "sp": keep.get("sp")},
                                  "args": [recv], "converted": suffix.rsplit("::", 1)[-1].replace("str>", "str")})
                    break

    for b in bodies:
        if b.get("hir"):
            hir(b["hir"])
        for blk in ((b.get("mir") or {}).get("blocks") or []):
            t = blk.get("term") or {}
            f = t.get("func") or {}
            if t.get("k") != "call" or f.get("k") != "const" or not f.get("fn_path"):
                continue
            for suffix, method in _DISPATCHERS:
                if f["fn_path"].endswith(suffix):
                    ga = f.get("gargs") or []
                    target, source = (ga[1], ga[0]) if method != "from_str" and len(ga) >= 2 else ((ga[0], None) if ga else (None, None))
                    impl = pick(method, target or "", source)
                    if impl:
                        f["dispatcher"] = f["fn_path"]
                        f["fn_path"] = f["inst_path"] = impl
                        f["gargs"] = []
                    break


class Crate:
    def __init__(self, path, moved=None, members=None):
        with open(path) as f:
            raw = f.read()
        if "::<impl " in raw:
            raw = _normalise_impl_paths(raw)
        d = json.loads(raw)
        self.moved = moved if moved is not None else (_moved_items(d) if d.get("crate") == "zeep_lib" else {})
        if self.moved:
            raw = _rewrite_paths(raw, self.moved, prefix="" if d.get("crate") == "zeep_lib" else "zeep_lib::")
            d = json.loads(raw)
        self.members = ({}, {})
        if moved is None and d.get("crate") == "zeep_lib":
            for _ in range(3):     # renamed types (a type may be recognised only once the types of its fields are)
                rt = _renamed_types(d)
                if not rt:
                    break
                raw = _rewrite_paths(raw, rt)
                d = json.loads(raw)
                self.moved = dict(self.moved, **rt)
            fm, vm = _renamed_members(d)
            if fm or vm:
                raw = _rewrite_members(raw, fm, vm)
                d = json.loads(raw)
                self.members = (fm, vm)
        elif members is not None:
            self.members = members
            if members[0] or members[1]:
                vm2 = {("zeep_lib::" + e_, h_): w_ for (e_, h_), w_ in members[1].items()}
                raw = _rewrite_members(raw, members[0], vm2)
                d = json.loads(raw)
        if moved is None and d.get("crate") == "zeep_lib":
            for _ in range(3):     # (a function recognised by what it calls may need its callee recognised first)
                ren = _renamed_fns(d)
                if not ren:
                    break
                raw = _rewrite_paths(raw, ren)
                d = json.loads(raw)
                self.moved = dict(self.moved, **ren)
        if self.moved:
            # after the rewrite the canonical path is in place; method-call nodes still carry the old method name
            lasts = {new_: new_.rsplit("::", 1)[-1] for old_, new_ in self.moved.items() if old_.rsplit("::", 1)[-1] != new_.rsplit("::", 1)[-1]}
            if lasts:
                full = dict(lasts)
                full.update({"zeep_lib::" + k_: v_ for k_, v_ in lasts.items()})
                _rename_method_calls(d.get("bodies", []), full)
        _resolve_conversions(d.get("bodies", []))
        _resolve_trait_methods(d.get("bodies", []))
        self.name = d["crate"]
        self.items = d["items"]
        self.defs = d["defs"]
        self.bodies = d["bodies"]
        self.by_path = {}
        for b in self.bodies:
            self.by_path[b["path"]] = b

    def body(self, path):
        b = self.by_path.get(path)
        if b is not None or not path or "::" not in path or path.startswith("<") or "{closure" in path:
            return b
        # a function that was moved to another module / impl block keeps its name: accept the unique function of that name
        last = path.rsplit("::", 1)[-1]
        if not hasattr(self, "_by_last"):
            self._roots = {p_.split("::", 1)[0] for p_ in self.by_path if "::" in p_ and not p_.startswith("<")}
            self._by_last = {}
            for p_, b_ in self.by_path.items():
                if "{closure" in p_ or "{constant" in p_ or p_.startswith("<") or "yaserde_tests" in p_:
                    continue
                self._by_last.setdefault(p_.rsplit("::", 1)[-1], []).append(b_)
        if path.split("::", 1)[0] not in self._roots:
            return None   # not a path into this crate (std, dependencies)
        c = self._by_last.get(last, [])
        return c[0] if len(c) == 1 else None

    def bodies_matching(self, pred):
        return [b for b in self.bodies if pred(b)]


class Facts:
    def __init__(self, root=None):
        self.root = root or repo_root()
        self.hash = tree_hash(self.root)
        for attempt in (0, 1):
            self.dir = generate(self.root, force=bool(attempt))
            try:
                self.lib = Crate(os.path.join(self.dir, "zeep_lib.json"))
                self.bin = Crate(os.path.join(self.dir, "zeep.json"), moved=self.lib.moved, members=self.lib.members)
                break
            except (OSError, ValueError) as e:
                # the cached fact set vanished or is damaged (cache cleaned by a concurrent run): regenerate once
                if attempt:
                    raise InfraError(f"fact files unreadable: {e}")

    def src(self, rel):
        with open(os.path.join(self.root, rel)) as f:
            return f.read()


if __name__ == "__main__":
    if len(sys.argv) > 1 and sys.argv[1] == "build":
        build_driver()
    print(generate(force="--force" in sys.argv))
