"""Finite-domain evaluation of an identifier guard (`fn(&str) -> String`) over its typed HIR.

The guard is the last function a schema name passes before it is written in identifier position, so its post-condition
has to be: the result is non-empty, is not the lone underscore, starts with `_` or an XID_Start character and continues
with XID_Continue characters only (the lexical definition of a Rust identifier; keywords are the keyword table's
business). That is a statement about all strings, decided here without running anything:

  * the character domain is partitioned into classes on which every predicate the guard can ask has one answer: the
    frozen table WITNESSES (one concrete character per feasible combination of the std / unicode-ident classifiers,
    values recorded from rustc's own tables), refined for ASCII by every character literal, string literal and range
    pattern that occurs in the guard's HIR;
  * the interpreter accepts only operations that look at a string character by character, at its first/last character,
    at its emptiness, or compare it with a literal shorter than the bound; anything else is `Unsupported` and the rule
    reports the guard as undecided (fail closed). For that operation set a violating input of any length has a violating
    input of length <= BOUND over the class representatives (keep the first character and the offending one), so
    enumerating those strings decides the post-condition.

The evaluation walks the HIR of the function (and of local functions it calls); it never executes compiled code.
"""
import itertools

BOUND = 3

PROPS = ["ascii", "ascii_alphabetic", "ascii_digit", "ascii_upper", "ascii_lower", "ascii_punct", "alphabetic", "numeric",
         "upper", "lower", "ws", "ctl", "xs", "xc"]

# code point -> truth values of PROPS, as printed by a rustc 1.95 program using std and unicode-ident 1.0.17
WITNESSES = {
    0x0061: "11001010010011",  # a
    0x0041: "11010010100011",  # A
    0x0037: "10100001000001",  # 7
    0x005F: "10000100000001",  # _
    0x002D: "10000100000000",  # -
    0x0020: "10000000001000",  # space
    0x000A: "10000000001100",  # \n
    0x00E9: "00000010010011",  # é   lower-case letter
    0x00C9: "00000010100011",  # É   upper-case letter
    0x4E2D: "00000010000011",  # 中  letter without case
    0x2167: "00000011100011",  # Ⅷ  letter number: alphabetic and numeric
    0x2118: "00000000000011",  # ℘   XID_Start but not Alphabetic
    0x0345: "00000010010001",  # combining ypogegrammeni: Alphabetic, XID_Continue, not XID_Start
    0x0301: "00000000000001",  # combining acute: XID_Continue only
    0x0663: "00000001000001",  # ٣   decimal digit: numeric, XID_Continue
    0x24B6: "00000010100000",  # Ⓐ  Alphabetic (Other_Alphabetic, So) but not XID_Continue
    0x00B2: "00000001000000",  # ²   numeric (No), not XID_Continue
    0x00A0: "00000000001000",  # no-break space
    0x1F600: "00000000000000",  # 😀
}


def _ascii_props(cp):
    c = chr(cp)
    al = c.isascii() and c.isalpha()
    dg = c in "0123456789"
    up = al and c.isupper()
    lo = al and c.islower()
    pu = 33 <= cp <= 47 or 58 <= cp <= 64 or 91 <= cp <= 96 or 123 <= cp <= 126
    ws = c in " \t\n\r\x0c\x0b"  # char::is_whitespace on ASCII: White_Space = 9..13, 32
    ctl = cp < 32 or cp == 127
    d = {"ascii": True, "ascii_alphabetic": al, "ascii_digit": dg, "ascii_upper": up, "ascii_lower": lo, "ascii_punct": pu,
         "alphabetic": al, "numeric": dg, "upper": up, "lower": lo, "ws": ws, "ctl": ctl, "xs": al, "xc": al or dg or c == "_"}
    return "".join("1" if d[p] else "0" for p in PROPS)


for _cp, _bits in WITNESSES.items():
    if _cp < 128:
        assert _ascii_props(_cp) == _bits, hex(_cp)


class Unsupported(Exception):
    def __init__(self, what, sp=None):
        super().__init__(what)
        self.what = what
        self.sp = sp


class Ch(str):
    """a char value"""
    __slots__ = ()


class Pos(int):
    """a position inside a text, counted in characters (what `find` answered)"""


class Hint:
    """a length used as a capacity hint: it may be added to and handed to `with_capacity` / `reserve`, nothing else (any other use
    is refused, so the result cannot depend on it)"""
    __slots__ = ("of",)

    def __init__(self):
        self.of = None


class _Return(Exception):
    def __init__(self, v):
        self.v = v


CHAR_PREDICATES = {
    "is_ascii": "ascii", "is_ascii_alphabetic": "ascii_alphabetic", "is_ascii_digit": "ascii_digit",
    "is_ascii_uppercase": "ascii_upper", "is_ascii_lowercase": "ascii_lower", "is_ascii_punctuation": "ascii_punct",
    "is_alphabetic": "alphabetic", "is_numeric": "numeric", "is_uppercase": "upper", "is_lowercase": "lower",
    "is_whitespace": "ws", "is_control": "ctl", "is_xid_start": "xs", "is_xid_continue": "xc",
}


class Domain:
    def __init__(self, literal_chars=(), ranges=()):
        """literal_chars / ranges: what the guard's code can compare a character with. ASCII is partitioned by those and
        by PROPS; beyond ASCII only the frozen witnesses are known, so a non-ASCII literal is refused."""
        for c in literal_chars:
            if ord(c) >= 128 and ord(c) not in WITNESSES:
                raise Unsupported(f"comparison with the non-ASCII character {c!r}: its classifier values are not in the frozen table")
        for lo, hi in ranges:
            if ord(hi) >= 128:
                raise Unsupported(f"range pattern up to the non-ASCII character {hi!r}")
        self.props = {}
        cells = {}
        pref = [cp for cp in WITNESSES if cp < 128]
        for cp in pref + [c for c in range(128) if c not in pref]:
            c = chr(cp)
            sig = (_ascii_props(cp), tuple(c == l for l in literal_chars), tuple(lo <= c <= hi for lo, hi in ranges))
            if sig not in cells:
                cells[sig] = cp
                self.props[c] = _ascii_props(cp)
        for cp, bits in WITNESSES.items():
            if cp >= 128:
                self.props[chr(cp)] = bits
        order = {chr(cp): i for i, cp in enumerate(WITNESSES)}
        self.alphabet = sorted(self.props, key=lambda c: (order.get(c, 99), c))

    def has(self, c, prop):
        bits = self.props.get(c)
        if bits is None:
            if ord(c) < 128:
                bits = _ascii_props(ord(c))
            else:
                raise Unsupported(f"character {c!r} produced by the guard is outside the frozen table")
        return bits[PROPS.index(prop)] == "1"

    def strings(self, bound=BOUND):
        for n in range(bound + 1):
            for t in itertools.product(self.alphabet, repeat=n):
                yield "".join(t)

    def legal(self, s):
        """None when `s` is a lexically legal identifier, else the reason."""
        if s == "":
            return "the result is empty"
        if s == "_":
            return "the result is the lone underscore, which is a pattern and not an identifier"
        if not (s[0] == "_" or self.has(s[0], "xs")):
            return f"the result starts with {s[0]!r} (U+{ord(s[0]):04X}), which is not `_` or XID_Start"
        for c in s[1:]:
            if not self.has(c, "xc"):
                return f"the result contains {c!r} (U+{ord(c):04X}), which is not XID_Continue"
        return None


def collect_literals(node, chars, ranges, strs):
    if isinstance(node, dict):
        if node.get("k") == "Lit" or (node.get("k") == "Expr" and "lit" in node):
            if node.get("lit") == "char":
                chars.add(node["v"])
            elif node.get("lit") == "str":
                strs.add(node["v"])
                chars.update(node["v"])
        if node.get("k") == "Range":
            lo, hi = node.get("lo"), node.get("hi")
            if not (lo and hi and lo.get("lit") == "char" and hi.get("lit") == "char" and node.get("inclusive")):
                raise Unsupported("range pattern that is not an inclusive range of two character literals", node.get("sp"))
            ranges.add((lo["v"], hi["v"]))
        for v in node.values():
            collect_literals(v, chars, ranges, strs)
    elif isinstance(node, (list, tuple)):
        for v in node:
            collect_literals(v, chars, ranges, strs)


class Interp:
    def __init__(self, dom, local_fn=None, max_lit=BOUND - 1):
        self.dom = dom
        self.local_fn = local_fn or (lambda path: None)
        self.max_lit = max_lit
        self.depth = 0

    # ---- entry
    def call_fn(self, nb, args):
        env = {}
        if len(nb["params"]) != len(args):
            raise Unsupported("arity")
        for p, a in zip(nb["params"], args):
            self.bind(p, a, env)
        try:
            return self.ev(nb["value"], env)
        except _Return as r:
            return r.v

    def bind(self, pat, v, env):
        k = pat.get("k")
        if k == "Binding":
            env[pat["id"]] = v
            if pat.get("sub"):
                self.bind(pat["sub"], v, env)
            return True
        if k == "Wild":
            return True
        if k in ("Ref", "Deref", "Box"):
            return self.bind(pat["pat"], v, env)
        if k == "Tuple":
            if not isinstance(v, tuple) or len(v) != len(pat["pats"]):
                raise Unsupported("tuple pattern", pat.get("sp"))
            return all(self.bind(p, x, env) for p, x in zip(pat["pats"], v))
        if k == "Expr" and "lit" in pat:
            return v == self.lit(pat)
        if k == "Range":
            return isinstance(v, Ch) and pat["lo"]["v"] <= v <= pat["hi"]["v"]
        if k == "Or":
            return any(self.bind(p, v, env) for p in pat["pats"])
        if k == "TupleStruct":
            name = (pat.get("path") or {}).get("path", "").rsplit("::", 1)[-1]
            if name == "Some":
                return isinstance(v, tuple) and len(v) == 2 and v[0] == "Some" and self.bind(pat["pats"][0], v[1], env)
            raise Unsupported(f"pattern {name}", pat.get("sp"))
        if k == "Expr" and (pat.get("path") or {}).get("path", "").endswith("None"):
            return v == ("None",)
        raise Unsupported(f"pattern {k}", pat.get("sp"))

    def lit(self, n):
        t = n.get("lit")
        if t == "char":
            return Ch(n["v"])
        if t == "str":
            return n["v"]
        if t == "int":
            return -n["v"] if n.get("neg") else n["v"]
        if t == "bool":
            return bool(n["v"])
        raise Unsupported(f"literal of kind {t}", n.get("sp"))

    # ---- expressions
    def ev(self, n, env):
        k = n["k"]
        m = getattr(self, "e_" + k, None)
        if m is None:
            raise Unsupported(f"expression kind {k}", n.get("sp"))
        return m(n, env)

    def e_Lit(self, n, env):
        return self.lit(n)

    def e_Path(self, n, env):
        if n.get("res") == "local":
            if n["id"] not in env:
                raise Unsupported(f"unbound local {n.get('name')}", n.get("sp"))
            return env[n["id"]]
        p = n.get("path", "")
        if p.endswith("::None"):
            return ("None",)
        if n.get("dk") in ("Fn", "AssocFn"):
            return ("fn", p)
        if n.get("dk") == "Ctor" and p.endswith("Some"):
            return ("fn", "Some")
        raise Unsupported(f"path {p}", n.get("sp"))

    def e_AddrOf(self, n, env):
        return self.ev(n["e"], env)

    def e_Cast(self, n, env):
        raise Unsupported("cast", n.get("sp"))

    def e_Block(self, n, env):
        b = n["b"]
        for s in b["stmts"]:
            self.stmt(s, env)
        return self.ev(b["tail"], env) if b.get("tail") else ()

    def stmt(self, s, env):
        k = s["k"]
        if k == "Let":
            v = self.ev(s["init"], env) if s.get("init") else None
            if s.get("els"):
                raise Unsupported("let-else", s.get("sp"))
            if not self.bind(s["pat"], v, env):
                raise Unsupported("refutable let", s.get("sp"))
        elif k in ("Expr", "Semi"):
            self.ev(s["e"], env)
        elif k == "Item":
            pass
        else:
            raise Unsupported(f"statement {k}", s.get("sp"))

    def e_If(self, n, env):
        c = n["cond"]
        if c["k"] == "LetExpr":
            v = self.ev(c["init"], env)
            ok = self.bind(c["pat"], v, env)
        else:
            ok = self.truth(self.ev(c, env), c)
        if ok:
            return self.ev(n["then"], env)
        return self.ev(n["else"], env) if n.get("else") else ()

    def e_Match(self, n, env):
        v = self.ev(n["scrut"], env)
        for a in n["arms"]:
            if self.bind(a["pat"], v, env):
                if a.get("guard") and not self.truth(self.ev(a["guard"], env), a["guard"]):
                    continue
                return self.ev(a["body"], env)
        raise Unsupported("no arm matched", n.get("sp"))

    def truth(self, v, n):
        if not isinstance(v, bool):
            raise Unsupported("condition is not a boolean", n.get("sp"))
        return v

    def e_Unary(self, n, env):
        v = self.ev(n["e"], env)
        if n["op"] == "Not":
            return not self.truth(v, n)
        if n["op"] == "Deref":
            return v
        raise Unsupported(f"unary {n['op']}", n.get("sp"))

    def e_Binary(self, n, env):
        op = n["op"]
        if op == "Or":
            return self.truth(self.ev(n["a"], env), n) or self.truth(self.ev(n["b"], env), n)
        if op == "And":
            return self.truth(self.ev(n["a"], env), n) and self.truth(self.ev(n["b"], env), n)
        a, b = self.ev(n["a"], env), self.ev(n["b"], env)
        if isinstance(a, Hint) or isinstance(b, Hint):
            if op in ("Add", "Mul") and all(isinstance(x, (Hint, int)) and not isinstance(x, bool) for x in (a, b)):
                return Hint()
            raise Unsupported("the length of the name is inspected", n.get("sp"))
        if op in ("Eq", "Ne"):
            self._cmp_ok(a, b, n)
            return (a == b) if op == "Eq" else (a != b)
        if op in ("Lt", "Le", "Gt", "Ge") and isinstance(a, Ch) and isinstance(b, Ch):
            raise Unsupported("ordering comparison of characters (use a range pattern)", n.get("sp"))
        raise Unsupported(f"binary {op}", n.get("sp"))

    def _cmp_ok(self, a, b, n):
        if isinstance(a, Ch) != isinstance(b, Ch):
            raise Unsupported("comparison of a character with a string", n.get("sp"))
        if isinstance(a, str) and not isinstance(a, Ch):
            lit_side = [x for x in (n["a"], n["b"]) if self._is_lit(x)]
            if not lit_side:
                raise Unsupported("comparison of two computed strings", n.get("sp"))
            if any(len(x["v"]) > self.max_lit for x in lit_side):
                raise Unsupported(f"comparison with a literal longer than {self.max_lit} characters is beyond the enumeration bound", n.get("sp"))
        elif not isinstance(a, (Ch, bool, tuple)):
            raise Unsupported("comparison of values that are not characters or strings", n.get("sp"))

    @staticmethod
    def _is_lit(x):
        while x.get("k") in ("AddrOf",):
            x = x["e"]
        return x.get("k") == "Lit" and x.get("lit") == "str"

    def e_Ret(self, n, env):
        raise _Return(self.ev(n["e"], env) if n.get("e") else ())

    def e_Assign(self, n, env):
        tgt = n["a"]
        while tgt.get("k") == "Unary" and tgt.get("op") == "Deref":
            tgt = tgt["e"]
        if tgt.get("k") != "Path" or tgt.get("res") != "local":
            raise Unsupported("assignment to something that is not a local", n.get("sp"))
        env[tgt["id"]] = self.ev(n["b"], env)
        return ()

    def e_AssignOp(self, n, env):
        tgt = n["a"]
        if tgt.get("k") == "Path" and tgt.get("res") == "local" and n["op"] in ("AddAssign", "Add"):
            a = env[tgt["id"]]
            b = self.ev(n["b"], env)
            if isinstance(a, str) and not isinstance(a, Ch) and isinstance(b, str) and not isinstance(b, Ch):
                env[tgt["id"]] = a + b
                return ()
        raise Unsupported("compound assignment", n.get("sp"))

    def e_For(self, n, env):
        it = self.ev(n["iter"], env)
        if not isinstance(it, list):
            raise Unsupported("for loop over something that is not a character iterator", n.get("sp"))
        for x in it:
            if not self.bind(n["pat"], x, env):
                raise Unsupported("refutable for pattern", n.get("sp"))
            self.ev(n["body"], env)
        return ()

    def e_Closure(self, n, env):
        return ("closure", n["body"], env)

    def e_Tup(self, n, env):
        return tuple(self.ev(x, env) for x in n.get("es", n.get("elems", [])))

    def e_Format(self, n, env):
        fa = n["fa"]
        out = ""
        for p in fa["parts"]:
            if p[0] == "lit":
                out += p[1]
            else:
                h = fa["holes"][p[1]]
                if h["trait"] != "display" or h.get("spec"):
                    raise Unsupported("format hole that is not a plain Display", n.get("sp"))
                v = self.ev(h["arg"], env)
                if not isinstance(v, str):
                    raise Unsupported("format hole of a value that is not a string or character", n.get("sp"))
                out += str(v)
        return out

    def apply(self, f, args, n):
        if isinstance(f, tuple) and f and f[0] == "closure":
            _, body, cenv = f
            env = dict(cenv)  # closures in guards do not mutate captured state; a write would be lost -> refuse below
            if len(body["params"]) != len(args):
                raise Unsupported("closure arity", n.get("sp"))
            for p, a in zip(body["params"], args):
                if not self.bind(p, a, env):
                    raise Unsupported("refutable closure parameter", n.get("sp"))
            before = {k: v for k, v in env.items() if k in cenv}
            try:
                r = self.ev(body["value"], env)
            except _Return as rr:
                r = rr.v
            if any(env.get(k) != v for k, v in before.items()):
                raise Unsupported("closure that assigns to a captured variable", n.get("sp"))
            return r
        if isinstance(f, tuple) and f and f[0] == "fn":
            return self.call_path(f[1], args, n)
        raise Unsupported("call of a computed function value", n.get("sp"))

    def e_Call(self, n, env):
        f = n["f"]
        args = [self.ev(a, env) for a in n["args"]]
        if f.get("k") == "Path" and f.get("res") != "local":
            return self.call_path(f.get("path", ""), args, n)
        return self.apply(self.ev(f, env), args, n)

    def call_path(self, path, args, n):
        last = path.rsplit("::", 1)[-1]
        if last in CHAR_PREDICATES and len(args) == 1 and isinstance(args[0], Ch) and ("char" in path or "unicode_ident" in path):
            return self.dom.has(args[0], CHAR_PREDICATES[last])
        if last == "is_ascii_alphanumeric" and len(args) == 1 and isinstance(args[0], Ch):
            return self.dom.has(args[0], "ascii_alphabetic") or self.dom.has(args[0], "ascii_digit")
        if last == "is_alphanumeric" and len(args) == 1 and isinstance(args[0], Ch):
            return self.dom.has(args[0], "alphabetic") or self.dom.has(args[0], "numeric")
        if path in ("std::string::String::new",) and not args:
            return ""
        if path in ("std::string::String::with_capacity",) and len(args) == 1 and (isinstance(args[0], Hint) or (isinstance(args[0], int) and not isinstance(args[0], bool))):
            return ""     # an empty string whatever the capacity
        if last in ("from", "to_string", "to_owned", "into") and len(args) == 1 and isinstance(args[0], str):
            return str(args[0]) if not isinstance(args[0], Ch) or last != "from" else str(args[0])
        if last == "Some" and len(args) == 1:
            return ("Some", args[0])
        if last in ("Borrowed", "Owned") and "Cow" in path and len(args) == 1 and isinstance(args[0], str):
            return str(args[0])      # a text, borrowed or owned
        nb = self.local_fn(path)
        if nb is not None:
            self.depth += 1
            if self.depth > 8:
                raise Unsupported("recursion", n.get("sp"))
            try:
                return self.call_fn(nb, args)
            finally:
                self.depth -= 1
        raise Unsupported(f"call of {path}", n.get("sp"))

    def e_MethodCall(self, n, env):
        name = n["name"]
        path = n.get("path", "")
        recv_node = n["recv"]
        recv = self.ev(recv_node, env)
        args = [self.ev(a, env) for a in n["args"]]
        is_s = isinstance(recv, str) and not isinstance(recv, Ch)

        def mutate(v):
            t = recv_node
            while t.get("k") in ("AddrOf",) or (t.get("k") == "Unary" and t.get("op") == "Deref"):
                t = t["e"]
            if t.get("k") != "Path" or t.get("res") != "local":
                raise Unsupported(f"`{name}` on something that is not a local", n.get("sp"))
            env[t["id"]] = v
            return ()

        if isinstance(recv, Ch):
            if name in CHAR_PREDICATES and not args:
                return self.dom.has(recv, CHAR_PREDICATES[name])
            if name == "is_ascii_alphanumeric":
                return self.dom.has(recv, "ascii_alphabetic") or self.dom.has(recv, "ascii_digit")
            if name == "is_alphanumeric":
                return self.dom.has(recv, "alphabetic") or self.dom.has(recv, "numeric")
            if name in ("to_ascii_lowercase", "to_ascii_uppercase"):
                r = recv.lower() if name.endswith("lowercase") else recv.upper()
                return Ch(r) if ord(recv) < 128 else recv
            if name in ("clone", "to_owned", "borrow", "as_ref"):
                return recv
            if name == "to_string":
                return str(recv)
            if name in ("eq", "ne") and len(args) == 1 and isinstance(args[0], Ch):
                return (recv == args[0]) == (name == "eq")
            raise Unsupported(f"char::{name}", n.get("sp"))
        if is_s:
            if name == "chars" and not args:
                return [Ch(c) for c in recv]
            if name == "is_empty":
                return recv == ""
            if name == "len" and not args:
                h = Hint()
                h.of = recv          # (whose length it is: `s.split_at(s.len())` is (s, ""))
                return h
            if name == "find" and len(args) == 1 and isinstance(args[0], tuple) and args[0] and args[0][0] in ("closure", "fn"):
                # the position of the first character the predicate holds for (positions are counted in characters here, and only
                # handed back to `split_at` / slicing of the same text)
                for i_, c_ in enumerate(recv):
                    if self.truth(self.apply(args[0], [Ch(c_)], n), n):
                        return ("Some", Pos(i_))
                return ("None",)
            if name == "split_at" and len(args) == 1:
                if isinstance(args[0], Pos):
                    return (recv[:int(args[0])], recv[int(args[0]):])
                if isinstance(args[0], Hint) and getattr(args[0], "of", None) == recv:
                    return (recv, "")
                raise Unsupported("split_at at a position that is not one found in this text", n.get("sp"))
            if name in ("reserve", "reserve_exact") and len(args) == 1 and isinstance(args[0], (Hint, int)) and not isinstance(args[0], bool):
                return ()
            if name in ("to_string", "to_owned", "clone", "as_str", "as_ref", "borrow", "into", "deref", "as_mut_str"):
                return recv
            if name in ("starts_with", "ends_with") and len(args) == 1:
                a = args[0]
                edge = (recv[:1] if name == "starts_with" else recv[-1:])
                if isinstance(a, Ch):
                    return edge == a
                if isinstance(a, tuple) and a[0] in ("closure", "fn"):
                    return bool(edge) and self.truth(self.apply(a, [Ch(edge)], n), n)
                if isinstance(a, str):
                    if len(a) > self.max_lit:
                        raise Unsupported("prefix literal beyond the enumeration bound", n.get("sp"))
                    return recv.startswith(a) if name == "starts_with" else recv.endswith(a)
                raise Unsupported(f"{name} pattern", n.get("sp"))
            if name == "insert" and len(args) == 2 and args[0] == 0 and isinstance(args[1], Ch):
                return mutate(str(args[1]) + recv)
            if name == "insert_str" and len(args) == 2 and args[0] == 0 and isinstance(args[1], str):
                return mutate(args[1] + recv)
            if name == "push" and len(args) == 1 and isinstance(args[0], Ch):
                return mutate(recv + str(args[0]))
            if name == "push_str" and len(args) == 1 and isinstance(args[0], str) and not isinstance(args[0], Ch):
                return mutate(recv + args[0])
            if name in ("eq", "ne") and len(args) == 1 and isinstance(args[0], str):
                self._cmp_ok(recv, args[0], {"a": recv_node, "b": n["args"][0], "sp": n.get("sp")})
                return (recv == args[0]) == (name == "eq")
            if name == "extend" and len(args) == 1 and isinstance(args[0], list) and all(isinstance(c, str) for c in args[0]):
                return mutate(recv + "".join(str(c) for c in args[0]))      # `text.extend(chars)`
            raise Unsupported(f"str::{name}", n.get("sp"))
        if isinstance(recv, list):  # a character iterator
            if name == "map" and len(args) == 1:
                out = [self.apply(args[0], [c], n) for c in recv]
                return out
            if name == "filter" and len(args) == 1:
                return [c for c in recv if self.truth(self.apply(args[0], [c], n), n)]
            if name in ("all", "any") and len(args) == 1:
                rs = [self.truth(self.apply(args[0], [c], n), n) for c in recv]
                return all(rs) if name == "all" else any(rs)
            if name == "next" and not args:
                # the iterator value is a list held by the interpreter: taking the first element advances it
                return ("Some", recv.pop(0)) if recv else ("None",)
            if name == "peek" and not args:
                return ("Some", recv[0]) if recv else ("None",)      # (a peekable iterator: the first element stays)
            if name in ("last",) and not args:
                return ("Some", recv[-1]) if recv else ("None",)
            if name == "count" and not args:
                raise Unsupported("length of the name inspected", n.get("sp"))
            if name in ("rev",):
                return list(reversed(recv))
            if name in ("into_iter", "iter", "by_ref", "peekable", "copied", "cloned"):
                return recv
            if name == "collect" and not args:
                if n.get("ty") != "std::string::String":
                    raise Unsupported(f"collect into {n.get('ty')}", n.get("sp"))
                if not all(isinstance(c, str) for c in recv):
                    raise Unsupported("collect of values that are not characters or strings", n.get("sp"))
                return "".join(str(c) for c in recv)
            raise Unsupported(f"iterator::{name}", n.get("sp"))
        if isinstance(recv, tuple) and recv and recv[0] in ("Some", "None"):
            # an optional character / text
            if name == "is_some" and not args:
                return recv[0] == "Some"
            if name == "is_none" and not args:
                return recv[0] == "None"
            if name == "is_some_and" and len(args) == 1:
                return recv[0] == "Some" and self.truth(self.apply(args[0], [recv[1]], n), n)
            if name == "is_none_or" and len(args) == 1:
                return recv[0] == "None" or self.truth(self.apply(args[0], [recv[1]], n), n)
            if name == "map" and len(args) == 1:
                return ("Some", self.apply(args[0], [recv[1]], n)) if recv[0] == "Some" else recv
            if name in ("copied", "cloned", "as_ref"):
                return recv
            if name == "unwrap_or" and len(args) == 1:
                return recv[1] if recv[0] == "Some" else args[0]
        raise Unsupported(f"method {name} on an unmodelled value", n.get("sp"))


def legal_ncname(dom, s):
    """None when `s` can be used as an XML namespace prefix (an NCName: it starts with a letter or `_` and goes on with letters,
    digits, `.`, `-`, `_`; the alphabetic classes of the frozen table stand for the letters), else the reason."""
    if s == "":
        return "the result is empty"
    if not (s[0] == "_" or dom.has(s[0], "alphabetic") and dom.has(s[0], "xs")):
        return f"the result starts with {s[0]!r} (U+{ord(s[0]):04X}), which is not a letter or `_`"
    for c in s[1:]:
        if not (c in "._-" or dom.has(c, "xc")):
            return f"the result contains {c!r} (U+{ord(c):04X}), which an XML name cannot hold"
    if s[:3].lower() == "xml":
        return None      # (reserved, but accepted by parsers; not judged)
    return None


def reserved_xml_prefix(dom, s):
    """None unless `s` starts with `xml` in any case: such prefixes are reserved (Namespaces in XML 1.0, section 3), `xml` itself is
    bound to http://www.w3.org/XML/1998/namespace and writers do not declare it"""
    if s[:3].lower() == "xml":
        return f"the result {s!r} starts with `xml`, which is reserved: it continues with the reserved letters"
    return None


def decide(nb, local_fn=None, bound=BOUND, legal=None, extra_chars=""):
    """Returns (n_inputs, {kind: (input, output, reason)}, n_classes): the shortest counterexample of each kind of illegality.
    `legal(domain, text)` judges a result (default: a Rust identifier)."""
    chars, ranges, strs = set(), set(), set()
    collect_literals(nb, chars, ranges, strs)
    chars |= set(extra_chars)
    seen = set()

    def lf(path):
        b = local_fn(path) if local_fn else None
        if b is not None and path not in seen:
            seen.add(path)
            collect_literals(b, chars, ranges, strs)
        return b

    # literals of callees refine the partition: repeat until no new callee literal turns up during a full enumeration
    for _ in range(4):
        dom = Domain(sorted(chars), sorted(ranges))
        ip = Interp(dom, lf, max_lit=bound - 1)
        before = (len(chars), len(ranges))
        n = 0
        cex = {}
        for s in dom.strings(bound):
            n += 1
            out = ip.call_fn(nb, [s])
            if not isinstance(out, str) or isinstance(out, Ch):
                raise Unsupported("the guard does not return a string")
            why = dom.legal(out) if legal is None else legal(dom, out)
            if why:
                kind = "empty" if out == "" else "underscore" if out == "_" else "start" if "starts with" in why else "continue"
                cex.setdefault(kind, (s, out, why))
        if (len(chars), len(ranges)) == before:
            return n, cex, len(dom.alphabet)
    raise Unsupported("the set of literals the guard compares with did not stabilise")
