"""MIR utilities over factgen's `mir_built` JSON: CFG, dominators, def-use origin tracing (P2),
result-flow classification (P3)."""
from collections import defaultdict


class Body:
    def __init__(self, fact_body):
        self.fact = fact_body
        self.path = fact_body["path"]
        m = fact_body["mir"]
        self.m = m
        self.blocks = m["blocks"]
        self.locals = m["locals"]
        self.arg_count = m["arg_count"]
        self.n = len(self.blocks)
        self.succ = [self._succs(b) for b in self.blocks]
        self.pred = [[] for _ in range(self.n)]
        for i, ss in enumerate(self.succ):
            for s in ss:
                self.pred[s].append(i)
        self._dom = None
        self._defs = None
        self.reach = self._reachable()

    # ---- CFG ------------------------------------------------------------------------------
    def _succs(self, b):
        t = b.get("term") or {}
        k = t.get("k")
        out = []
        if k in ("goto", "drop", "assert", "false_unwind", "yield"):
            out.append(t["target"])
        elif k == "false_edge":
            # the imaginary edge exists only for borrowck; real control flow takes `target`
            out.append(t["target"])
        elif k == "call":
            if "target" in t:
                out.append(t["target"])
        elif k == "switch":
            for _, bb in t["targets"]:
                out.append(bb)
            out.append(t["otherwise"])
        # return / unreachable / resume / terminate / tailcall: no successors; unwind edges ignored
        seen = []
        for s in out:
            if s not in seen:
                seen.append(s)
        return seen

    def _reachable(self):
        seen = {0}
        st = [0]
        while st:
            x = st.pop()
            for s in self.succ[x]:
                if s not in seen:
                    seen.add(s)
                    st.append(s)
        return seen

    def term(self, bb):
        return self.blocks[bb].get("term") or {}

    def dominators(self):
        """dom[b] = set of blocks dominating b (normal control flow, from block 0)."""
        if self._dom is not None:
            return self._dom
        nodes = sorted(self.reach)
        full = set(nodes)
        dom = {b: set(full) for b in nodes}
        dom[0] = {0}
        changed = True
        # reverse post-order would be faster; bodies are small
        while changed:
            changed = False
            for b in nodes:
                if b == 0:
                    continue
                ps = [p for p in self.pred[b] if p in full]
                if not ps:
                    continue
                new = set(full)
                for p in ps:
                    new &= dom[p]
                new.add(b)
                if new != dom[b]:
                    dom[b] = new
                    changed = True
        self._dom = dom
        return dom

    def dominates(self, a, b):
        """block a dominates block b"""
        if b not in self.reach:
            return True
        return a in self.dominators()[b]

    def reachable_from(self, start, avoid=()):
        seen = set()
        st = [start]
        avoid = set(avoid)
        while st:
            x = st.pop()
            if x in seen or x in avoid:
                continue
            seen.add(x)
            st.extend(self.succ[x])
        return seen

    def in_cycle(self, bb):
        for s in self.succ[bb]:
            if bb in self.reachable_from(s):
                return True
        return False

    def return_blocks(self):
        return [i for i in sorted(self.reach) if self.term(i).get("k") == "return"]

    # ---- calls ----------------------------------------------------------------------------
    def calls(self):
        """[(bb, term)] for every reachable Call terminator."""
        out = []
        for i in sorted(self.reach):
            t = self.term(i)
            if t.get("k") == "call":
                out.append((i, t))
        return out

    @staticmethod
    def callee(t, resolved=True):
        f = t.get("func") or {}
        if resolved and f.get("inst_path"):
            return f["inst_path"]
        return f.get("fn_path")

    @staticmethod
    def callee_decl(t):
        return (t.get("func") or {}).get("fn_path")

    def calls_to(self, *names, resolved=False):
        """Calls whose declared (or resolved) callee path ends with one of names."""
        out = []
        for bb, t in self.calls():
            ps = [self.callee_decl(t) or ""]
            if resolved:
                ps.append(self.callee(t) or "")
            if any(p == n or p.endswith(n) for p in ps for n in names):
                out.append((bb, t))
        return out

    # ---- def-use --------------------------------------------------------------------------
    def defs(self):
        """local -> list of definitions: ('assign', bb, idx, rvalue) | ('call', bb, term) | ('yield', bb, term)
        (only whole-local definitions, i.e. place without projection)."""
        if self._defs is not None:
            return self._defs
        d = defaultdict(list)
        for i in sorted(self.reach):
            b = self.blocks[i]
            for j, s in enumerate(b["stmts"]):
                if s["k"] == "assign" and not s["p"].get("proj"):
                    d[s["p"]["l"]].append(("assign", i, j, s["rv"]))
            t = b.get("term") or {}
            if t.get("k") == "call" and not t["dest"].get("proj"):
                d[t["dest"]["l"]].append(("call", i, t))
            if t.get("k") == "yield" and not t["resume_arg"].get("proj"):
                d[t["resume_arg"]["l"]].append(("yield", i, t))
        self._defs = d
        return d

    def local_name(self, l):
        return self.locals[l].get("name")

    def local_ty(self, l):
        return self.locals[l]["ty"]

    def is_arg(self, l):
        return 1 <= l <= self.arg_count

    def upvar_name(self, idx):
        uv = self.fact.get("upvars") or []
        if 0 <= idx < len(uv):
            return uv[idx]
        return None


# identity-preserving callee suffixes for origin tracing (P2): the result denotes the same value
# (or a reference/clone/widening of it) as argument 0.
IDENTITY_CALLS = (
    "ops::Deref::deref", "ops::DerefMut::deref_mut", "clone::Clone::clone", "convert::AsRef::as_ref",
    "borrow::Borrow::borrow", "convert::Into::into", "convert::From::from",
    "Option::<T>::as_ref", "Option::<T>::as_deref", "Option::<T>::as_mut", "Option::<&T>::cloned",
    "Option::<&T>::copied", "string::ToString::to_string", "String::as_str", "borrow::ToOwned::to_owned",
    "future::IntoFuture::into_future", "Pin::<Ptr>::new_unchecked", "pin::Pin::<Ptr>::new_unchecked",
    "B>::into_owned", "borrow::ToOwned::clone_into",
)


class Origin:
    """Result of tracing a value back to its roots.
    kind: 'arg' (local index), 'upvar' (index,name), 'const', 'call' (bb, term), 'aggregate', 'op', 'unknown'
    path: list of projection/field names applied after the root (outermost last)
    steps: identity calls / casts passed through (innermost first)"""

    def __init__(self, kind, **kw):
        self.kind = kind
        self.__dict__.update(kw)
        self.proj = kw.get("proj", [])
        self.steps = kw.get("steps", [])

    def __repr__(self):
        d = {k: v for k, v in self.__dict__.items() if k not in ("kind", "term", "rv") and v not in ([], None)}
        if self.kind == "call":
            d["callee"] = Body.callee(self.term)
        return f"<{self.kind} {d}>"

    def fields(self):
        return [p["f"] for p in self.proj if isinstance(p, dict) and "f" in p]


def _proj_of(place):
    return list(place.get("proj") or [])


def trace(body: Body, operand, identity=IDENTITY_CALLS, _depth=0, _steps=None, _proj=None, _seen=None):
    """All possible origins of an operand (list of Origin), following copies, moves, references,
    dereferences, casts and identity calls. Projections encountered are accumulated (outermost last)."""
    steps = list(_steps or [])
    proj = list(_proj or [])
    seen = set(_seen or ())
    if operand.get("k") == "const":
        return [Origin("const", const=operand, proj=proj, steps=steps)]
    if operand.get("k") not in ("copy", "move"):
        return [Origin("unknown", why=str(operand.get("k")), proj=proj, steps=steps)]
    return trace_place(body, operand["p"], identity, _depth, steps, proj, seen)


_SUCCESS = ("Ok", "Some", "Continue", "Ready")
_FAILURE = ("Err", "None", "Break")


def trace_place(body, place, identity=IDENTITY_CALLS, _depth=0, steps=None, proj=None, seen=None):
    steps = list(steps or [])
    proj = _proj_of(place) + list(proj or [])
    seen = set(seen or ())
    l = place["l"]
    if _depth > 60:
        return [Origin("unknown", why="depth", proj=proj, steps=steps)]
    # closure / coroutine environment: _1 with a field projection is an upvar
    if l == 1 and body.fact.get("closure"):
        flds = [p for p in proj if isinstance(p, dict) and "f" in p]
        if flds:
            idx = flds[0]["i"]
            rest = proj[proj.index(flds[0]) + 1:]
            return [Origin("upvar", index=idx, name=body.upvar_name(idx), proj=rest, steps=steps)]
    if body.is_arg(l):
        return [Origin("arg", local=l, name=body.local_name(l), proj=proj, steps=steps)]
    ds = body.defs().get(l, [])
    if not ds:
        return [Origin("unknown", why=f"no def of _{l}", local=l, proj=proj, steps=steps)]
    out = []
    # the payload of which variant is being read: a definition that can only produce the opposite kind of variant is not an origin
    # (`(r as Ok).0` never comes from `r = Err(..)` or from `r = from_residual(..)`)
    first = next((p for p in proj if isinstance(p, dict)), None)
    wanted = (first.get("downcast") or first.get("v")) if first else None
    wclass = 0 if wanted in _SUCCESS else (1 if wanted in _FAILURE else None)
    for d in ds:
        key = (l, d[0], d[1], d[2] if d[0] == "assign" else 0)
        if key in seen:
            continue
        seen2 = seen | {key}
        if wanted is not None and d[0] == "assign" and d[3]["k"] == "aggregate" and d[3].get("ak") == "adt" and d[3].get("variant") \
                and isinstance(first, dict) and first.get("downcast") and d[3]["variant"] != wanted \
                and wanted not in _SUCCESS + _FAILURE and d[3]["variant"] not in _SUCCESS + _FAILURE:
            continue    # the payload of variant `wanted` is read: a value built as another variant of the enum is not where it comes from
        if wclass is not None:
            if d[0] == "assign" and d[3]["k"] == "aggregate" and d[3].get("ak") == "adt":
                v = d[3].get("variant")
                if (v in _SUCCESS and wclass == 1) or (v in _FAILURE and wclass == 0):
                    continue
            if d[0] == "call" and wclass == 0 and (Body.callee_decl(d[2]) or "").endswith("FromResidual::from_residual"):
                continue
        if d[0] == "assign":
            rv = d[3]
            k = rv["k"]
            if k == "use":
                out += trace(body, rv["op"], identity, _depth + 1, steps, proj, seen2)
            elif k in ("ref", "copy_for_deref", "rawptr"):
                out += trace_place(body, rv["p"], identity, _depth + 1, steps, proj, seen2)
            elif k == "cast":
                out += trace(body, rv["op"], identity, _depth + 1,
                             steps + [("cast", rv["ck"], rv.get("from_ty"), rv["ty"])], proj, seen2)
            elif k == "aggregate":
                # a field projection on an aggregate selects the operand
                flds = [p for p in proj if isinstance(p, dict) and "f" in p]
                if flds and rv.get("ak") in ("tuple", "adt", "closure", "coroutine"):
                    f = flds[0]
                    idx = f["i"]
                    if idx < len(rv["ops"]):
                        rest = proj[proj.index(f) + 1:]
                        out += trace(body, rv["ops"][idx], identity, _depth + 1, steps, rest, seen2)
                        continue
                out.append(Origin("aggregate", rv=rv, bb=d[1], proj=proj, steps=steps))
            elif k == "discr":
                out.append(Origin("discr", place=rv["p"], bb=d[1], proj=proj, steps=steps))
            else:
                out.append(Origin("op", rv=rv, bb=d[1], proj=proj, steps=steps))
        elif d[0] == "call":
            t = d[2]
            decl = Body.callee_decl(t) or ""
            if any(decl.endswith(s) for s in identity) and t["args"]:
                out += trace(body, t["args"][0], identity, _depth + 1, steps + [("call", decl, d[1])], proj, seen2)
            else:
                out.append(Origin("call", term=t, bb=d[1], proj=proj, steps=steps))
        elif d[0] == "yield":
            out.append(Origin("yield", term=d[2], bb=d[1], proj=proj, steps=steps))
    return out


def uses_of_local(body: Body, l):
    """All reads of local l: [(bb, where, detail)] where `where` in stmt/term."""
    out = []

    def op_reads(o):
        return isinstance(o, dict) and o.get("k") in ("copy", "move") and o["p"]["l"] == l

    def place_reads(p):
        return isinstance(p, dict) and p.get("l") == l

    for i in sorted(body.reach):
        b = body.blocks[i]
        for j, s in enumerate(b["stmts"]):
            if s["k"] == "assign":
                rv = s["rv"]
                hit = False
                for key in ("op", "a", "b"):
                    if op_reads(rv.get(key)):
                        hit = True
                for o in rv.get("ops", []):
                    if op_reads(o):
                        hit = True
                if place_reads(rv.get("p")):
                    hit = True
                # writes through a projection of l also count as uses of l
                if s["p"]["l"] == l and s["p"].get("proj"):
                    hit = True
                if hit:
                    out.append((i, "stmt", j, s))
        t = b.get("term") or {}
        k = t.get("k")
        hit = False
        if k == "call":
            if op_reads(t["func"]):
                hit = True
            for a in t["args"]:
                if op_reads(a):
                    hit = True
        elif k == "switch" and op_reads(t["discr"]):
            hit = True
        elif k == "assert" and op_reads(t["cond"]):
            hit = True
        elif k == "yield" and op_reads(t["value"]):
            hit = True
        elif k == "drop" and t["p"]["l"] == l:
            out.append((i, "drop", None, t))
            continue
        if hit:
            out.append((i, "term", None, t))
    return out


# ---- P3 result flow ------------------------------------------------------------------------

def result_flow(body: Body, bb, term, _depth=0):
    """Classify what happens to the Result produced by the call `term` (in block bb).
    Returns a list of (kind, detail) over all consumers:
      propagated  - `?`: Try::branch, Break arm -> from_residual -> return path
      returned    - moved into _0 (possibly via aggregate-free copies)
      mapped      - map_err / map / and_then etc. -> classification of the mapped result follows
      unwrapped   - unwrap/expect (panics on Err)
      swallowed   - ok()/is_ok()/is_err()/unwrap_or*/dropped without inspection
      passed      - handed to another function as an argument (detail = callee)
      matched     - discriminant inspected by user code (detail = switch bb)
    """
    dest = term["dest"]
    if dest.get("proj"):
        return [("stored", "projection")]
    return _flow_local(body, dest["l"], set(), _depth)


MAP_LIKE = ("Result::<T, E>::map_err", "Result::<T, E>::map", "Result::<T, E>::and_then", "Result::<T, E>::or_else",
            "Result::<T, E>::inspect_err", "Result::<T, E>::inspect")
UNWRAP_LIKE = ("Result::<T, E>::unwrap", "Result::<T, E>::expect", "Result::<T, E>::unwrap_err",
               "Result::<T, E>::expect_err", "Result::<T, E>::unwrap_unchecked")
SWALLOW_LIKE = ("Result::<T, E>::ok", "Result::<T, E>::is_ok", "Result::<T, E>::is_err", "Result::<T, E>::unwrap_or",
                "Result::<T, E>::unwrap_or_default", "Result::<T, E>::unwrap_or_else", "Result::<T, E>::err",
                "Result::<T, E>::is_ok_and", "Result::<T, E>::is_err_and", "Result::<T, E>::map_or",
                "Result::<T, E>::map_or_else", "Result::<T, E>::iter", "mem::drop")


def _flow_local(body, l, seen, depth):
    if l in seen or depth > 20:
        return []
    seen = seen | {l}
    if l == 0:
        return [("returned", None)]
    out = []
    uses = uses_of_local(body, l)
    real = [u for u in uses if u[1] != "drop"]
    if not real:
        return [("swallowed", "dropped unused")]
    for (bb, where, j, x) in real:
        if where == "stmt":
            s = x
            rv = s["rv"]
            tgt = s["p"]
            src_proj = (rv.get("op") or {}).get("p", {}).get("proj") or [] if rv["k"] == "use" else []
            variants = [p.get("v") or p.get("downcast") for p in src_proj if isinstance(p, dict) and ("v" in p or "downcast" in p)]
            if rv["k"] == "use" and any(v in ("Ok", "Continue", "Some") for v in variants):
                continue   # the success payload is taken out: not part of what happens to a failure
            if rv["k"] == "use" and any(v in ("Err", "Break") for v in variants) and not tgt.get("proj"):
                # the error payload is taken out (hand-written `match`): follow the error value; wrapping it in another error is
                # how it is passed on
                sub = _flow_local(body, tgt["l"], seen, depth + 1)
                out += [(k_, d_) for k_, d_ in sub if k_ != "wrapped"]
                continue
            if rv["k"] == "use" and not tgt.get("proj"):
                out += _flow_local(body, tgt["l"], seen, depth + 1)
            elif rv["k"] == "discr" and body.local_ty(l).startswith(("std::task::Poll<", "core::task::Poll<")):
                continue   # the readiness test of an await, not an inspection of the awaited Result
            elif rv["k"] == "discr":
                mp = _match_propagates(body, l, bb, tgt)
                if mp is None:
                    out.append(("matched", bb))
                elif mp == 0:
                    out.append(("propagated", bb))
                else:
                    # propagated by hand into the return place of an inlined callee: what the caller does with that decides
                    sub = _flow_local(body, mp, seen, depth + 1)
                    out += sub if sub else [("swallowed", "result of an inlined function dropped")]
            elif rv["k"] in ("ref",) and not tgt.get("proj"):
                out += _flow_local(body, tgt["l"], seen, depth + 1)
            elif rv["k"] == "aggregate" and not tgt.get("proj") and rv.get("adt", "").endswith("task::Poll") and rv.get("variant") == "Ready":
                out += _flow_local(body, tgt["l"], seen, depth + 1)   # Poll::Ready(x) of an inlined await: transparent
            elif rv["k"] == "aggregate" and not tgt.get("proj"):
                out += [("wrapped", bb)] + _flow_local(body, tgt["l"], seen, depth + 1)
            elif rv["k"] == "use" and tgt.get("proj"):
                out.append(("stored", bb))
            else:
                out.append(("other", (bb, rv["k"])))
        else:
            t = x
            if t.get("k") != "call":
                out.append(("other", (bb, t.get("k"))))
                continue
            decl = Body.callee_decl(t) or ""
            if decl.endswith("ops::Try::branch"):
                d = _try_dest(body, bb, t)
                cont_, brk_ = try_arms(body, bb, t)
                if brk_ is None and cont_ is not None and _resolved_switch_after(body, t):
                    continue    # on this (specialised) path the value is known to be the success: no failure flows here
                if d == 0:
                    out.append(("propagated", bb))
                elif d is not None and body.locals[d].get("inl_ret"):
                    # `?` inside an inlined callee: the error becomes the callee's result; what the caller does with it decides
                    sub = _flow_local(body, d, seen, depth + 1)
                    out += sub if sub else [("swallowed", "result of an inlined function dropped")]
                else:
                    out.append(("other", (bb, "try")))
            elif any(decl.endswith(s) for s in MAP_LIKE):
                sub = result_flow(body, bb, t, depth + 1)
                out += [("mapped:" + k, d) for k, d in sub] if sub else [("swallowed", "mapped then dropped")]
            elif any(decl.endswith(s) for s in UNWRAP_LIKE):
                out.append(("unwrapped", (bb, decl)))
            elif any(decl.endswith(s) for s in SWALLOW_LIKE):
                out.append(("swallowed", (bb, decl)))
            else:
                out.append(("passed", (bb, decl)))
    return out


def _match_propagates(body, res_local, bb, discr_place):
    """`match r { Ok(..) => .., Err(e) => return Err(f(e)) }` written by hand: the discriminant of result local `res_local` is read
    in block bb into discr_place and switched on; when every return-place assignment reachable from the Err arm (and not from
    the Ok arm's entry) is an `Err(..)` aggregate of one return place, that return place (0, or an inlined callee's) is
    returned; else None."""
    if discr_place.get("proj"):
        return None
    sw = None
    home = None
    for x in sorted(body.reachable_from(bb)):
        t = body.term(x)
        if t.get("k") == "switch" and t["discr"].get("k") in ("copy", "move") and t["discr"]["p"]["l"] == discr_place["l"]:
            sw = t
            home = body.blocks[x].get("from")   # the (inlined) function the match belongs to
            break
    if sw is None:
        return None
    ok_arm = [b2 for v, b2 in sw["targets"] if v == 0]
    err_arm = [b2 for v, b2 in sw["targets"] if v == 1]
    if not err_arm:
        err_arm = [sw["otherwise"]] if ok_arm else []
    if not ok_arm:
        ok_arm = [sw["otherwise"]] if err_arm else []
    if not err_arm or not ok_arm:
        return None
    region = body.reachable_from(err_arm[0], avoid=ok_arm)
    rets = set()
    for x in region:
        if body.blocks[x].get("from") != home:
            continue   # past the return of the inlined function: the caller's business (followed through the return place)
        for st in body.blocks[x]["stmts"]:
            if st["k"] == "assign" and not st["p"].get("proj") and (st["p"]["l"] == 0 or body.locals[st["p"]["l"]].get("inl_ret")):
                rv = st["rv"]
                if rv["k"] == "aggregate" and rv.get("variant") == "Err":
                    # the error must be (built from) the payload of the matched result
                    rets.add(st["p"]["l"])
                else:
                    return None
    if len(rets) != 1:
        return None
    return rets.pop()


def _resolved_switch_after(body, t):
    cur = t.get("target")
    for _ in range(6):
        if cur is None:
            return False
        tt = body.term(cur)
        if tt.get("k") == "switch":
            return bool(tt.get("resolved"))
        cur = tt.get("target") if tt.get("k") in ("goto", "false_edge", "drop") else None
    return False


def _try_dest(body, bb, t):
    """The local that receives `from_residual(..)` on the Break arm of this Try::branch (0 = the function's return place)."""
    cont, brk = try_arms(body, bb, t)
    if brk is None:
        return None
    # follow the Break arm in control-flow order up to its from_residual call (no branching in between)
    cur, seen = brk, set()
    while cur is not None and cur not in seen:
        seen.add(cur)
        tt = body.term(cur)
        if tt.get("k") == "call" and (Body.callee_decl(tt) or "").endswith("FromResidual::from_residual"):
            return tt["dest"]["l"] if not tt["dest"].get("proj") else None
        if tt.get("k") == "switch":
            return None
        nxt = body.succ[cur]
        cur = nxt[0] if len(nxt) == 1 else None
    return None


def _try_propagates(body, bb, t):
    """The Break arm of this Try::branch reaches a from_residual call assigning _0 (or, in an inlined callee, the callee's return
    place whose value is in turn propagated or returned by the caller)."""
    d = _try_dest(body, bb, t)
    if d == 0:
        return True
    if d is not None and body.locals[d].get("inl_ret"):
        sub = _flow_local(body, d, set(), 0)
        return bool(sub) and all(k in ("propagated", "returned") for k, _ in sub)
    return False


def try_arms(body, bb, t):
    """For `Try::branch` call t in block bb: (continue_block, break_block)."""
    tgt = t.get("target")
    if tgt is None:
        return (None, None)
    # follow gotos to the switch on the discriminant
    cur = tgt
    for _ in range(6):
        tt = body.term(cur)
        if tt.get("k") == "switch":
            cont = brk = None
            for v, b2 in tt["targets"]:
                if v == 0:
                    cont = b2
                elif v == 1:
                    brk = b2
            return (cont, brk)
        if tt.get("k") in ("goto", "false_edge", "drop"):
            cur = tt["target"]
        else:
            break
    return (None, None)


def success_continuation(body, bb, term):
    """Block where control continues when the Result of call `term` was Ok and propagated with `?`;
    None if the result is not consumed by a `?`."""
    dest = term["dest"]
    if dest.get("proj"):
        return None
    return _succ_cont_local(body, dest["l"], set())


def _succ_cont_local(body, l, seen):
    if l in seen:
        return None
    seen = seen | {l}
    for (bb, where, j, x) in uses_of_local(body, l):
        if where == "stmt" and x["rv"]["k"] == "use" and not x["p"].get("proj"):
            r = _succ_cont_local(body, x["p"]["l"], seen)
            if r is not None:
                return r
        if where == "term" and x.get("k") == "call":
            decl = Body.callee_decl(x) or ""
            if decl.endswith("ops::Try::branch"):
                cont, brk = try_arms(body, bb, x)
                return cont
            if any(decl.endswith(s) for s in MAP_LIKE) and not decl.endswith("and_then"):
                if not x["dest"].get("proj"):
                    r = _succ_cont_local(body, x["dest"]["l"], seen)
                    if r is not None:
                        return r
    return None


def deps(body: Body, operand, _seen=None):
    """Backward data-dependence closure of an operand: the set of roots it can depend on, through every
    statement and call argument. Roots: ('arg', local) | ('upvar', index, name) | ('const', text) |
    ('call0', callee) for calls without arguments | ('unknown', why)."""
    out = set()
    seen = _seen if _seen is not None else set()

    def from_operand(o):
        if not isinstance(o, dict):
            return
        if o.get("k") == "const":
            out.add(("const", o.get("str", o.get("text"))))
        elif o.get("k") in ("copy", "move"):
            from_place(o["p"])

    def from_place(p):
        l = p["l"]
        if l == 1 and body.fact.get("closure"):
            flds = [x for x in (p.get("proj") or []) if isinstance(x, dict) and "f" in x]
            if flds:
                out.add(("upvar", flds[0]["i"], body.upvar_name(flds[0]["i"])))
                return
        if body.is_arg(l):
            out.add(("arg", l))
            return
        if l in seen:
            return
        seen.add(l)
        ds = body.defs().get(l, [])
        if not ds:
            # partially initialised locals (field-wise assignment): look at projected assignments
            found = False
            for i in sorted(body.reach):
                for s in body.blocks[i]["stmts"]:
                    if s["k"] == "assign" and s["p"]["l"] == l:
                        found = True
                        from_rvalue(s["rv"])
            if not found:
                out.add(("unknown", f"_{l}"))
            return
        for d in ds:
            if d[0] == "assign":
                from_rvalue(d[3])
            elif d[0] == "call":
                t = d[2]
                if not t["args"]:
                    out.add(("call0", Body.callee(t)))
                for a in t["args"]:
                    from_operand(a)
            elif d[0] == "yield":
                out.add(("yield", d[1]))

    def from_rvalue(rv):
        for key in ("op", "a", "b"):
            if key in rv:
                from_operand(rv[key])
        for o in rv.get("ops", []):
            from_operand(o)
        if "p" in rv:
            from_place(rv["p"])

    from_operand(operand)
    return out


def slice_info(body: Body, operand):
    """Backward data slice of an operand: (roots, via) where `via` is the set of callee declaration paths of all
    calls whose result the operand can depend on."""
    roots = set()
    via = set()
    seen = set()

    def from_operand(o):
        if not isinstance(o, dict):
            return
        if o.get("k") == "const":
            roots.add(("const", o.get("str", o.get("text"))))
        elif o.get("k") in ("copy", "move"):
            from_place(o["p"])

    def from_place(p):
        l = p["l"]
        if l == 1 and body.fact.get("closure"):
            flds = [x for x in (p.get("proj") or []) if isinstance(x, dict) and "f" in x]
            if flds:
                roots.add(("upvar", flds[0]["i"], body.upvar_name(flds[0]["i"])))
                return
        if body.is_arg(l):
            roots.add(("arg", l))
            return
        if l in seen:
            return
        seen.add(l)
        ds = list(body.defs().get(l, []))
        # field-wise / deref assignments into the local
        for i in sorted(body.reach):
            for s in body.blocks[i]["stmts"]:
                if s["k"] == "assign" and s["p"]["l"] == l and s["p"].get("proj"):
                    ds.append(("assign", i, -1, s["rv"]))
        if not ds:
            roots.add(("unknown", f"_{l}"))
            return
        for d in ds:
            if d[0] == "assign":
                from_rvalue(d[3])
            elif d[0] == "call":
                t = d[2]
                via.add(Body.callee_decl(t) or "?")
                for a in t["args"]:
                    from_operand(a)
            elif d[0] == "yield":
                roots.add(("yield", d[1]))

    def from_rvalue(rv):
        for key in ("op", "a", "b"):
            if key in rv:
                from_operand(rv[key])
        for o in rv.get("ops", []):
            from_operand(o)
        if "p" in rv:
            from_place(rv["p"])

    from_operand(operand)
    return roots, via


def cfg_cycles(body: Body):
    """Strongly connected components (size>1 or self loop) of the reachable CFG."""
    index = {}
    low = {}
    st = []
    on = set()
    out = []
    cnt = [0]
    import sys
    sys.setrecursionlimit(20000)

    def strong(v):
        index[v] = low[v] = cnt[0]
        cnt[0] += 1
        st.append(v)
        on.add(v)
        for w in body.succ[v]:
            if w not in index:
                strong(w)
                low[v] = min(low[v], low[w])
            elif w in on:
                low[v] = min(low[v], index[w])
        if low[v] == index[v]:
            comp = []
            while True:
                w = st.pop()
                on.discard(w)
                comp.append(w)
                if w == v:
                    break
            if len(comp) > 1 or v in body.succ[v]:
                out.append(sorted(comp))

    for v in sorted(body.reach):
        if v not in index:
            strong(v)
    return out
