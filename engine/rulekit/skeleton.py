"""E4 skeleton sampler: derivations of the output grammar rendered as Rust text with canonical lexemes.

The inlined event stream of the root emitter is re-nested into a tree (Star / Alt / Emit); a derivation chooses a count
for every Star and a branch for every condition (consistently per canonical condition key); every hole is filled with a
lexeme computed from its provenance normal form (tokens named after the model path, case sanitisers applied symbolically,
references to generated user types replaced by a fixed fixture type). Nothing of zeep is executed: the object analysed is
the set of texts the writers can produce, over-approximated from their syntax; the samples are then type-checked by rustc
against the real prelude (see witness.py)."""
import json
import re
import zlib

from . import og
from rules import templates as T
from rules import anchors as _A

FIXTURE = '''
pub mod fixture_mod {
    use super::*;
    use restrictions::CheckRestrictions;
    #[derive(Debug, Default, YaSerialize, YaDeserialize)]
    #[yaserde(prefix = "fx", namespaces = {"fx" = "urn:fixture"}, rename = "TyRef")]
    pub struct TyRef {
        #[yaserde(text = true)]
        pub value: String,
    }
    impl restrictions::CheckRestrictions for TyRef {
        fn check_restrictions(&self, restrictions: Option<Rc<restrictions::Restrictions>>) -> error::SoapResult<()> {
            self.value.check_restrictions(restrictions)
        }
    }
}
'''


def pascal(s):
    parts = [p for p in re.split(r"[^A-Za-z0-9]+", s) if p]
    return "".join(p[:1].upper() + p[1:] for p in parts) or "X"


def snake(s):
    s = re.sub(r"([a-z0-9])([A-Z])", r"\1_\2", s)
    parts = [p for p in re.split(r"[^A-Za-z0-9]+", s) if p]
    return "_".join(p.lower() for p in parts) or "x"


def short_label(s):
    """A short identifier-safe label for a star / path string."""
    words = re.findall(r"[A-Za-z_][A-Za-z0-9_]*", s)
    keep = [w for w in words if w not in ("self", "each", "filter", "Some", "Eq", "in_namespace", "is_none")][-2:]
    return ("".join(w[:3] for w in keep) or "s") + format(zlib.crc32(s.encode()) & 0xFFF, "x")


class Tok:
    def __init__(self, label):
        self.label = label

    def __str__(self):
        return self.label


# ---- tree ------------------------------------------------------------------------------------------

def build_tree(events, depth=0):
    """events: IEmit list (ICalls dropped). -> nested nodes: ('emit', ev) | ('star', iter_nf, kids) | ('alt', cond_nf, branch, kids)"""
    out = []
    i = 0
    n = len(events)
    while i < n:
        ev = events[i]
        if len(ev.ctx) <= depth:
            out.append(("emit", ev))
            i += 1
            continue
        head = ev.ctx[depth]
        j = i
        while j < n and len(events[j].ctx) > depth and events[j].ctx[depth] == head:
            j += 1
        kids = build_tree(events[i:j], depth + 1)
        if head[0] == "star":
            out.append(("star", head[1], kids))
        else:
            out.append(("alt", head[1], head[2], kids))
        i = j
    return out


def subst_tree(nodes, old, new):
    def s_nf(nf):
        if nf == old:
            return new
        if isinstance(nf, tuple):
            return tuple(s_nf(x) if isinstance(x, tuple) else x for x in nf)
        return nf
    out = []
    for nd in nodes:
        if nd[0] == "emit":
            ev = nd[1]
            parts = tuple(p if p[0] == "lit" else ("hole", s_nf(p[1])) + tuple(p[2:]) for p in ev.parts)
            out.append(("emit", T.IEmit(ev.ev, parts, ev.ctx, ev.chain)))
        elif nd[0] == "star":
            out.append(("star", s_nf(nd[1]), subst_tree(nd[2], old, new)))
        else:
            out.append(("alt", s_nf(nd[1]), nd[2], subst_tree(nd[3], old, new)))
    return out


INT_RANGES = {f"i{b}": (-(2 ** (b - 1)), 2 ** (b - 1) - 1) for b in (8, 16, 32, 64, 128)}
INT_RANGES.update({f"u{b}": (0, 2 ** b - 1) for b in (8, 16, 32, 64, 128)})
INT_RANGES.update({"isize": INT_RANGES["i64"], "usize": INT_RANGES["u64"]})


def shape(nf):
    """A normal form with loop elements and element tokens made anonymous: the same condition on different elements has one shape."""
    if not isinstance(nf, tuple):
        return nf
    if nf and nf[0] in ("elem", "tok"):
        return ("•",)
    return tuple(shape(x) for x in nf)


def shape_str(nf):
    return og.nf_str(shape(nf))


class Derivation:
    """Choices of one sample."""

    def __init__(self, index, target_ctx=None):
        self.index = index
        self.star_counts = {}
        self.bools = {}
        self.kinds = {}
        # directed derivation: the decisions on the way to one emit site are fixed (for every element alike), the rest as usual
        self.force = {}           # shape of a condition -> truth value
        self.force_variant = {}   # shape of a matched value -> variant name
        self.force_star = set()   # shapes of iterated collections that must not be empty
        self.force_empty = set()  # .. and of those that have to be
        self.forced_keys = set()
        self.variants = {}
        for c in (target_ctx or ()):
            if c[0] == "star":
                self.force_star.add(shape_str(c[1]))
            else:
                cond, branch = c[1], c[2]
                while cond[0] == "not":
                    cond, branch = cond[1], not branch
                if cond[0] == "islet" and not cond[1].startswith(("Some(", "Ok(", "Err(")) and cond[1].rsplit("::", 1)[-1] not in ("None", "_"):
                    if branch and "|" not in cond[1]:
                        self.force_variant[shape_str(cond[2])] = cond[1].split("(")[0].split("{")[0].rsplit("::", 1)[-1].strip()
                    else:
                        # `the value is not this variant` (or: is one of several): decided as a condition of its own
                        self.force.setdefault(shape_str(cond), branch)
                elif cond[0] == "call" and str(cond[1]).rsplit("::", 1)[-1] == "is_empty" and cond[2]:
                    # the way to the site asks for this collection to be empty / not empty: that is a matter of how many elements it gets
                    (self.force_empty if branch else self.force_star).add(shape_str(cond[2][0]))
                else:
                    self.force.setdefault(shape_str(cond), branch)

    def count(self, key, shape_key=None):
        if shape_key is not None and shape_key in self.force_empty and shape_key not in self.force_star:
            self.star_counts[key] = 0
            return 0
        if shape_key is not None and shape_key in self.force_star:
            if key not in self.star_counts:
                self.star_counts[key] = 1
            return self.star_counts[key]
        if key not in self.star_counts:
            cyc = [[2, 1], [1, 2], [2, 2], [0, 1], [1, 0]][self.index % 5]
            self.star_counts[key] = cyc[(zlib.crc32(key.encode()) >> 3) % 2]
        return self.star_counts[key]

    def boolean(self, key):
        if key not in self.bools:
            if self.index == 0:
                v = True
            elif self.index == 1:
                v = False
            else:
                v = bool((zlib.crc32((key + str(self.index)).encode()) >> 5) & 1)
            self.bools[key] = v
        return self.bools[key]

    def kind(self, key):
        """carrier kind of a RustFieldType value: 'string' | 'other' | 'prim'"""
        if key not in self.kinds:
            self.kinds[key] = ["string", "other", "prim"][(zlib.crc32(key.encode()) + self.index) % 3]
        return self.kinds[key]


class Renderer:
    def __init__(self, F, X, deriv):
        self.F = F
        self.X = X
        self.d = deriv
        self.CE = og.CallExpander(F)
        self.lines = []        # (text, site, fn)
        self.methods = []      # (service, fn name, request type)
        self.free_fns = []     # (fn name, request type)
        self.structs = []      # names of serialized structs
        self.current_impl = None
        self.problems = []
        self.covered = set()

    # -- evaluation of normal forms to lexemes ----------------------------------------------------------
    def path(self, nf):
        """model path label of a normal form (tokens + field names), ignoring payload/map wrappers"""
        if not isinstance(nf, tuple):
            return str(nf)
        k = nf[0]
        if k == "tok":
            return nf[1]
        if k == "param":
            return "doc" if nf[1] == "self" else nf[1]
        if k == "field":
            base = self.path(nf[1])
            if nf[2] == "binding" and base.startswith("svc_"):
                return "bnd_" + base[4:]     # SoapService.binding is the binding of the same document (Rc clone)
            return base + "_" + nf[2]
        if k == "payload":
            return self.path(nf[2])
        if k == "map":
            return self.path(nf[1])
        if k == "elem":
            return self.path(nf[1]) + "_e"
        if k == "call":
            name = str(nf[1]).rsplit("::", 1)[-1]
            if nf[2]:
                if name in ("xml_name", "ok_or", "ok_or_else", "expect", "unwrap_or", "as_str", "to_string", "clone", "as_ref", "iter"):
                    return self.path(nf[2][0])
                if name == "filter":
                    toks = _toks(nf[2][1]) if len(nf[2]) > 1 else []
                    return self.path(nf[2][0]) + ("_in_" + toks[0] if toks else "_rest")
                return self.path(nf[2][0]) + "_" + re.sub(r"[^A-Za-z0-9]", "", name)[:8]
            return re.sub(r"[^A-Za-z0-9]", "", name)[:8]
        if k == "lit":
            return re.sub(r"[^A-Za-z0-9]", "", str(nf[1]))[:8] or "lit"
        return short_label(og.nf_str(nf))

    def truth(self, cond):
        """decide a condition consistently"""
        c = cond
        if c[0] == "not":
            t = self.truth(c[1])
            return None if t is None else not t
        if c[0] == "islet" and isinstance(c[2], tuple) and c[2][0] == "ifelse" and c[1].rsplit("::", 1)[-1].startswith(("Some(", "None")):
            # `if let Some(x) = cond.then(..)`: the decision is `cond` (all spellings of one decision must agree within a sample)
            ov = og._opt_view(c[2])
            if ov is not None and ov[0] is not True:
                t = self.truth(ov[0])
                if t is not None:
                    return t if c[1].rsplit("::", 1)[-1].startswith("Some(") else not t
        if c[0] == "islet":
            pat = c[1]
            base = c[2]
            if og.nf_str(base) == "None" or (base[0] == "const" and base[1].endswith("None")):
                return not pat.startswith("Some(")
            if pat.startswith("Some("):
                return self._bool("some:" + self.path(base), c, True)
            if pat == "None" or pat.endswith("::None"):
                return self._bool("some:" + self.path(base), c, False)
            vname = pat.rsplit("::", 1)[-1].split("(")[0].split("{")[0].strip()
            if vname in ("String", "Other") and ("RustFieldType" in pat or "rust_type" in og.nf_str(base)):
                # a test of the kind of a field type: the same decision as is_string() / is_other()
                return self.d.kind(self.path(base)) == ("string" if vname == "String" else "other")
            # enum variant patterns: decided by the chosen variant of the value
            return None
        if c[0] == "call":
            name = str(c[1]).rsplit("::", 1)[-1]
            if name in ("is_some", "is_none") and c[2]:
                b0 = c[2][0]
                const = None
                if og.nf_str(b0) == "None" or (b0[0] == "const" and b0[1].endswith("None")):
                    const = False
                elif b0[0] == "call" and b0[1] == "Some":
                    const = True
                if const is not None:
                    return const if name == "is_some" else not const
            if name == "is_some":
                return self._bool("some:" + self.path(c[2][0]), c, True)
            if name == "is_none":
                return self._bool("some:" + self.path(c[2][0]), c, False)
            if name == "is_empty":
                return self.d.count("star:" + self.path(c[2][0]), shape_str(c[2][0])) == 0
            if name == "is_string":
                return self.d.kind(self.path(c[2][0])) == "string"
            if name == "is_other":
                return self.d.kind(self.path(c[2][0])) == "other"
        if c[0] == "binop" and c[1] in ("Eq", "Ne") and (c[2][0] == "lit" or c[3][0] == "lit"):
            lit, other = (c[2], c[3]) if c[2][0] == "lit" else (c[3], c[2])
            if isinstance(lit[1], str):
                eq = self.lexeme(other) == lit[1]
                return eq if c[1] == "Eq" else not eq
        if c[0] == "binop" and c[1] == "Eq":
            s = og.nf_str(c)
            if "Ignore" in s or "rust_name" in s or "segment" in s:
                return False
        if c[0] == "field":
            return self._bool("flag:" + self.path(c), c, True)
        return self._bool("cond:" + og.nf_str(c)[:200], c, True)

    def _bool(self, key, cond, positive):
        """the derivation's decision `key`, which makes `cond` true when `positive`; a directed derivation fixes the decision the
        first time a condition of a forced shape asks for it (all spellings of one decision share the key)"""
        d = self.d
        if d.force and key not in d.forced_keys:
            sh = shape_str(cond)
            if sh in d.force:
                d.bools[key] = d.force[sh] if positive else not d.force[sh]
                d.forced_keys.add(key)
        v = d.boolean(key)
        return v if positive else not v

    def lexeme(self, nf):
        """textual value of a normal form"""
        if not isinstance(nf, tuple):
            return str(nf)
        k = nf[0]
        if k == "lit":
            return "" if nf[1] is None else str(nf[1])
        if k == "format":
            return "".join(p[1] if p[0] == "lit" else self.hole_text(p[1], p[2], p[3] if len(p) > 3 else "?", None) for p in nf[1])
        if k == "ifelse":
            t = self.truth(nf[1])
            if t is None:
                t = False
            return self.lexeme(nf[2] if t else nf[3])
        if k == "call":
            name = str(nf[1]).rsplit("::", 1)[-1]
            if name in ("to_pascal_case",):
                return pascal(self.lexeme(nf[2][0]))
            if name in ("to_snake_case",):
                return snake(self.lexeme(nf[2][0]))
            if name in ("rename_keywords", "as_identifier", "ok_or", "ok_or_else", "expect", "to_string", "as_str", "trim"):
                return self.lexeme(nf[2][0])
            if name == "xml_name":
                return self.path(nf[2][0]) + "_xmlname"
            return self.path(nf)
        if k == "joinmap":
            items = self.list_items(nf[1])
            out = []
            for it in items:
                body = _subst(nf[2], ("elem", nf[1]), it)
                out.append(self.lexeme(body))
            return (nf[3] if isinstance(nf[3], str) else ", ").join(out)
        if k in ("payload", "map"):
            return self.lexeme(nf[2])
        if k == "field" and nf[2] == "rust_type":
            return self.type_text(nf)
        if k == "field" and isinstance(nf[1], tuple) and nf[1][0] == "tuple" and nf[2].isdigit():
            return self.lexeme(nf[1][1][int(nf[2])])
        if k == "match":
            return self.path(nf)
        return self.path(nf)

    def list_items(self, lst):
        """elements (as normal forms) of a ('list', items) builder"""
        out = []
        if lst[0] != "list":
            return [("tok", self.path(lst) + "_0")]
        for it in lst[1]:
            if it[0] == "item":
                out.append(it[1])
            else:
                S = it[1]
                n = self.d.count("star:" + self.path(S))
                for i in range(n):
                    out.append(_subst(it[2], ("elem", S), ("tok", f"{self.path(S)}_{i}")))
        return out

    def type_text(self, nf):
        """Rust type text for a hole of type RustFieldType (Display), chosen by the derivation."""
        kind = self.d.kind(self.path(nf))
        return {"string": "String", "other": "fixture_mod::TyRef", "prim": "i32"}[kind]

    def hole_text(self, nf, trait, ty, role):
        tys = (ty or "?").replace("&", "").replace(" ", "")
        if tys.endswith("RustFieldType"):
            return self.type_text(nf)
        if role == "type-ref":
            return "TyRef"
        if role == "module-ref":
            return "fixture_mod"
        ntt = og.numeric_text_type(nf, self.CE)
        if ntt in INT_RANGES:
            tys = ntt
        if tys in INT_RANGES:
            # an integer hole can hold any value of its type: the extremes decide whether the position it is written to is wide
            # enough (rustc rejects an out-of-range literal), so render those rather than a small number
            lo, hi = INT_RANGES[tys]
            return str(lo if getattr(self.d, "index", 0) % 4 == 1 else hi)
        v = self.lexeme(self.CE.expand(nf))
        if trait == "debug":
            return json.dumps(v)
        return v

    # -- rendering ------------------------------------------------------------------------------------
    def render(self, nodes):
        for nd in nodes:
            if nd[0] == "emit":
                self.emit(nd[1])
            elif nd[0] == "star":
                S = nd[1]
                base = self.path(S)
                prefix = "svc" if base.endswith("soap_services") else "bnd" if base.endswith("soap_bindings") else None
                n = self.d.count("star:" + base, shape_str(S))
                for i in range(n):
                    label = f"{prefix}_{i}" if prefix else f"{base}_{i}"
                    self.render(subst_tree(nd[2], ("elem", S), ("tok", label)))
            else:
                t = self.truth(nd[1])
                if t is None:
                    t = self.variant_truth(nd[1])
                if t == nd[2]:
                    self.render(nd[3])

    def variant_truth(self, cond):
        """`x is Variant(..)`: the value of x has exactly one variant, chosen from the path and the sample index"""
        pat, base = cond[1], cond[2]
        key = "variant:" + self.path(base)
        variants = self._variants_for(base)
        name = pat.split("(")[0].split("{")[0].rsplit("::", 1)[-1].strip()
        forced = self.d.force_variant.get(shape_str(base)) if self.d.force_variant else None
        if forced is not None:
            self.d.variants[key] = forced
        if key in self.d.variants:
            return name == self.d.variants[key]
        if not variants:
            return self._bool("cond:" + og.nf_str(cond)[:200], cond, True)
        idx = (zlib.crc32(key.encode()) + self.d.index) % len(variants)
        chosen = variants[idx]
        return name == chosen

    def _variants_for(self, base):
        p = self.path(base)
        if p.endswith("rust_type") and "fields" not in p:
            return ["Complex", "Simple", "Element"]
        if p.endswith("element_type"):
            return ["RustType", "ComplexType"]
        return None

    def emit(self, ev):
        sk = ev.skeleton()
        if ev.fn in (_A.HEADER_WRITER, _A.HELPERS_WRITER) or (ev.holes() and len(ev.parts) == 1 and ev.parts[0][1][0] == "const"):
            return  # the fixed text written by the header / helpers writers: supplied by the harness
        roles = self.roles(ev)
        text = ""
        hi = 0
        for p in ev.parts:
            if p[0] == "lit":
                text += p[1]
            else:
                text += self.hole_text(p[1], p[2], p[3] if len(p) > 3 else "?", roles.get(hi))
                hi += 1
        self.lines.append((text, ev.site, ev.fn))
        self.covered.add((ev.fn, ev.ev.order))
        m = re.match(r"^\s*pub struct (\w+) \{", text)
        if m:
            self.structs.append(m.group(1))
        m = re.match(r"^\s*impl (\w+) \{", text)
        if m:
            self.current_impl = m.group(1)
        # operation functions, whether written as `async fn` or as `fn .. -> <some future type>`: what is asserted is that the
        # value they return can be sent to another thread
        m = re.match(r"^\s*pub (?:async )?fn (r#)?(\w+)\(&self, req: (\w+)\)", text)
        if m and self.current_impl:
            self.methods.append((self.current_impl, (m.group(1) or "") + m.group(2), m.group(3)))
        m2 = re.match(r"^\s*pub (?:async )?fn (r#)?(\w+)\(req: (\w+), credentials", text)
        if m2:
            self.free_fns.append(((m2.group(1) or "") + m2.group(2), m2.group(3)))
        if re.match(r"^\s*pub (?:async |const |unsafe )*fn ", text) and not m and not m2 and ev.fn in self._op_emitters():
            self.problems.append(("operation-signature", ev.site, text.strip()[:120]))

    def _op_emitters(self):
        if getattr(self, "_ope", None) is None:
            from rules import anchors as A
            self._ope = tuple(x for x in (A.method_emitter(self.X), A.operation_fn_emitter(self.X)) if x)
        return self._ope

    def roles(self, ev):
        """hole index -> 'type-ref' | 'module-ref' for references to generated user types (bound to the fixture)"""
        out = {}
        sk = ev.skeleton()
        mm = T.RE_MEMBER.match(sk)
        holes = ev.holes()
        if mm:
            start = 1 if mm.group(1) == "{}" else 0
            for i in range(start, len(holes)):
                nf = self.CE.expand(holes[i][0])
                names, root = og.spine(nf)
                s = og.nf_str(nf)
                if s.endswith("rust_mod_name"):
                    out[i] = "module-ref"
                elif "xml_name" in names and nf[0] != "format":
                    out[i] = "type-ref"
        return out


def _toks(nf, out=None):
    out = [] if out is None else out
    if isinstance(nf, tuple):
        if nf and nf[0] == "tok":
            out.append(nf[1])
        for x in nf:
            if isinstance(x, tuple):
                _toks(x, out)
    return out


def _subst(nf, old, new):
    if nf == old:
        return new
    if isinstance(nf, tuple):
        return tuple(_subst(x, old, new) if isinstance(x, tuple) else x for x in nf)
    return nf


def sample(F, X, index, target_ctx=None):
    """One sample document: (text, line map [(site, fn)], methods, free fns, structs). With target_ctx (the loop/branch context of
    one emit site) the derivation is directed at that site."""
    events = [e for e in T.inline(X, T.ROOT) if e.kind == "emit"]
    tree = build_tree(events)
    d = Derivation(index, target_ctx)
    if target_ctx:
        # first pass: decisions that the target fixes are recorded under the keys all spellings of a decision share; the second
        # pass renders with those decisions in force from the first line on
        Renderer(F, X, d).render(tree)
    r = Renderer(F, X, d)
    r.render(tree)
    return r


def assemble(F, X, indices, targets=None):
    """Segments for the witness crate: header, fixture, one module per sample, helpers, witness tail with per-sample assertions."""
    from . import witness as W
    header, helpers = W.fixed_texts(F)
    segs = [W.Segment("header", header), W.Segment("fixture", FIXTURE)]
    maps = {}
    asserts = []
    renders = {}
    for i in indices:
        r = sample(F, X, i, (targets or {}).get(i))
        renders[i] = r
        body = "".join(l[0] for l in r.lines)
        text = f"#[allow(non_camel_case_types, non_snake_case, unused)]\npub mod sample_{i} {{\n    use super::*;\n    pub use super::fixture_mod::TyRef;\n" + body + "\n}\n"
        seg = W.Segment(f"sample_{i}", text)
        segs.append(seg)
        # line map: line number within the segment -> (site, fn)
        lm = {}
        ln = 5
        for (t, site, fn) in r.lines:
            n = t.count("\n")
            for k in range(max(1, n)):
                lm[ln + k] = (site, fn, t)
            ln += n
        maps[f"sample_{i}"] = lm
        for (svc, fn, req) in r.methods:
            asserts.append(f"    fn m_{i}_{len(asserts)}(s: &sample_{i}::{svc}, r: sample_{i}::{req}) {{ assert_send(&s.{fn}(r)); }}")
        for (fn, req) in r.free_fns:
            asserts.append(f"    fn f_{i}_{len(asserts)}(r: sample_{i}::{req}) {{ assert_send(&sample_{i}::{fn}(r, None)); }}")
        for st in sorted(set(x for x in r.structs if "Envelope" in x)):
            asserts.append(f"    fn s_{i}_{len(asserts)}() {{ assert_send_sync::<sample_{i}::{st}>(); }}")
    segs.append(W.Segment("helpers", helpers))
    tail = open(W.TAIL).read()
    tail = tail.rstrip()
    assert tail.endswith("}")
    tail = tail[:-1] + "\n    // ---- generated: Send obligations on the sampled client methods and envelopes\n" + "\n".join(asserts) + "\n}\n"
    segs.append(W.Segment("witness", tail))
    return segs, maps, renders, asserts
