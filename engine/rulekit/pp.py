"""Pretty printer for MIR facts (debugging and report text)."""


def place(p):
    s = f"_{p['l']}"
    for e in p.get("proj") or []:
        if e == "deref":
            s = f"(*{s})"
        elif isinstance(e, dict) and "f" in e:
            s = f"{s}.{e['f']}"
        elif isinstance(e, dict) and "downcast" in e:
            s = f"({s} as {e['downcast']})"
        else:
            s = f"{s}[{e}]"
    return s


def operand(o):
    k = o.get("k")
    if k in ("copy", "move"):
        return f"{k} {place(o['p'])}"
    if k == "const":
        return "const " + (o.get("fn_path") or o.get("text") or "?")
    return k


def rvalue(r):
    k = r["k"]
    if k == "use":
        return operand(r["op"])
    if k in ("ref", "copy_for_deref", "rawptr"):
        return f"&{place(r['p'])}" if k == "ref" else f"{k}({place(r['p'])})"
    if k == "binop":
        return f"{r['op']}({operand(r['a'])}, {operand(r['b'])})"
    if k == "unop":
        return f"{r['op']}({operand(r['a'])})"
    if k == "discr":
        return f"discriminant({place(r['p'])})"
    if k == "cast":
        return f"{operand(r['op'])} as {r['ty']} ({r['ck']})"
    if k == "aggregate":
        n = r.get("adt") or r.get("closure") or r.get("ak")
        if r.get("variant"):
            n += "::" + r["variant"]
        return f"{n}({', '.join(operand(o) for o in r['ops'])})"
    return k


def term(t):
    k = t.get("k")
    if k == "call":
        f = t["func"]
        n = f.get("inst_path") or f.get("fn_path") or operand(f)
        return f"{place(t['dest'])} = {n}({', '.join(operand(a) for a in t['args'])}) -> bb{t.get('target')}"
    if k == "switch":
        return f"switch({operand(t['discr'])}) {t['targets']} otherwise bb{t['otherwise']}"
    if k in ("goto", "drop", "false_edge", "false_unwind", "assert", "yield"):
        extra = place(t["p"]) if k == "drop" else ""
        return f"{k} {extra} -> bb{t['target']}"
    return k


def body(b, only_reachable=True):
    from .mir import Body
    B = Body(b)
    out = []
    for l in B.locals:
        out.append(f"  let _{l['i']}: {l['ty']}" + (f"  // {l['name']}" if l.get("name") else ""))
    for i, bl in enumerate(B.blocks):
        if only_reachable and i not in B.reach:
            continue
        if bl.get("cleanup"):
            continue
        out.append(f" bb{i}:")
        for s in bl["stmts"]:
            if s["k"] == "assign":
                out.append(f"    {place(s['p'])} = {rvalue(s['rv'])}")
        out.append(f"    {term(bl['term'])}   // {bl['term'].get('sp','').split('/')[-1]}")
    return "\n".join(out)
