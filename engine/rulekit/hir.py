"""HIR utilities: re-sugaring of compiler desugarings (`?`, `for`, `.await`, `format_args!`,
`format!`), generic traversal, and extraction of formatting ("write") sites.

All functions work on the JSON trees produced by factgen (typed HIR)."""

STRIP = ("DropTemps", "Use", "Type")


class Unrecognised(Exception):
    """A construct the analyser does not understand; rules report it, they never guess."""

    def __init__(self, what, node=None):
        super().__init__(what)
        self.what = what
        self.node = node


def sp(n):
    """Human-facing location of a node: the macro call site when it comes from an expansion."""
    if not isinstance(n, dict):
        return "?"
    return n.get("cs") or n.get("sp") or "?"


def is_call_to(n, *suffixes):
    """`n` is a Call whose callee path ends with one of `suffixes`."""
    if not isinstance(n, dict) or n.get("k") != "Call":
        return False
    f = n.get("f", {})
    p = f.get("path") or ""
    return any(p == s or p.endswith(s) for s in suffixes)


def callee_path(n):
    """Resolved callee of a Call / MethodCall: prefers the resolved instance (impl method)."""
    if n.get("k") == "Call":
        f = strip(n["f"])
        if f.get("k") == "Path":
            return f.get("inst_path") or f.get("path")
        return None
    if n.get("k") == "MethodCall":
        return n.get("inst_path") or n.get("path")
    return None


def decl_path(n):
    """Declared (trait-level) callee path of a Call / MethodCall."""
    if n.get("k") == "Call":
        f = strip(n["f"])
        if f.get("k") == "Path":
            return f.get("path")
        return None
    if n.get("k") == "MethodCall":
        return n.get("path")
    return None


def strip(n):
    while isinstance(n, dict) and n.get("k") in STRIP:
        n = n["e"]
    return n


def decode_template(code):
    """Decode the lowered format_args! byte code (rustc_ast_lowering/src/format.rs):
    len<0x80 literal | 0x80 u16 literal | 0xC0|bits placeholder [flags u32][width u16][prec u16][pos u16] | 0."""
    out = []
    i = 0
    implicit = 0
    b = bytes(code)
    while i < len(b):
        c = b[i]
        if c == 0:
            if i != len(b) - 1:
                raise Unrecognised("format template: data after terminator")
            break
        if c < 0x80:
            out.append(("lit", b[i + 1:i + 1 + c].decode("utf-8")))
            i += 1 + c
        elif c == 0x80:
            ln = b[i + 1] | (b[i + 2] << 8)
            out.append(("lit", b[i + 3:i + 3 + ln].decode("utf-8")))
            i += 3 + ln
        elif c & 0xC0 == 0xC0:
            bits = c & 0x3F
            i += 1
            spec = {}
            if bits & 1:
                spec["flags"] = int.from_bytes(b[i:i + 4], "little")
                i += 4
            if bits & 2:
                spec["width"] = int.from_bytes(b[i:i + 2], "little")
                i += 2
            if bits & 4:
                spec["precision"] = int.from_bytes(b[i:i + 2], "little")
                i += 2
            pos = implicit
            if bits & 8:
                pos = int.from_bytes(b[i:i + 2], "little")
                i += 2
            implicit = pos + 1
            out.append(("hole", pos, spec))
        else:
            raise Unrecognised(f"format template: unknown opcode {c:#x}")
    # coalesce adjacent literals (long literals are chunked)
    res = []
    for p in out:
        if p[0] == "lit" and res and res[-1][0] == "lit":
            res[-1] = ("lit", res[-1][1] + p[1])
        else:
            res.append(p)
    return res


def _format_args(n):
    """Recognise the lowered form of format_args!; returns a FormatArgs node or None."""
    n = strip(n)
    if n.get("k") == "Call" and is_call_to(n, "fmt::Arguments::<'a>::from_str", "fmt::Arguments::<'a>::from_str_nonconst"):
        a = strip(n["args"][0])
        if a.get("k") == "Lit" and a.get("lit") == "str":
            return {"k": "FormatArgs", "parts": [("lit", a["v"])], "holes": [], "sp": n.get("sp"), "cs": n.get("cs"),
                    "ty": n.get("ty"), "exp0": n.get("exp0")}
        return None
    if n.get("k") != "Block":
        return None
    b = n["b"]
    tail = b.get("tail")
    if tail is None:
        return None
    tail = strip(tail)
    if tail.get("k") == "Block" and tail["b"].get("unsafe") and not tail["b"]["stmts"]:
        call = strip(tail["b"]["tail"])
    else:
        return None
    if not is_call_to(call, "fmt::Arguments::<'a>::new"):
        return None
    tmpl = strip(call["args"][0])
    if tmpl.get("lit") != "bytes":
        raise Unrecognised("format_args: template is not a byte string", n)
    parts = decode_template(tmpl["v"])
    stmts = b["stmts"]
    arg_exprs = []
    argmap = []
    if stmts:
        if len(stmts) != 2 or any(s.get("k") != "Let" or not s.get("super") for s in stmts):
            raise Unrecognised("format_args: unexpected statements", n)
        tup = strip(stmts[0]["init"])
        if tup.get("k") != "Tup":
            raise Unrecognised("format_args: args tuple missing", n)
        for e in tup["es"]:
            e = strip(e)
            if e.get("k") != "AddrOf":
                raise Unrecognised("format_args: argument is not a borrow", n)
            arg_exprs.append(e["e"])
        arr = strip(stmts[1]["init"])
        if arr.get("k") != "Array":
            raise Unrecognised("format_args: argument array missing", n)
        for c in arr["es"]:
            c = strip(c)
            p = (c.get("f") or {}).get("path", "")
            if "fmt::rt::Argument" not in p:
                raise Unrecognised("format_args: unexpected argument constructor " + p, n)
            trait = p.rsplit("::", 1)[1].replace("new_", "")
            fld = strip(c["args"][0])
            if fld.get("k") != "Field":
                raise Unrecognised("format_args: unexpected argument reference", n)
            argmap.append((int(fld["name"]), trait))
    holes = []
    new_parts = []
    for p in parts:
        if p[0] == "lit":
            new_parts.append(p)
        else:
            _, pos, spec = p
            if pos >= len(argmap):
                raise Unrecognised("format_args: placeholder without argument", n)
            ai, trait = argmap[pos]
            holes.append({"arg": norm(arg_exprs[ai]), "trait": trait, "spec": spec, "index": ai})
            new_parts.append(("hole", len(holes) - 1))
    return {"k": "FormatArgs", "parts": new_parts, "holes": holes, "sp": n.get("sp"), "cs": n.get("cs"),
            "ty": n.get("ty"), "exp0": n.get("exp0")}


def _try_desugar(n):
    if n.get("k") == "Match" and str(n.get("src", "")).startswith("TryDesugar"):
        scrut = strip(n["scrut"])
        if is_call_to(scrut, "ops::Try::branch"):
            return {"k": "Try", "e": norm(scrut["args"][0]), "sp": n.get("sp"), "cs": n.get("cs"), "ty": n.get("ty"),
                    "hid": n.get("hid")}
        raise Unrecognised("?-desugaring of unexpected shape", n)
    return None


def _await_desugar(n):
    if n.get("k") == "Match" and str(n.get("src", "")).startswith("AwaitDesugar"):
        scrut = strip(n["scrut"])
        if is_call_to(scrut, "IntoFuture::into_future"):
            return {"k": "Await", "e": norm(scrut["args"][0]), "sp": n.get("sp"), "cs": n.get("cs"), "ty": n.get("ty"),
                    "hid": n.get("hid")}
        raise Unrecognised("await-desugaring of unexpected shape", n)
    return None


def _for_desugar(n):
    if n.get("k") == "Match" and str(n.get("src", "")).startswith("ForLoopDesugar"):
        scrut = strip(n["scrut"])
        if not is_call_to(scrut, "IntoIterator::into_iter"):
            raise Unrecognised("for-desugaring: no into_iter", n)
        it = scrut["args"][0]
        arm = n["arms"][0]
        loop = strip(arm["body"])
        if loop.get("k") != "Loop":
            raise Unrecognised("for-desugaring: no loop", n)
        stmts = loop["body"]["stmts"]
        inner = strip(stmts[0]["e"]) if stmts else strip(loop["body"]["tail"])
        if inner.get("k") != "Match":
            raise Unrecognised("for-desugaring: no next() match", n)
        pat = None
        body = None
        for a in inner["arms"]:
            p = a["pat"]
            pp = (p.get("path") or {}).get("path", "")
            if pp.rsplit("::", 1)[-1] == "Some":
                sub = p.get("pats") or [f["pat"] for f in p.get("fields", [])]
                pat = sub[0]
                body = a["body"]
        if pat is None:
            raise Unrecognised("for-desugaring: no Some arm", n)
        return {"k": "For", "pat": pat, "iter": norm(it), "into_iter": scrut, "body": norm(body), "sp": n.get("sp"),
                "cs": n.get("cs"), "ty": n.get("ty"), "hid": n.get("hid")}
    return None


def _format_macro(n):
    """format!(..) = must_use({ fmt::format(format_args!(..)) })"""
    if is_call_to(n, "hint::must_use") and str(n.get("exp", "")).find('"format"') >= 0:
        inner = strip(n["args"][0])
        while inner.get("k") == "Block" and not inner["b"]["stmts"] and inner["b"].get("tail"):
            inner = strip(inner["b"]["tail"])
        if is_call_to(inner, "fmt::format"):
            fa = _format_args(inner["args"][0])
            if fa is None:
                raise Unrecognised("format!: arguments not recognised", n)
            return {"k": "Format", "fa": fa, "sp": n.get("sp"), "cs": n.get("cs"), "ty": n.get("ty"), "hid": n.get("hid")}
    return None


def _chain_parts(c):
    """the conjuncts of a condition that is a chain `a && let P = e && b ..` holding at least one `let`, else None"""
    c = strip(c)
    parts = []

    def flat(x):
        x = strip(x)
        if x.get("k") == "Binary" and x.get("op") == "And":
            flat(x["a"])
            flat(x["b"])
        else:
            parts.append(x)
    flat(c)
    if len(parts) > 1 and any(p.get("k") == "LetExpr" for p in parts):
        return parts
    return None


def _let_chain_desugar(n):
    """`if a && let P = e && b { T } else { E }` reads as the nested ifs it stands for: `if a { if let P = e { if b { T } else { E } }
    else { E } } else { E }` (the bindings of a `let` are in scope of what follows it; E is shared, not copied)"""
    if n.get("k") != "If":
        return None
    parts = _chain_parts(n["cond"])
    if parts is None:
        return None
    els = norm(n["else"]) if n.get("else") is not None else None
    cur = norm(n["then"])
    for part in reversed(parts):
        node = {"k": "If", "cond": norm(part), "then": cur, "sp": n.get("sp"), "ty": n.get("ty"), "chain": True}
        if els is not None:
            node["else"] = els
        cur = node
    return cur


def norm(n):
    """Return a re-sugared deep copy of a HIR expression tree."""
    if isinstance(n, list):
        return [norm(x) for x in n]
    if not isinstance(n, dict):
        return n
    if "k" in n:
        n = strip(n)
        for f in (_try_desugar, _await_desugar, _for_desugar, _format_macro, _let_chain_desugar):
            r = f(n)
            if r is not None:
                return r
        fa = _format_args(n)
        if fa is not None:
            return fa
    out = {}
    for k, v in n.items():
        if isinstance(v, (dict, list)):
            out[k] = norm(v)
        else:
            out[k] = v
    if out.get("k") == "Struct" and isinstance(out.get("path"), dict) and out["path"].get("res") == "self" and out.get("ty"):
        # `Self { .. }` inside an impl: the struct literal of the type it stands for
        ty = str(out["ty"]).split("<", 1)[0].strip()
        out["path"] = dict(out["path"], path=ty, res="def", self_alias=True)
    return out


CHILD_KEYS = ("e", "f", "args", "recv", "es", "a", "b", "cond", "then", "else", "scrut", "arms", "body", "init", "els",
              "stmts", "tail", "fields", "base", "guard", "iter", "value", "pat", "holes", "arg", "fa", "params")


def children(n):
    """Direct child expression nodes (any dict/list under structural keys)."""
    if isinstance(n, list):
        for x in n:
            yield x
        return
    if not isinstance(n, dict):
        return
    for k, v in n.items():
        if k in ("into_iter",):
            continue
        if isinstance(v, dict):
            yield v
        elif isinstance(v, list):
            for x in v:
                if isinstance(x, (dict, list)):
                    yield x


def walk(n):
    """Pre-order walk over all dict nodes of a (normalised) tree, closures included."""
    stack = [n]
    while stack:
        x = stack.pop()
        if isinstance(x, dict):
            yield x
            stack.extend(reversed(list(children(x))))
        elif isinstance(x, list):
            stack.extend(reversed(x))


def exprs(n):
    for x in walk(n):
        if "k" in x:
            yield x


def fmt_pieces_text(fa, hole_text=lambda i, h: "{}"):
    s = ""
    for p in fa["parts"]:
        if p[0] == "lit":
            s += p[1]
        else:
            s += hole_text(p[1], fa["holes"][p[1]])
    return s


def describe(n, depth=0):
    """Compact source-like rendering of a normalised expression (for reports and keys)."""
    if n is None:
        return "∅"
    if isinstance(n, list):
        return ", ".join(describe(x, depth) for x in n)
    n = strip(n)
    k = n.get("k")
    if depth > 6:
        return "…"
    d = lambda x: describe(x, depth + 1)
    if k == "Path":
        if n.get("res") == "local":
            return n.get("name", "?")
        return (n.get("path") or n.get("res") or "?")
    if k == "Field":
        return f"{d(n['e'])}.{n['name']}"
    if k == "MethodCall":
        return f"{d(n['recv'])}.{n['name']}({d(n['args'])})"
    if k == "Call":
        return f"{d(n['f'])}({d(n['args'])})"
    if k == "Lit":
        return repr(n.get("v"))
    if k == "AddrOf":
        return "&" + d(n["e"])
    if k == "Unary":
        return {"Deref": "*", "Not": "!", "Neg": "-"}.get(n["op"], n["op"]) + d(n["e"])
    if k == "Binary":
        return f"({d(n['a'])} {n['op']} {d(n['b'])})"
    if k == "Try":
        return d(n["e"]) + "?"
    if k == "Await":
        return d(n["e"]) + ".await"
    if k == "Format":
        return "format!(" + repr(fmt_pieces_text(n["fa"], lambda i, h: "{" + d(h["arg"]) + "}")) + ")"
    if k == "FormatArgs":
        return "format_args!(" + repr(fmt_pieces_text(n, lambda i, h: "{" + d(h["arg"]) + "}")) + ")"
    if k == "Closure":
        return "|..| " + d(n["body"]["value"])
    if k == "Block":
        t = n["b"].get("tail")
        return "{…" + (d(t) if t else "") + "}"
    if k == "Tup":
        return "(" + d(n["es"]) + ")"
    if k == "If":
        return f"if {d(n['cond'])} {{…}}"
    if k == "Match":
        return f"match {d(n['scrut'])} {{…}}"
    if k == "LetExpr":
        return f"let {pat_desc(n['pat'])} = {d(n['init'])}"
    if k == "Struct":
        return (n["path"].get("path") or "?") + "{…}"
    if k == "Cast":
        return d(n["e"]) + " as _"
    if k == "Index":
        return f"{d(n['a'])}[{d(n['b'])}]"
    return str(k)


def pat_desc(p):
    k = p.get("k")
    if k == "Binding":
        return p["name"]
    if k in ("TupleStruct",):
        return (p["path"].get("path") or "?").rsplit("::", 1)[-1] + "(" + ", ".join(pat_desc(x) for x in p["pats"]) + ")"
    if k == "Tuple":
        return "(" + ", ".join(pat_desc(x) for x in p["pats"]) + ")"
    if k == "Struct":
        return (p["path"].get("path") or "?").rsplit("::", 1)[-1] + "{" + ", ".join(f["name"] for f in p["fields"]) + "}"
    if k == "Expr":
        return repr(p.get("v")) if "v" in p else (p.get("path") or {}).get("path", "?")
    if k == "Wild":
        return "_"
    if k == "Ref":
        return "&" + pat_desc(p["pat"])
    if k == "Or":
        return " | ".join(pat_desc(x) for x in p["pats"])
    return str(k)


def pat_bindings(p):
    """All (id, name) bound by a pattern."""
    out = []
    for x in walk(p):
        if x.get("k") == "Binding":
            out.append((x["id"], x["name"]))
    return out


_NORM_CACHE = {}


def norm_body(body):
    """Normalised HIR of a fact body (cached by identity)."""
    key = id(body)
    if key not in _NORM_CACHE:
        h = body.get("hir")
        _NORM_CACHE[key] = None if h is None else {"params": h["params"], "value": norm(h["value"])}
    return _NORM_CACHE[key]


def write_sites(nb):
    """All formatting sites in a normalised body, in source order:
    write!/writeln! into a sink (MethodCall write_fmt), format!, and bare format_args!."""
    out = []
    seen_fa = set()
    for x in exprs(nb["value"]):
        if x.get("k") == "MethodCall" and x.get("name") == "write_fmt":
            fa = x["args"][0]
            if fa.get("k") != "FormatArgs":
                raise Unrecognised("write_fmt with non-literal arguments", x)
            seen_fa.add(id(fa))
            out.append({"kind": "write", "sink": x["recv"], "fa": fa, "node": x, "decl": x.get("path"),
                        "macro": fa.get("exp0")})
        elif x.get("k") == "Format":
            seen_fa.add(id(x["fa"]))
            out.append({"kind": "format", "fa": x["fa"], "node": x})
        elif x.get("k") == "FormatArgs" and id(x) not in seen_fa:
            out.append({"kind": "format_args", "fa": x, "node": x})
    return out
