use crate::ctx::Cx;
use crate::json::J;
use crate::obj;
use rustc_hir::def::DefKind;
use rustc_hir::def_id::DefId;
use rustc_middle::ty;

fn assoc_fns<'tcx>(cx: &Cx<'tcx>, container: DefId) -> J {
    let tcx = cx.tcx;
    let mut v = vec![];
    for it in tcx.associated_items(container).in_definition_order() {
        if !matches!(it.kind, ty::AssocKind::Fn { .. }) {
            continue;
        }
        v.push(obj! {
            "name": J::s(it.name().to_string()),
            "provided": J::Bool(it.defaultness(tcx).has_value()),
            "path": J::s(cx.path_of(it.def_id)),
            "of_trait_item": it.trait_item_def_id().map(|d| J::s(cx.path_of(d))).unwrap_or(J::Null),
        });
    }
    J::Arr(v)
}

pub fn dump_items<'tcx>(cx: &mut Cx<'tcx>) -> J {
    let tcx = cx.tcx;
    let mut structs = vec![];
    let mut enums = vec![];
    let mut traits = vec![];
    let mut impls = vec![];
    let mut consts = vec![];
    let mut modules = vec![];
    let mut fns = vec![];

    let defs: Vec<_> = tcx.hir_crate_items(()).definitions().collect();
    for ldef in defs {
        let def = ldef.to_def_id();
        let kind = tcx.def_kind(def);
        match kind {
            DefKind::Struct | DefKind::Enum | DefKind::Union => {
                let adt = tcx.adt_def(def);
                let mut variants = vec![];
                for v in adt.variants() {
                    let mut fields = vec![];
                    for f in v.fields.iter() {
                        let fty = tcx.type_of(f.did).instantiate_identity().skip_norm_wip();
                        fields.push(obj! {
                            "name": J::s(f.name.to_string()),
                            "ty": J::s(cx.ty_str(fty)),
                            "vis": J::s(format!("{:?}", f.vis)),
                        });
                    }
                    variants.push(obj! {
                        "name": J::s(v.name.to_string()),
                        "fields": J::Arr(fields),
                    });
                }
                let j = obj! {
                    "path": J::s(cx.path_of(def)),
                    "variants": J::Arr(variants),
                    "span": J::s(cx.span_str(tcx.def_span(def))),
                    "vis": J::s(format!("{:?}", tcx.visibility(def))),
                };
                if kind == DefKind::Enum {
                    enums.push(j)
                } else {
                    structs.push(j)
                }
            }
            DefKind::Trait => {
                traits.push(obj! {
                    "path": J::s(cx.path_of(def)),
                    "methods": assoc_fns(cx, def),
                    "span": J::s(cx.span_str(tcx.def_span(def))),
                });
            }
            DefKind::Impl { of_trait } => {
                let self_ty = tcx.type_of(def).instantiate_identity().skip_norm_wip();
                let (trait_path, trait_ref, trait_methods) = if of_trait {
                    let tr = tcx.impl_trait_ref(def).instantiate_identity().skip_norm_wip();
                    (
                        J::s(cx.path_of(tr.def_id)),
                        J::s(rustc_middle::ty::print::with_no_trimmed_paths!(tr.to_string())),
                        assoc_fns(cx, tr.def_id),
                    )
                } else {
                    (J::Null, J::Null, J::Null)
                };
                let span = tcx.def_span(def);
                let from_exp = span.from_expansion();
                // trait bounds on the implementing type itself (`impl<I: Bound> Trait for I`): which types a blanket impl covers
                let mut self_bounds: Vec<J> = Vec::new();
                for (clause, _) in tcx.predicates_of(def).predicates.iter() {
                    if let Some(tp) = clause.as_trait_clause() {
                        let tp = tp.skip_binder();
                        if tp.self_ty() == self_ty {
                            self_bounds.push(J::s(cx.path_of(tp.def_id())));
                        }
                    }
                }
                impls.push(obj! {
                    "path": J::s(cx.path_of(def)),
                    "self_bounds": J::Arr(self_bounds),
                    "trait": trait_path,
                    "trait_ref": trait_ref,
                    "self_ty": J::s(cx.ty_str(self_ty)),
                    "methods": assoc_fns(cx, def),
                    "trait_methods": trait_methods,
                    "span": J::s(cx.span_str(span)),
                    "expn": J::Bool(from_exp),
                    "module": J::s(cx.path_of(tcx.parent_module_from_def_id(ldef).to_def_id())),
                });
            }
            DefKind::Const { .. } | DefKind::AssocConst { .. } | DefKind::Static { .. } => {
                let ty = tcx.type_of(def).instantiate_identity().skip_norm_wip();
                let ty_s = cx.ty_str(ty);
                let mut value = J::Null;
                if ty_s == "&str" || ty_s == "&'static str" {
                    if let Ok(cv) = tcx.const_eval_poly(def) {
                        if matches!(cv, rustc_middle::mir::ConstValue::Slice { .. } | rustc_middle::mir::ConstValue::Indirect { .. }) {
                            if let Some(bytes) = cv.try_get_slice_bytes_for_diagnostics(tcx) {
                                value = J::s(String::from_utf8_lossy(bytes).to_string());
                            }
                        }
                    }
                }
                consts.push(obj! {
                    "path": J::s(cx.path_of(def)),
                    "ty": J::s(ty_s),
                    "value": value,
                    "span": J::s(cx.span_str(tcx.def_span(def))),
                });
            }
            DefKind::Mod => {
                let (m, sp, _) = tcx.hir_get_module(rustc_hir::def_id::LocalModDefId::new_unchecked(ldef));
                modules.push(obj! {
                    "path": J::s(cx.path_of(def)),
                    "file": J::s(cx.span_str(m.spans.inner_span)),
                    "span": J::s(cx.span_str(sp)),
                });
            }
            DefKind::Fn | DefKind::AssocFn => {
                let sig = tcx.fn_sig(def).instantiate_identity().skip_norm_wip();
                let sig = sig.skip_binder();
                let gens = tcx.generics_of(def);
                let gen_names: Vec<J> = (0..gens.count()).map(|i| J::s(gens.param_at(i, tcx).name.to_string())).collect();
                fns.push(obj! {
                    "path": J::s(cx.path_of(def)),
                    "generics": J::Arr(gen_names),
                    "vis": J::s(format!("{:?}", tcx.visibility(def))),
                    "inputs": J::Arr(sig.inputs().iter().map(|t| J::s(cx.ty_str(*t))).collect()),
                    "output": J::s(cx.ty_str(sig.output())),
                    "asyncness": J::Bool(tcx.asyncness(def).is_async()),
                    "span": J::s(cx.span_str(tcx.def_span(def))),
                    "module": J::s(cx.path_of(tcx.parent_module_from_def_id(ldef).to_def_id())),
                });
            }
            _ => {}
        }
    }
    obj! {
        "structs": J::Arr(structs),
        "enums": J::Arr(enums),
        "traits": J::Arr(traits),
        "impls": J::Arr(impls),
        "consts": J::Arr(consts),
        "modules": J::Arr(modules),
        "fns": J::Arr(fns),
    }
}
