use crate::json::J;
use crate::obj;
use rustc_hir::def::DefKind;
use rustc_hir::def_id::DefId;
use rustc_middle::ty::print::with_no_trimmed_paths;
use rustc_middle::ty::{self, GenericArgsRef, Ty, TyCtxt};
use rustc_span::Span;
use std::collections::HashMap;

pub struct Cx<'tcx> {
    pub tcx: TyCtxt<'tcx>,
    def_index: HashMap<DefId, usize>,
    defs: Vec<J>,
}

impl<'tcx> Cx<'tcx> {
    pub fn new(tcx: TyCtxt<'tcx>) -> Self {
        Cx { tcx, def_index: HashMap::new(), defs: vec![] }
    }

    pub fn path_of(&self, def: DefId) -> String {
        with_no_trimmed_paths!(self.tcx.def_path_str(def))
    }

    pub fn ty_str(&self, ty: Ty<'tcx>) -> String {
        with_no_trimmed_paths!(ty.to_string())
    }

    pub fn args_json(&self, args: GenericArgsRef<'tcx>) -> J {
        J::Arr(args.iter().map(|a| J::s(with_no_trimmed_paths!(a.to_string()))).collect())
    }

    /// Index of `def` in the per-crate definition table (created on first use).
    pub fn def_idx(&mut self, def: DefId) -> usize {
        if let Some(i) = self.def_index.get(&def) {
            return *i;
        }
        let tcx = self.tcx;
        let kind = tcx.def_kind(def);
        let path = self.path_of(def);
        let krate = tcx.crate_name(def.krate).to_string();
        let name = tcx.opt_item_name(def).map(|s| s.to_string());
        // trait a method belongs to (declaration in the trait, or item of a trait impl)
        let mut trait_path = None;
        let mut self_ty = None;
        let mut container = None;
        if matches!(kind, DefKind::AssocFn | DefKind::AssocConst { .. } | DefKind::AssocTy) {
            let parent = tcx.parent(def);
            match tcx.def_kind(parent) {
                DefKind::Trait => {
                    trait_path = Some(self.path_of(parent));
                    container = Some("trait");
                }
                DefKind::Impl { of_trait } => {
                    if of_trait {
                        let tr = tcx.impl_trait_ref(parent).skip_binder();
                        trait_path = Some(self.path_of(tr.def_id));
                        container = Some("trait_impl");
                    } else {
                        container = Some("inherent_impl");
                    }
                    let st = tcx.type_of(parent).skip_binder();
                    self_ty = Some(self.ty_str(st));
                }
                _ => {}
            }
        }
        let local = def.is_local();
        let j = obj! {
            "path": J::s(path),
            "crate": J::s(krate),
            "name": J::opt_s(name),
            "kind": J::s(format!("{:?}", kind)),
            "trait": J::opt_s(trait_path),
            "self_ty": J::opt_s(self_ty),
            "container": container.map(J::s).unwrap_or(J::Null),
            "local": J::Bool(local),
        };
        let i = self.defs.len();
        self.defs.push(j);
        self.def_index.insert(def, i);
        i
    }

    pub fn defs_json(&mut self) -> J {
        J::Arr(std::mem::take(&mut self.defs))
    }

    /// file:line:col of the start of `span` (as written, i.e. inside a macro definition if it
    /// comes from one).
    pub fn span_str(&self, span: Span) -> String {
        let sm = self.tcx.sess.source_map();
        let lo = sm.lookup_char_pos(span.lo());
        let file = match &lo.file.name {
            rustc_span::FileName::Real(r) => match r.local_path() {
                Some(p) => p.to_string_lossy().to_string(),
                None => format!("{:?}", lo.file.name),
            },
            other => format!("{:?}", other),
        };
        format!("{}:{}:{}", file, lo.line, lo.col.0 + 1)
    }

    /// Source text of a span, when available.
    pub fn snippet(&self, span: Span) -> Option<String> {
        self.tcx.sess.source_map().span_to_snippet(span).ok()
    }

    /// Resolve (def, args) to the concrete instance if possible; returns the instance's def.
    pub fn resolve(
        &self,
        owner: rustc_hir::def_id::LocalDefId,
        def: DefId,
        args: GenericArgsRef<'tcx>,
    ) -> Option<DefId> {
        let tcx = self.tcx;
        if !matches!(tcx.def_kind(def), DefKind::Fn | DefKind::AssocFn) {
            return None;
        }
        if tcx.generics_of(def).count() != args.len() {
            return None;
        }
        let env = ty::TypingEnv::post_analysis(tcx, owner);
        let args = tcx.erase_and_anonymize_regions(args);
        let args = tcx.try_normalize_erasing_regions(env, rustc_middle::ty::Unnormalized::new_wip(args)).ok()?;
        match ty::Instance::try_resolve(tcx, env, def, args) {
            Ok(Some(inst)) => Some(inst.def_id()),
            _ => None,
        }
    }
}
