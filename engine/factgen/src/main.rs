//! factgen: rustc_private driver that dumps the resolved program (items, typed HIR, built MIR,
//! compiler-evaluated string constants) of workspace crates as one JSON file per crate.
//!
//! Usage: RUSTC_WORKSPACE_WRAPPER=<this> FACTGEN_OUT=<dir> cargo +nightly check --offline
//! (cargo invokes `<this> <rustc> <args..>`; argv[1] is dropped).
#![feature(rustc_private)]
#![allow(clippy::all)]

extern crate rustc_abi;
extern crate rustc_ast;
extern crate rustc_data_structures;
extern crate rustc_driver;
extern crate rustc_hir;
extern crate rustc_index;
extern crate rustc_interface;
extern crate rustc_middle;
extern crate rustc_session;
extern crate rustc_span;

mod ctx;
mod hirdump;
mod items;
mod json;
mod mirdump;

use json::J;
use rustc_driver::{Callbacks, Compilation};
use rustc_interface::interface::Compiler;
use rustc_middle::ty::TyCtxt;

struct Factgen {
    out_dir: String,
}

impl Callbacks for Factgen {
    fn after_expansion<'tcx>(&mut self, _c: &Compiler, tcx: TyCtxt<'tcx>) -> Compilation {
        let crate_name = tcx.crate_name(rustc_span::def_id::LOCAL_CRATE).to_string();
        if crate_name.starts_with("build_script") {
            return Compilation::Continue;
        }
        let mut cx = ctx::Cx::new(tcx);
        // bodies first: evaluating constants (items) steals the MIR of the constants involved
        let bodies = dump_bodies(&mut cx);
        let items = items::dump_items(&mut cx);
        let defs = cx.defs_json();
        let root = obj! {
            "crate": J::s(crate_name.clone()),
            "toolchain": J::s(option_env!("CFG_VERSION").unwrap_or("nightly").to_string()),
            "items": items,
            "bodies": bodies,
            "defs": defs,
        };
        let mut s = String::with_capacity(1 << 22);
        root.write(&mut s);
        let path = format!("{}/{}.json", self.out_dir, crate_name);
        let tmp = format!("{}.tmp{}", path, std::process::id());
        std::fs::write(&tmp, s).expect("factgen: cannot write facts");
        std::fs::rename(&tmp, &path).expect("factgen: cannot rename facts");
        Compilation::Continue
    }
}

fn dump_bodies<'tcx>(cx: &mut ctx::Cx<'tcx>) -> J {
    let tcx = cx.tcx;
    let mut out = vec![];
    let owners: Vec<_> = tcx.hir_body_owners().collect();
    // First pass: build and clone every MIR body before any other query runs. Later queries (instance
    // resolution, auto-trait checks on coroutines, const evaluation) may steal `mir_built` of other bodies.
    let mut mirs = std::collections::HashMap::new();
    for def in &owners {
        let steal = tcx.mir_built(*def);
        if !steal.is_stolen() {
            mirs.insert(*def, steal.borrow().clone());
        }
    }
    for def in owners {
        let kind = tcx.def_kind(def);
        let path = cx.path_of(def.to_def_id());
        let is_closure = tcx.is_closure_like(def.to_def_id());
        // HIR: closures are rendered inline in their parent, so only non-closure owners get a HIR tree.
        let hir = if is_closure { J::Null } else { hirdump::dump_body(cx, def) };
        let mir = match mirs.get(&def) { Some(b) => mirdump::dump_mir(cx, def, b), None => J::Null };
        let span = cx.span_str(tcx.def_span(def));
        let parent = if is_closure {
            J::s(cx.path_of(tcx.local_parent(def).to_def_id()))
        } else {
            J::Null
        };
        let upvars = if is_closure {
            J::Arr(
                tcx.closure_captures(def)
                    .iter()
                    .map(|c| J::s(c.to_symbol().to_string()))
                    .collect(),
            )
        } else {
            J::Null
        };
        let vis = match kind {
            rustc_hir::def::DefKind::Fn | rustc_hir::def::DefKind::AssocFn => {
                J::s(format!("{:?}", tcx.visibility(def)))
            }
            _ => J::Null,
        };
        out.push(obj! {
            "path": J::s(path),
            "def": J::Int(cx.def_idx(def.to_def_id()) as i128),
            "kind": J::s(format!("{:?}", kind)),
            "closure": J::Bool(is_closure),
            "parent": parent,
            "upvars": upvars,
            "vis": vis,
            "span": J::s(span),
            "hir": hir,
            "mir": mir,
        });
    }
    J::Arr(out)
}

fn main() -> std::process::ExitCode {
    let mut args: Vec<String> = std::env::args().collect();
    // RUSTC_WORKSPACE_WRAPPER: argv[1] is the real rustc path.
    if args.len() > 1 && (args[1].ends_with("rustc") || args[1].contains("/rustc")) {
        args.remove(1);
    }
    let out_dir = std::env::var("FACTGEN_OUT").ok();
    let is_probe = args.iter().any(|a| a == "-vV" || a.starts_with("--print"));
    let code = rustc_driver::catch_with_exit_code(|| match (&out_dir, is_probe) {
        (Some(dir), false) => {
            let mut cb = Factgen { out_dir: dir.clone() };
            rustc_driver::run_compiler(&args, &mut cb)
        }
        _ => {
            struct Nop;
            impl Callbacks for Nop {}
            rustc_driver::run_compiler(&args, &mut Nop)
        }
    });
    code
}
