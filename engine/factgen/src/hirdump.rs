//! Typed HIR expression trees as JSON.
use crate::ctx::Cx;
use crate::json::J;
use crate::obj;
use rustc_ast::LitKind;
use rustc_hir as hir;
use rustc_hir::def::{DefKind, Res};
use rustc_hir::def_id::LocalDefId;
use rustc_middle::ty::TypeckResults;
use rustc_span::Span;

pub fn dump_body<'tcx>(cx: &mut Cx<'tcx>, def: LocalDefId) -> J {
    let tcx = cx.tcx;
    let Some(body) = tcx.hir_maybe_body_owned_by(def) else { return J::Null };
    let typeck = tcx.typeck(def);
    let mut d = D { cx, typeck, owner: def };
    d.body(body)
}

struct D<'a, 'tcx> {
    cx: &'a mut Cx<'tcx>,
    typeck: &'tcx TypeckResults<'tcx>,
    owner: LocalDefId,
}

impl<'a, 'tcx> D<'a, 'tcx> {
    fn body(&mut self, body: &'tcx hir::Body<'tcx>) -> J {
        let params = body.params.iter().map(|p| self.pat(p.pat)).collect();
        obj! { "params": J::Arr(params), "value": self.expr(body.value) }
    }

    fn span_fields(&self, span: Span, v: &mut Vec<(&'static str, J)>) {
        v.push(("sp", J::s(self.cx.span_str(span))));
        if span.from_expansion() {
            let data = span.ctxt().outer_expn_data();
            v.push(("cs", J::s(self.cx.span_str(span.source_callsite()))));
            v.push(("exp", J::s(format!("{:?}", data.kind))));
            // outermost macro in the chain (e.g. `writeln` for spans inside format_args inside writeln)
            let mut outer = data.clone();
            let mut s = span;
            loop {
                let d = s.ctxt().outer_expn_data();
                if d.call_site.from_expansion() {
                    s = d.call_site;
                    outer = s.ctxt().outer_expn_data();
                } else {
                    break;
                }
            }
            v.push(("exp0", J::s(format!("{:?}", outer.kind))));
        }
    }

    fn res(&mut self, res: Res, v: &mut Vec<(&'static str, J)>) {
        match res {
            Res::Local(hid) => {
                v.push(("res", J::s("local")));
                v.push(("id", J::Int(hid.local_id.as_u32() as i128)));
                v.push(("name", J::s(self.cx.tcx.hir_name(hid).to_string())));
            }
            Res::Def(kind, did) => {
                v.push(("res", J::s("def")));
                v.push(("dk", J::s(format!("{:?}", kind))));
                v.push(("def", J::Int(self.cx.def_idx(did) as i128)));
                v.push(("path", J::s(self.cx.path_of(did))));
                if let DefKind::Ctor(..) = kind {
                    // record the variant / struct the constructor belongs to
                    let p = self.cx.tcx.parent(did);
                    v.push(("ctor_of", J::s(self.cx.path_of(p))));
                }
            }
            Res::SelfCtor(did) | Res::SelfTyAlias { alias_to: did, .. } => {
                v.push(("res", J::s("self")));
                v.push(("path", J::s(self.cx.path_of(did))));
            }
            Res::PrimTy(p) => {
                v.push(("res", J::s("prim")));
                v.push(("path", J::s(p.name_str().to_string())));
            }
            other => {
                v.push(("res", J::s(format!("{:?}", other))));
            }
        }
    }

    fn qpath(&mut self, qpath: &hir::QPath<'tcx>, hir_id: hir::HirId, v: &mut Vec<(&'static str, J)>) {
        let res = self.typeck.qpath_res(qpath, hir_id);
        self.res(res, v);
        if let Res::Def(kind, did) = res {
            if matches!(kind, DefKind::Fn | DefKind::AssocFn) {
                let args = self.typeck.node_args(hir_id);
                v.push(("gargs", self.cx.args_json(args)));
                if let Some(inst) = self.cx.resolve(self.owner, did, args) {
                    if inst != did {
                        v.push(("inst", J::Int(self.cx.def_idx(inst) as i128)));
                        v.push(("inst_path", J::s(self.cx.path_of(inst))));
                    }
                }
            }
        }
    }

    fn lit(&self, lit: &hir::Lit, v: &mut Vec<(&'static str, J)>) {
        match &lit.node {
            LitKind::Str(s, _) => {
                v.push(("lit", J::s("str")));
                v.push(("v", J::s(s.as_str().to_string())));
            }
            LitKind::ByteStr(b, _) | LitKind::CStr(b, _) => {
                v.push(("lit", J::s("bytes")));
                v.push(("v", J::Arr(b.as_byte_str().iter().map(|x| J::Int(*x as i128)).collect())));
            }
            LitKind::Byte(b) => {
                v.push(("lit", J::s("byte")));
                v.push(("v", J::Int(*b as i128)));
            }
            LitKind::Char(c) => {
                v.push(("lit", J::s("char")));
                v.push(("v", J::s(c.to_string())));
            }
            LitKind::Int(i, _) => {
                v.push(("lit", J::s("int")));
                v.push(("v", J::Int(i.get() as i128)));
            }
            LitKind::Float(s, _) => {
                v.push(("lit", J::s("float")));
                v.push(("v", J::s(s.as_str().to_string())));
            }
            LitKind::Bool(b) => {
                v.push(("lit", J::s("bool")));
                v.push(("v", J::Bool(*b)));
            }
            LitKind::Err(_) => v.push(("lit", J::s("err"))),
        }
    }

    fn block(&mut self, b: &'tcx hir::Block<'tcx>) -> J {
        let mut stmts = vec![];
        for s in b.stmts {
            match s.kind {
                hir::StmtKind::Let(l) => {
                    let mut v: Vec<(&'static str, J)> = vec![("k", J::s("Let"))];
                    v.push(("pat", self.pat(l.pat)));
                    if let Some(i) = l.init {
                        v.push(("init", self.expr(i)));
                    }
                    if let Some(e) = l.els {
                        v.push(("els", self.block(e)));
                    }
                    if l.super_.is_some() {
                        v.push(("super", J::Bool(true)));
                    }
                    v.push(("src", J::s(format!("{:?}", l.source))));
                    self.span_fields(s.span, &mut v);
                    stmts.push(J::Obj(v));
                }
                hir::StmtKind::Item(_) => {
                    stmts.push(obj! {"k": J::s("Item")});
                }
                hir::StmtKind::Expr(e) => {
                    stmts.push(obj! {"k": J::s("Expr"), "e": self.expr(e)});
                }
                hir::StmtKind::Semi(e) => {
                    stmts.push(obj! {"k": J::s("Semi"), "e": self.expr(e)});
                }
            }
        }
        let tail = b.expr.map(|e| self.expr(e)).unwrap_or(J::Null);
        let unsafe_ = !matches!(b.rules, hir::BlockCheckMode::DefaultBlock);
        obj! { "stmts": J::Arr(stmts), "tail": tail, "unsafe": if unsafe_ { J::Bool(true) } else { J::Null } }
    }

    fn exprs(&mut self, es: &'tcx [hir::Expr<'tcx>]) -> J {
        J::Arr(es.iter().map(|e| self.expr(e)).collect())
    }

    pub fn expr(&mut self, e: &'tcx hir::Expr<'tcx>) -> J {
        use hir::ExprKind as K;
        let mut v: Vec<(&'static str, J)> = vec![];
        let kind_name: &'static str;
        match &e.kind {
            K::ConstBlock(_) => kind_name = "ConstBlock",
            K::Array(es) => {
                kind_name = "Array";
                v.push(("es", self.exprs(es)));
            }
            K::Call(f, args) => {
                kind_name = "Call";
                v.push(("f", self.expr(f)));
                v.push(("args", self.exprs(args)));
            }
            K::MethodCall(seg, recv, args, _) => {
                kind_name = "MethodCall";
                v.push(("name", J::s(seg.ident.name.to_string())));
                v.push(("recv", self.expr(recv)));
                v.push(("args", self.exprs(args)));
                if let Some(did) = self.typeck.type_dependent_def_id(e.hir_id) {
                    v.push(("def", J::Int(self.cx.def_idx(did) as i128)));
                    v.push(("path", J::s(self.cx.path_of(did))));
                    let gargs = self.typeck.node_args(e.hir_id);
                    v.push(("gargs", self.cx.args_json(gargs)));
                    if let Some(inst) = self.cx.resolve(self.owner, did, gargs) {
                        if inst != did {
                            v.push(("inst", J::Int(self.cx.def_idx(inst) as i128)));
                            v.push(("inst_path", J::s(self.cx.path_of(inst))));
                        }
                    }
                }
            }
            K::Use(x, _) => {
                kind_name = "Use";
                v.push(("e", self.expr(x)));
            }
            K::Tup(es) => {
                kind_name = "Tup";
                v.push(("es", self.exprs(es)));
            }
            K::Binary(op, a, b) => {
                kind_name = "Binary";
                v.push(("op", J::s(format!("{:?}", op.node))));
                v.push(("a", self.expr(a)));
                v.push(("b", self.expr(b)));
            }
            K::Unary(op, a) => {
                kind_name = "Unary";
                v.push(("op", J::s(format!("{:?}", op))));
                v.push(("e", self.expr(a)));
            }
            K::Lit(l) => {
                kind_name = "Lit";
                self.lit(l, &mut v);
            }
            K::Cast(x, _) => {
                kind_name = "Cast";
                v.push(("e", self.expr(x)));
            }
            K::Type(x, _) => {
                kind_name = "Type";
                v.push(("e", self.expr(x)));
            }
            K::DropTemps(x) => {
                kind_name = "DropTemps";
                v.push(("e", self.expr(x)));
            }
            K::Let(l) => {
                kind_name = "LetExpr";
                v.push(("pat", self.pat(l.pat)));
                v.push(("init", self.expr(l.init)));
            }
            K::If(c, t, f) => {
                kind_name = "If";
                v.push(("cond", self.expr(c)));
                v.push(("then", self.expr(t)));
                if let Some(f) = f {
                    v.push(("else", self.expr(f)));
                }
            }
            K::Loop(b, _, src, _) => {
                kind_name = "Loop";
                v.push(("src", J::s(format!("{:?}", src))));
                v.push(("body", self.block(b)));
            }
            K::Match(s, arms, src) => {
                kind_name = "Match";
                v.push(("src", J::s(format!("{:?}", src))));
                v.push(("scrut", self.expr(s)));
                let mut av = vec![];
                for a in *arms {
                    av.push(obj! {
                        "pat": self.pat(a.pat),
                        "guard": a.guard.map(|g| self.expr(g)).unwrap_or(J::Null),
                        "body": self.expr(a.body),
                    });
                }
                v.push(("arms", J::Arr(av)));
            }
            K::Closure(c) => {
                kind_name = "Closure";
                let tcx = self.cx.tcx;
                let body = tcx.hir_body(c.body);
                v.push(("def_path", J::s(self.cx.path_of(c.def_id.to_def_id()))));
                v.push(("ckind", J::s(format!("{:?}", c.kind))));
                // closures share the typeck results of their root
                let b = self.body(body);
                v.push(("body", b));
            }
            K::Block(b, _) => {
                kind_name = "Block";
                v.push(("b", self.block(b)));
            }
            K::Assign(a, b, _) => {
                kind_name = "Assign";
                v.push(("a", self.expr(a)));
                v.push(("b", self.expr(b)));
            }
            K::AssignOp(op, a, b) => {
                kind_name = "AssignOp";
                v.push(("op", J::s(format!("{:?}", op.node))));
                v.push(("a", self.expr(a)));
                v.push(("b", self.expr(b)));
            }
            K::Field(x, id) => {
                kind_name = "Field";
                v.push(("e", self.expr(x)));
                v.push(("name", J::s(id.name.to_string())));
            }
            K::Index(a, b, _) => {
                kind_name = "Index";
                v.push(("a", self.expr(a)));
                v.push(("b", self.expr(b)));
            }
            K::Path(qp) => {
                kind_name = "Path";
                self.qpath(qp, e.hir_id, &mut v);
            }
            K::AddrOf(_, m, x) => {
                kind_name = "AddrOf";
                v.push(("mut", J::Bool(m.is_mut())));
                v.push(("e", self.expr(x)));
            }
            K::Break(_, x) => {
                kind_name = "Break";
                if let Some(x) = x {
                    v.push(("e", self.expr(x)));
                }
            }
            K::Continue(_) => kind_name = "Continue",
            K::Ret(x) => {
                kind_name = "Ret";
                if let Some(x) = x {
                    v.push(("e", self.expr(x)));
                }
            }
            K::Become(x) => {
                kind_name = "Become";
                v.push(("e", self.expr(x)));
            }
            K::InlineAsm(_) => kind_name = "InlineAsm",
            K::OffsetOf(..) => kind_name = "OffsetOf",
            K::Struct(qp, fields, tail) => {
                kind_name = "Struct";
                let mut pv = vec![];
                let res = self.typeck.qpath_res(qp, e.hir_id);
                self.res(res, &mut pv);
                v.push(("path", J::Obj(pv)));
                let mut fv = vec![];
                for f in *fields {
                    fv.push(obj! {
                        "name": J::s(f.ident.name.to_string()),
                        "e": self.expr(f.expr),
                        "shorthand": if f.is_shorthand { J::Bool(true) } else { J::Null },
                    });
                }
                v.push(("fields", J::Arr(fv)));
                match tail {
                    hir::StructTailExpr::Base(b) => v.push(("base", self.expr(b))),
                    hir::StructTailExpr::DefaultFields(_) => v.push(("base", J::s("default_fields"))),
                    _ => {}
                }
            }
            K::Repeat(x, _) => {
                kind_name = "Repeat";
                v.push(("e", self.expr(x)));
            }
            K::Yield(x, src) => {
                kind_name = "Yield";
                v.push(("src", J::s(format!("{:?}", src))));
                v.push(("e", self.expr(x)));
            }
            K::UnsafeBinderCast(..) => kind_name = "UnsafeBinderCast",
            K::Err(_) => kind_name = "Err",
        }
        let mut out: Vec<(&'static str, J)> = vec![("k", J::s(kind_name))];
        out.push(("hid", J::Int(e.hir_id.local_id.as_u32() as i128)));
        if let Some(ty) = self.typeck.expr_ty_opt(e) {
            out.push(("ty", J::s(self.cx.ty_str(ty))));
        }
        let adjs = self.typeck.expr_adjustments(e);
        if !adjs.is_empty() {
            let mut av = vec![];
            for a in adjs {
                av.push(J::s(format!("{:?}", a.kind).split('(').next().unwrap_or("").to_string()));
            }
            out.push(("adj", J::Arr(av)));
            if let Some(last) = adjs.last() {
                out.push(("adj_ty", J::s(self.cx.ty_str(last.target))));
            }
        }
        self.span_fields(e.span, &mut out);
        out.extend(v);
        J::Obj(out)
    }

    fn pat(&mut self, p: &'tcx hir::Pat<'tcx>) -> J {
        use hir::PatKind as P;
        let mut v: Vec<(&'static str, J)> = vec![];
        let k: &'static str;
        match &p.kind {
            P::Missing => k = "Missing",
            P::Wild => k = "Wild",
            P::Binding(mode, hid, ident, sub) => {
                k = "Binding";
                v.push(("id", J::Int(hid.local_id.as_u32() as i128)));
                v.push(("name", J::s(ident.name.to_string())));
                v.push(("mode", J::s(format!("{:?}", mode))));
                if let Some(s) = sub {
                    v.push(("sub", self.pat(s)));
                }
            }
            P::Struct(qp, fields, rest) => {
                k = "Struct";
                let mut pv = vec![];
                let res = self.typeck.qpath_res(qp, p.hir_id);
                self.res(res, &mut pv);
                v.push(("path", J::Obj(pv)));
                let mut fv = vec![];
                for f in *fields {
                    fv.push(obj! {"name": J::s(f.ident.name.to_string()), "pat": self.pat(f.pat)});
                }
                v.push(("fields", J::Arr(fv)));
                v.push(("rest", J::Bool(rest.is_some())));
            }
            P::TupleStruct(qp, pats, _) => {
                k = "TupleStruct";
                let mut pv = vec![];
                let res = self.typeck.qpath_res(qp, p.hir_id);
                self.res(res, &mut pv);
                v.push(("path", J::Obj(pv)));
                v.push(("pats", J::Arr(pats.iter().map(|x| self.pat(x)).collect())));
            }
            P::Or(pats) => {
                k = "Or";
                v.push(("pats", J::Arr(pats.iter().map(|x| self.pat(x)).collect())));
            }
            P::Never => k = "Never",
            P::Tuple(pats, _) => {
                k = "Tuple";
                v.push(("pats", J::Arr(pats.iter().map(|x| self.pat(x)).collect())));
            }
            P::Box(x) => {
                k = "Box";
                v.push(("pat", self.pat(x)));
            }
            P::Deref(x) => {
                k = "Deref";
                v.push(("pat", self.pat(x)));
            }
            P::Ref(x, _, _) => {
                k = "Ref";
                v.push(("pat", self.pat(x)));
            }
            P::Expr(pe) => {
                k = "Expr";
                match &pe.kind {
                    hir::PatExprKind::Lit { lit, negated } => {
                        self.lit(lit, &mut v);
                        if *negated {
                            v.push(("neg", J::Bool(true)));
                        }
                    }
                    hir::PatExprKind::Path(qp) => {
                        let mut pv = vec![];
                        let res = self.typeck.qpath_res(qp, pe.hir_id);
                        self.res(res, &mut pv);
                        v.push(("path", J::Obj(pv)));
                    }
                }
            }
            P::Guard(x, g) => {
                k = "Guard";
                v.push(("pat", self.pat(x)));
                v.push(("guard", self.expr(g)));
            }
            P::Range(lo, hi, end) => {
                k = "Range";
                for (name, b) in [("lo", lo), ("hi", hi)] {
                    if let Some(pe) = b {
                        if let hir::PatExprKind::Lit { lit, negated } = &pe.kind {
                            let mut lv = vec![];
                            self.lit(lit, &mut lv);
                            if *negated {
                                lv.push(("neg", J::Bool(true)));
                            }
                            v.push((name, J::Obj(lv)));
                        }
                    }
                }
                v.push(("inclusive", J::Bool(matches!(end, hir::RangeEnd::Included))));
            }
            P::Slice(a, m, b) => {
                k = "Slice";
                v.push(("before", J::Arr(a.iter().map(|x| self.pat(x)).collect())));
                if let Some(m) = m {
                    v.push(("mid", self.pat(m)));
                }
                v.push(("after", J::Arr(b.iter().map(|x| self.pat(x)).collect())));
            }
            P::Err(_) => k = "Err",
        }
        let mut out: Vec<(&'static str, J)> = vec![("k", J::s(k))];
        if let Some(ty) = self.typeck.node_type_opt(p.hir_id) {
            out.push(("ty", J::s(self.cx.ty_str(ty))));
        }
        out.extend(v);
        J::Obj(out)
    }
}
