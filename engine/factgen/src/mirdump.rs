//! `mir_built` bodies as JSON: locals, blocks, statements, terminators, with field names and
//! resolved callees.
use crate::ctx::Cx;
use crate::json::J;
use crate::obj;
use rustc_hir::def_id::LocalDefId;
use rustc_middle::mir::{
    self, AggregateKind, Body, Operand, Place, PlaceElem, Rvalue, StatementKind, TerminatorKind,
};
use rustc_middle::ty::{self, Ty};

pub fn dump_mir<'tcx>(cx: &mut Cx<'tcx>, def: LocalDefId, body: &Body<'tcx>) -> J {
    let mut d = M { cx, body, owner: def };
    d.body_json()
}

struct M<'a, 'b, 'tcx> {
    cx: &'a mut Cx<'tcx>,
    body: &'b Body<'tcx>,
    owner: LocalDefId,
}

impl<'a, 'b, 'tcx> M<'a, 'b, 'tcx> {
    fn body_json(&mut self) -> J {
        let body = self.body;
        let mut names: Vec<Option<String>> = vec![None; body.local_decls.len()];
        let mut vdi = vec![];
        for v in &body.var_debug_info {
            if let mir::VarDebugInfoContents::Place(p) = &v.value {
                if p.projection.is_empty() {
                    names[p.local.as_usize()] = Some(v.name.to_string());
                }
                vdi.push(obj! {"name": J::s(v.name.to_string()), "place": self.place(p)});
            }
        }
        let mut locals = vec![];
        for (i, decl) in body.local_decls.iter_enumerated() {
            locals.push(obj! {
                "i": J::Int(i.as_usize() as i128),
                "ty": J::s(self.cx.ty_str(decl.ty)),
                "name": J::opt_s(names[i.as_usize()].clone()),
                "user": J::Bool(decl.is_user_variable()),
            });
        }
        let mut blocks = vec![];
        for (bb, data) in body.basic_blocks.iter_enumerated() {
            let mut stmts = vec![];
            for s in &data.statements {
                if let Some(j) = self.stmt(s) {
                    stmts.push(j);
                }
            }
            let term = data.terminator.as_ref().map(|t| self.term(t)).unwrap_or(J::Null);
            blocks.push(obj! {
                "i": J::Int(bb.as_usize() as i128),
                "cleanup": if data.is_cleanup { J::Bool(true) } else { J::Null },
                "stmts": J::Arr(stmts),
                "term": term,
            });
        }
        obj! {
            "arg_count": J::Int(body.arg_count as i128),
            "locals": J::Arr(locals),
            "vars": J::Arr(vdi),
            "blocks": J::Arr(blocks),
            "coroutine": J::Bool(body.coroutine.is_some()),
        }
    }

    fn place(&mut self, p: &Place<'tcx>) -> J {
        let tcx = self.cx.tcx;
        let mut proj = vec![];
        let mut pty = mir::PlaceTy::from_ty(self.body.local_decls[p.local].ty);
        for elem in p.projection.iter() {
            let j = match elem {
                PlaceElem::Deref => J::s("deref"),
                PlaceElem::Field(f, _) => {
                    let mut name = format!("{}", f.as_usize());
                    let mut vname = None;
                    match pty.ty.kind() {
                        ty::Adt(adt, _) => {
                            let vidx = pty.variant_index.unwrap_or(rustc_abi::FIRST_VARIANT);
                            if vidx.as_usize() < adt.variants().len() {
                                let v = adt.variant(vidx);
                                if f.as_usize() < v.fields.len() {
                                    name = v.fields[f].name.to_string();
                                }
                                if adt.is_enum() {
                                    vname = Some(v.name.to_string());
                                }
                            }
                        }
                        _ => {}
                    }
                    obj! {"f": J::s(name), "i": J::Int(f.as_usize() as i128), "v": J::opt_s(vname)}
                }
                PlaceElem::Index(l) => obj! {"index": J::Int(l.as_usize() as i128)},
                PlaceElem::ConstantIndex { offset, from_end, .. } => {
                    obj! {"cindex": J::Int(offset as i128), "from_end": J::Bool(from_end)}
                }
                PlaceElem::Subslice { from, to, from_end } => {
                    obj! {"subslice": J::Arr(vec![J::Int(from as i128), J::Int(to as i128)]), "from_end": J::Bool(from_end)}
                }
                PlaceElem::Downcast(name, idx) => {
                    obj! {"downcast": J::s(name.map(|s| s.to_string()).unwrap_or_else(|| format!("{}", idx.as_usize())))}
                }
                PlaceElem::OpaqueCast(_) => J::s("opaque"),
                PlaceElem::UnwrapUnsafeBinder(_) => J::s("unwrap_binder"),
            };
            proj.push(j);
            pty = pty.projection_ty(tcx, elem);
        }
        obj! {"l": J::Int(p.local.as_usize() as i128), "proj": if proj.is_empty() { J::Null } else { J::Arr(proj) }}
    }

    fn fn_const(&mut self, ty: Ty<'tcx>, v: &mut Vec<(&'static str, J)>) {
        if let ty::FnDef(did, args) = *ty.kind() {
            v.push(("fn", J::Int(self.cx.def_idx(did) as i128)));
            v.push(("fn_path", J::s(self.cx.path_of(did))));
            v.push(("gargs", self.cx.args_json(args)));
            if let Some(inst) = self.cx.resolve(self.owner, did, args) {
                if inst != did {
                    v.push(("inst", J::Int(self.cx.def_idx(inst) as i128)));
                    v.push(("inst_path", J::s(self.cx.path_of(inst))));
                }
            }
        }
    }

    fn operand(&mut self, o: &Operand<'tcx>) -> J {
        match o {
            Operand::Copy(p) => obj! {"k": J::s("copy"), "p": self.place(p)},
            Operand::Move(p) => obj! {"k": J::s("move"), "p": self.place(p)},
            Operand::Constant(c) => {
                let ty = c.const_.ty();
                let mut v: Vec<(&'static str, J)> = vec![("k", J::s("const")), ("ty", J::s(self.cx.ty_str(ty)))];
                self.fn_const(ty, &mut v);
                // scalar / str values where cheaply available
                let tcx = self.cx.tcx;
                match c.const_ {
                    mir::Const::Val(val, ty) => {
                        if let mir::ConstValue::Slice { .. } = val {
                            if ty.peel_refs().is_str() {
                                if let Some(bytes) = val.try_get_slice_bytes_for_diagnostics(tcx) {
                                    v.push(("str", J::s(String::from_utf8_lossy(bytes).to_string())));
                                }
                            }
                        } else if let Some(s) = val.try_to_scalar_int() {
                            v.push(("bits", J::Int(s.to_bits_unchecked() as i128)));
                            if ty.is_signed() {
                                let size = s.size();
                                v.push(("int", J::Int(s.to_int(size))));
                            }
                        }
                    }
                    mir::Const::Unevaluated(u, _) => {
                        v.push(("uneval", J::s(self.cx.path_of(u.def))));
                    }
                    mir::Const::Ty(..) => {}
                }
                v.push(("text", J::s(format!("{}", c.const_))));
                J::Obj(v)
            }
            Operand::RuntimeChecks(_) => obj! {"k": J::s("runtime_checks")},
        }
    }

    fn rvalue(&mut self, r: &Rvalue<'tcx>) -> J {
        match r {
            Rvalue::Use(o, _) => obj! {"k": J::s("use"), "op": self.operand(o)},
            Rvalue::Repeat(o, _) => obj! {"k": J::s("repeat"), "op": self.operand(o)},
            Rvalue::Ref(_, bk, p) => {
                obj! {"k": J::s("ref"), "bk": J::s(format!("{:?}", bk)), "p": self.place(p)}
            }
            Rvalue::ThreadLocalRef(d) => obj! {"k": J::s("tls"), "path": J::s(self.cx.path_of(*d))},
            Rvalue::RawPtr(_, p) => obj! {"k": J::s("rawptr"), "p": self.place(p)},
            Rvalue::Cast(kind, o, ty) => obj! {
                "k": J::s("cast"),
                "ck": J::s(format!("{:?}", kind)),
                "op": self.operand(o),
                "ty": J::s(self.cx.ty_str(*ty)),
                "from_ty": J::s(self.cx.ty_str(o.ty(&self.body.local_decls, self.cx.tcx))),
            },
            Rvalue::BinaryOp(op, ab) => obj! {
                "k": J::s("binop"),
                "op": J::s(format!("{:?}", op)),
                "a": self.operand(&ab.0),
                "b": self.operand(&ab.1),
            },
            Rvalue::UnaryOp(op, a) => obj! {
                "k": J::s("unop"),
                "op": J::s(format!("{:?}", op)),
                "a": self.operand(a),
            },
            Rvalue::Discriminant(p) => obj! {"k": J::s("discr"), "p": self.place(p)},
            Rvalue::Aggregate(kind, ops) => {
                let mut v: Vec<(&'static str, J)> = vec![("k", J::s("aggregate"))];
                match &**kind {
                    AggregateKind::Array(_) => v.push(("ak", J::s("array"))),
                    AggregateKind::Tuple => v.push(("ak", J::s("tuple"))),
                    AggregateKind::Adt(did, vidx, _, _, _) => {
                        v.push(("ak", J::s("adt")));
                        v.push(("adt", J::s(self.cx.path_of(*did))));
                        let adt = self.cx.tcx.adt_def(*did);
                        let var = adt.variant(*vidx);
                        v.push(("variant", J::s(var.name.to_string())));
                        v.push((
                            "fields",
                            J::Arr(var.fields.iter().map(|f| J::s(f.name.to_string())).collect()),
                        ));
                    }
                    AggregateKind::Closure(did, _) => {
                        v.push(("ak", J::s("closure")));
                        v.push(("closure", J::s(self.cx.path_of(*did))));
                    }
                    AggregateKind::Coroutine(did, _) => {
                        v.push(("ak", J::s("coroutine")));
                        v.push(("closure", J::s(self.cx.path_of(*did))));
                    }
                    AggregateKind::CoroutineClosure(did, _) => {
                        v.push(("ak", J::s("coroutine_closure")));
                        v.push(("closure", J::s(self.cx.path_of(*did))));
                    }
                    AggregateKind::RawPtr(..) => v.push(("ak", J::s("rawptr"))),
                }
                v.push(("ops", J::Arr(ops.iter().map(|o| self.operand(o)).collect())));
                J::Obj(v)
            }
            Rvalue::CopyForDeref(p) => obj! {"k": J::s("copy_for_deref"), "p": self.place(p)},
            Rvalue::WrapUnsafeBinder(o, _) => obj! {"k": J::s("wrap_binder"), "op": self.operand(o)},
        }
    }

    fn stmt(&mut self, s: &mir::Statement<'tcx>) -> Option<J> {
        match &s.kind {
            StatementKind::Assign(b) => {
                let (p, r) = &**b;
                Some(obj! {
                    "k": J::s("assign"),
                    "p": self.place(p),
                    "rv": self.rvalue(r),
                    "sp": J::s(self.cx.span_str(s.source_info.span)),
                })
            }
            StatementKind::SetDiscriminant { place, variant_index } => Some(obj! {
                "k": J::s("set_discr"),
                "p": self.place(place),
                "variant": J::Int(variant_index.as_usize() as i128),
            }),
            StatementKind::FakeRead(b) => {
                let (cause, p) = &**b;
                Some(obj! {"k": J::s("fake_read"), "cause": J::s(format!("{:?}", cause).split('(').next().unwrap_or("").to_string()), "p": self.place(p)})
            }
            StatementKind::PlaceMention(p) => Some(obj! {"k": J::s("place_mention"), "p": self.place(p)}),
            StatementKind::StorageLive(_)
            | StatementKind::StorageDead(_)
            | StatementKind::AscribeUserType(..)
            | StatementKind::Coverage(_)
            | StatementKind::Intrinsic(_)
            | StatementKind::ConstEvalCounter
            | StatementKind::Nop
            | StatementKind::BackwardIncompatibleDropHint { .. } => None,
        }
    }

    fn term(&mut self, t: &mir::Terminator<'tcx>) -> J {
        let sp = J::s(self.cx.span_str(t.source_info.span));
        let expn = t.source_info.span.from_expansion();
        let mut v: Vec<(&'static str, J)> = vec![];
        match &t.kind {
            TerminatorKind::Goto { target } => {
                v.push(("k", J::s("goto")));
                v.push(("target", J::Int(target.as_usize() as i128)));
            }
            TerminatorKind::SwitchInt { discr, targets } => {
                v.push(("k", J::s("switch")));
                v.push(("discr", self.operand(discr)));
                let mut tv = vec![];
                for (val, bb) in targets.iter() {
                    tv.push(J::Arr(vec![J::Int(val as i128), J::Int(bb.as_usize() as i128)]));
                }
                v.push(("targets", J::Arr(tv)));
                v.push(("otherwise", J::Int(targets.otherwise().as_usize() as i128)));
            }
            TerminatorKind::UnwindResume => v.push(("k", J::s("resume"))),
            TerminatorKind::UnwindTerminate(_) => v.push(("k", J::s("terminate"))),
            TerminatorKind::Return => v.push(("k", J::s("return"))),
            TerminatorKind::Unreachable => v.push(("k", J::s("unreachable"))),
            TerminatorKind::Drop { place, target, unwind, .. } => {
                v.push(("k", J::s("drop")));
                v.push(("p", self.place(place)));
                v.push(("target", J::Int(target.as_usize() as i128)));
                if let mir::UnwindAction::Cleanup(bb) = unwind {
                    v.push(("unwind", J::Int(bb.as_usize() as i128)));
                }
            }
            TerminatorKind::Call { func, args, destination, target, unwind, fn_span, .. } => {
                v.push(("k", J::s("call")));
                v.push(("func", self.operand(func)));
                v.push(("args", J::Arr(args.iter().map(|a| self.operand(&a.node)).collect())));
                v.push(("dest", self.place(destination)));
                if let Some(t) = target {
                    v.push(("target", J::Int(t.as_usize() as i128)));
                }
                if let mir::UnwindAction::Cleanup(bb) = unwind {
                    v.push(("unwind", J::Int(bb.as_usize() as i128)));
                }
                v.push(("fn_sp", J::s(self.cx.span_str(*fn_span))));
            }
            TerminatorKind::TailCall { func, args, .. } => {
                v.push(("k", J::s("tailcall")));
                v.push(("func", self.operand(func)));
                v.push(("args", J::Arr(args.iter().map(|a| self.operand(&a.node)).collect())));
            }
            TerminatorKind::Assert { cond, expected, msg, target, unwind } => {
                v.push(("k", J::s("assert")));
                v.push(("cond", self.operand(cond)));
                v.push(("expected", J::Bool(*expected)));
                v.push(("msg", J::s(format!("{:?}", msg).split('(').next().unwrap_or("").to_string())));
                v.push(("target", J::Int(target.as_usize() as i128)));
                if let mir::UnwindAction::Cleanup(bb) = unwind {
                    v.push(("unwind", J::Int(bb.as_usize() as i128)));
                }
            }
            TerminatorKind::Yield { value, resume, resume_arg, drop } => {
                v.push(("k", J::s("yield")));
                v.push(("value", self.operand(value)));
                v.push(("target", J::Int(resume.as_usize() as i128)));
                v.push(("resume_arg", self.place(resume_arg)));
                if let Some(d) = drop {
                    v.push(("drop", J::Int(d.as_usize() as i128)));
                }
            }
            TerminatorKind::CoroutineDrop => v.push(("k", J::s("coroutine_drop"))),
            TerminatorKind::FalseEdge { real_target, imaginary_target } => {
                v.push(("k", J::s("false_edge")));
                v.push(("target", J::Int(real_target.as_usize() as i128)));
                v.push(("imaginary", J::Int(imaginary_target.as_usize() as i128)));
            }
            TerminatorKind::FalseUnwind { real_target, unwind } => {
                v.push(("k", J::s("false_unwind")));
                v.push(("target", J::Int(real_target.as_usize() as i128)));
                if let mir::UnwindAction::Cleanup(bb) = unwind {
                    v.push(("unwind", J::Int(bb.as_usize() as i128)));
                }
            }
            TerminatorKind::InlineAsm { .. } => v.push(("k", J::s("asm"))),
        }
        v.push(("sp", sp));
        if expn {
            v.push(("expn", J::Bool(true)));
            v.push(("cs", J::s(self.cx.span_str(t.source_info.span.source_callsite()))));
        }
        J::Obj(v)
    }
}
