//! Positive controls: one known instance of every pattern whose expected count on zeep is zero.
//! The zero-count rules are run over this crate on every invocation and must report exactly these.
#![allow(dead_code, unused)]
use std::collections::{HashMap, HashSet};
use std::io::Write;

// ---- C12: order-revealing iteration over hash containers ------------------------------------
pub fn c12_hash_iter_into_writer<W: Write>(w: &mut W, m: &HashMap<String, String>) -> std::io::Result<()> {
    for (k, v) in m {
        writeln!(w, "{k}={v}")?;
    }
    Ok(())
}
pub fn c12_hash_first(m: &HashMap<String, u32>) -> Option<&u32> {
    m.values().next()
}
pub fn c12_hashset_iter(s: &HashSet<String>) -> Vec<String> {
    s.iter().cloned().collect()
}
pub fn c12_ok_len(m: &HashMap<String, u32>) -> usize {
    m.len()
}
pub fn c12_ambient_time() -> u64 {
    std::time::SystemTime::now().duration_since(std::time::UNIX_EPOCH).map(|d| d.as_secs()).unwrap_or(0)
}
pub fn c12_ambient_env() -> String {
    std::env::var("HOME").unwrap_or_default()
}

// ---- C15: sink results ----------------------------------------------------------------------
pub fn c15_dropped<W: Write>(w: &mut W) {
    let _ = writeln!(w, "x");
}
pub fn c15_unwrapped<W: Write>(w: &mut W) {
    writeln!(w, "x").unwrap();
}
pub fn c15_ok_swallow<W: Write>(w: &mut W) -> bool {
    writeln!(w, "x").ok().is_some()
}
pub fn c15_short_write<W: Write>(w: &mut W) -> std::io::Result<()> {
    w.write(b"abc")?;
    Ok(())
}
pub fn c15_propagated<W: Write>(w: &mut W) -> std::io::Result<()> {
    writeln!(w, "x")?;
    w.write_all(b"y")?;
    Ok(())
}
pub fn c15_in_closure<W: Write>(w: &mut W, lines: &str) {
    lines.split('\n').for_each(|l| {
        writeln!(w, "{l}").unwrap();
    });
}

pub fn c15_fold_discards<W: Write>(w: &mut W, s: &str) -> std::io::Result<()> {
    s.split('\n').fold(Ok(()), |_, l| writeln!(w, "{l}"))?;
    Ok(())
}
pub fn c15_try_for_each_ok<W: Write>(w: &mut W, s: &str) -> std::io::Result<()> {
    s.split('\n').try_for_each(|l| writeln!(w, "{l}"))
}

// ---- C13: panic family ----------------------------------------------------------------------
pub fn c13_unwrap(o: Option<u32>) -> u32 {
    o.unwrap()
}
pub fn c13_expect(r: Result<u32, String>) -> u32 {
    r.expect("boom")
}
pub fn c13_index(v: &[u32]) -> u32 {
    v[3]
}
pub fn c13_assert(x: u8) {
    assert_ne!(x, 255, "too many");
}
pub fn c13_overflow(x: u8) -> u8 {
    x + 1
}
pub fn c13_guarded(o: Option<u32>) -> u32 {
    if o.is_some() { o.unwrap() } else { 0 }
}
pub fn c13_recursion_restart(n: &Vec<u32>) -> u32 {
    c13_recursion_restart(n)
}
/// an iterator without an end of its own: the chain follows what the data says
pub fn c13_endless_successors(next: &[usize]) -> usize {
    std::iter::successors(Some(0usize), |&i| next.get(i).copied()).count()
}
/// .. and one whose step moves up a finite tree
pub fn c13_ascent(p: &std::path::Path) -> usize {
    std::iter::successors(Some(p), |q| q.parent()).count()
}

// ---- C17: effect ordering -------------------------------------------------------------------
pub fn c17_create_before_read(path: &std::path::Path) -> std::io::Result<String> {
    let _f = std::fs::File::create(path.with_extension("out"))?;
    std::fs::read_to_string(path)
}

// ---- C08: in-place rewrite of a member of an inherited value -----------------------------------
pub struct Member {
    pub name: String,
    pub namespace: Option<String>,
}

pub fn c08_rewrite_in_loop(members: &mut Vec<Member>, ns: &str) {
    for m in members.iter_mut().filter(|m| m.namespace.is_some()) {
        m.namespace = Some(ns.to_string());
    }
}

pub fn c08_rewrite_through_borrow(member: &mut Member, ns: &str) {
    member.name.clone_from(&ns.to_string());
}

pub fn c08_builds_fresh(name: &str) -> Member {
    Member { name: name.to_string(), namespace: None }
}

// ---- C15.R4: buffering wrappers around the sink ---------------------------------------------------
pub fn c15_buffered_unflushed<W: Write>(w: &mut W) -> std::io::Result<()> {
    let mut b = std::io::BufWriter::new(w);
    writeln!(b, "x")?;
    Ok(())
}
pub fn c15_buffered_flushed<W: Write>(w: &mut W) -> std::io::Result<()> {
    let mut b = std::io::BufWriter::new(w);
    writeln!(b, "x")?;
    b.flush()?;
    Ok(())
}
pub fn c15_buffered_flush_returned<W: Write>(w: &mut W) -> std::io::Result<()> {
    let mut b = std::io::LineWriter::new(w);
    writeln!(b, "x")?;
    b.flush()
}
pub fn c15_buffered_flush_ignored<W: Write>(w: &mut W) -> std::io::Result<()> {
    let mut b = std::io::BufWriter::with_capacity(16, w);
    writeln!(b, "x")?;
    let _ = b.flush();
    Ok(())
}

// ---- C12: a computation made only when logging is enabled -----------------------------------------
pub mod log {
    pub fn max_level() -> usize {
        3
    }
    pub mod __private_api {
        pub fn log(_text: &str) {}
    }
}

/// the record is kept only when the level is enabled: flagged
pub fn c12_effect_under_log_level(seen: &mut Vec<String>, name: &str) {
    if 2 <= log::max_level() {
        seen.push(name.to_string());
        log::__private_api::log(seen.last().map_or("", String::as_str));
    }
}

/// the record is kept in any case, only the message depends on the level: silent
pub fn c12_log_only_under_log_level(seen: &mut Vec<String>, name: &str) {
    seen.push(name.to_string());
    if 2 <= log::max_level() {
        log::__private_api::log(name);
    }
}

// ---- C13: a width computed at run time --------------------------------------------------------------
/// the width follows the data: flagged (core::fmt panics above 65535)
pub fn c13_width_follows_data(names: &[String]) -> String {
    let width = names.iter().map(|n| n.chars().count()).max().unwrap_or(0);
    names.iter().map(|n| format!("{n:<width$}|")).collect()
}

/// the width is cut at a constant that fits: silent
pub fn c13_width_cut(names: &[String]) -> String {
    let width = names.iter().map(|n| n.chars().count()).max().unwrap_or(0).min(40);
    names.iter().map(|n| format!("{n:<width$}|")).collect()
}
