"""Both-ways self-test corpus. Every entry is a one-hunk textual replacement applied to a scratch copy of the repository
(never to /repo). MUTANTS must be reported by the named property's check (exit 1, a VIOLATION line whose report mentions the
expected rule); BENIGN edits preserve behaviour and must leave ALL checks silent (exit 0)."""

H = "zeep-lib/src/model/helpers_content.rs"
FIELD = "zeep-lib/src/model/field.rs"
DOC = "zeep-lib/src/model/doc.rs"
READER = "zeep-lib/src/reader.rs"
CPLX = "zeep-lib/src/model/structures/complex.rs"
WRITER = "zeep-lib/src/model/structures/writer.rs"
RESTR = "zeep-lib/src/model/structures/restrictions.rs"
BW = "zeep-lib/src/model/soap/binding/writer.rs"
BM = "zeep-lib/src/model/soap/binding/mod.rs"
SVC = "zeep-lib/src/model/soap/service.rs"
MAIN = "zeep/src/main.rs"
UTILS = "zeep-lib/src/utils.rs"
HELP = "zeep-lib/src/model/helpers.rs"

# (property, rule, file, old, new, note)
MUTANTS = [
    ("C11", "R1", READER, "        for child in doc.root().children() {\n            Self::read(child, files, &mut rust_doc)?;\n        }\n\n        Ok(rust_doc)\n    }\n\n    fn read<'n>", "        for child in doc.root().children() {\n            Self::read(child, files, &mut rust_doc)?;\n        }\n        file.processed.store(false, std::sync::atomic::Ordering::SeqCst);\n\n        Ok(rust_doc)\n    }\n\n    fn read<'n>", "processed flag handed back when a file is done (in-progress guard only)"),
    ("C06", "R1", H, "value < i128::from(min_inclusive)", "value <= i128::from(min_inclusive)", "minInclusive rejects the bound"),
    ("C06", "R1", H, "i128::from(max_exclusive) <= value", "i128::from(max_exclusive) < value", "maxExclusive accepts the bound"),
    ("C06", "R1", H, "if s_len < min_length", "if s_len <= min_length", "minLength off by one"),
    ("C06", "R6", H, "let s_len = self.chars().count();", "let s_len = self.len();", "byte length"),
    ("C06", "R7", H, "c.check_restrictions(restrictions.clone())?;", "let _ = c.check_restrictions(restrictions.clone());", "Vec result dropped"),
    ("C06", "R7", H, "for c in self {", "for c in self.iter().skip(1) {", "first element skipped"),
    ("C06", "R1", H, "if length != s_len", "if length > s_len", "length one-sided"),
    ("C06", "R1", H, "if !enumeration.contains(self)", "if enumeration.contains(self)", "enumeration inverted"),
    ("C16", "R3", H, "        response.error_for_status_ref()?;\n", "", "status gate removed"),
    ("C16", "R3", H, "        response.error_for_status_ref()?;", "        let _ = response.error_for_status_ref();", "status gate swallowed"),
    ("C16", "R2", H, "req = req.basic_auth(username, Some(password));", "req = req.basic_auth(password, Some(username));", "credentials swapped"),
    ("C16", "R1", H, "let mut req = client.post(url).body(body);", "let mut req = client.put(url).body(body);", "PUT instead of POST"),
    ("C07", "R1", H, "        req.check_restrictions(None)?;\n        let body = yaserde::ser::to_string(&req).map_err(SoapError::YaserdeError)?;",
     "        let body = yaserde::ser::to_string(&req).map_err(SoapError::YaserdeError)?;\n        req.check_restrictions(None)?;", "check after serialization"),
    ("C07", "R1", H, "        req.check_restrictions(None)?;", "        let _ = req.check_restrictions(None);", "check result dropped"),
    ("C07", "R3", WRITER, "    for field in fields {\n        let field_name = &field.rust_name;", "    for field in fields.iter().skip(1) {\n        let field_name = &field.rust_name;", "first member unchecked"),
    ("C07", "R4", RESTR, '&mut restrictions.max_length, "maxLength"', '&mut restrictions.max_length, "minLength"', "facet crossed at read"),
    ("C07", "R4", RESTR, 'writeln!(writer, "   min_length: Some({min_length}), ")?;', 'writeln!(writer, "   max_length: Some({min_length}), ")?;', "facet crossed at write"),
    ("C07", "R3", BW, 'writeln!(writer, "     self.{body_field_name}.check_restrictions(restrictions)")?;', 'writeln!(writer, "     Ok(())")?;', "body unchecked"),
    ("C15", "R1", FIELD, '        writeln!(writer, "    pub {}: {},", self.rust_name, possibly_optional_field)?;', '        let _ = writeln!(writer, "    pub {}: {},", self.rust_name, possibly_optional_field);', "write dropped"),
    ("C15", "R3", DOC, '            writeln!(writer, "}}")?;', '            writer.write(b"}\\n")?;', "short write"),
    ("C15", "R1", DOC, "                node.write_xml(writer)?;", "                node.write_xml(writer).ok();", "nested writer swallowed"),
    ("C12", "R3", DOC, "        FileHeader.write_xml(writer)?;", "        FileHeader.write_xml(writer)?;\n        writeln!(writer, \"// generated at {:?}\", std::time::SystemTime::now())?;", "timestamp in output"),
    ("C11", "R3", READER, "        let file = files\n            .map\n            .get(schema_location)\n            .ok_or_else(|| WriterError::ImportNotFound(schema_location.to_string()))?;",
     "        let file = files\n            .map\n            .iter().find(|(k, _)| k.ends_with(schema_location)).map(|(_, v)| v)\n            .ok_or_else(|| WriterError::ImportNotFound(schema_location.to_string()))?;", "file table scanned"),
    ("C13", "R1", FIELD, '            .attribute("name")\n            .ok_or_else(|| WriterError::attribute_missing(&node, "name"))?\n            .to_string();\n\n        let rust_name',
     '            .attribute("name")\n            .unwrap()\n            .to_string();\n\n        let rust_name', "unwrap on input"),
    ("C13", "R2", DOC, "                if doc.resolving.iter().any(|name| name == xml_name) {\n                    return Err(WriterError::InvalidReference);\n                }\n", "", "visited guard removed"),
    ("C17", "R3", MAIN, 'with_extension("rs")', 'with_extension("txt")', "wrong default extension"),
    ("C12", "R2", READER, "        for file in files.map.values() {\n            file.processed.store(false, std::sync::atomic::Ordering::SeqCst);\n        }\n", "", "flags not reset on entry"),
    ("C12", "R2", READER, "        for file in files.map.values() {\n            file.processed.store(false, std::sync::atomic::Ordering::SeqCst);\n        }\n", "        content.processed.store(false, std::sync::atomic::Ordering::SeqCst);\n", "only the start file's flag is reset"),
    ("C12", "R2", READER, "        for file in files.map.values() {\n            file.processed.store(false, std::sync::atomic::Ordering::SeqCst);\n        }\n\n        Self::read_xml_internal(content, start_with_file, files)", "        let doc = Self::read_xml_internal(content, start_with_file, files);\n        files.map.values().for_each(|file| file.processed.store(false, std::sync::atomic::Ordering::SeqCst));\n        doc", "flags reset after the read instead of before (an early error leaves them set)"),
    ("C17", "R5", UTILS, "Some(parent) if !parent.as_os_str().is_empty() => parent,", "Some(parent) => parent,", "empty-parent guard removed"),
    ("C17", "R5", UTILS, '    let parent = match current_file.parent() {\n        Some(parent) if !parent.as_os_str().is_empty() => parent,\n        _ => Path::new("."),\n    };', '    let parent = current_file.parent().unwrap_or_else(|| Path::new("."));', "parent() with a fallback for None only"),
    ("C10", "R3", DOC, "        if let Some(existing) = self.namespaces.iter().find(|ns| ns.namespace == url) {\n            self.namespace_lookup\n                .insert(original_abbreviation.to_string(), existing.clone());\n            return;\n        }\n", "", "registry not consulted: one URI gets a Namespace per prefix"),
    ("C09", "R2", DOC, "if let Some(existing) = self.namespaces.iter().find(|ns| ns.namespace == url) {", "if let Some(existing) = self.namespaces.iter().find(|ns| ns.abbreviation == original_abbreviation) {", "prefix bound to the entry with the same abbreviation instead of the same URI"),
    ("C10", "R3", DOC, "let rust_mod_name = create_mod_name_for_namespace(&abbreviation);\n        let ns = Rc::new(Namespace {", "let rust_mod_name = create_mod_name_for_namespace(original_abbreviation);\n        let ns = Rc::new(Namespace {", "module named after the declared prefix, not the unique abbreviation"),
    ("C14", "R1", DOC, "namespace.chars().filter(char::is_ascii_alphanumeric).take(3).collect()", "namespace.chars().filter(|c| c.is_alphanumeric()).take(3).collect()", "module abbreviation keeps non-ASCII alphanumerics (²)"),
    ("C14", "R1", DOC, "namespace.chars().filter(char::is_ascii_alphanumeric).take(3).collect()", "namespace.chars().take(3).collect()", "module abbreviation keeps any character"),
    ("C17", "R3", MAIN, "|f| Path::new(f).to_path_buf());", '|f| Path::new(f).with_extension("rs"));', "--output path gets its extension replaced"),
    ("C17", "R3", MAIN, 'let output_file = to_file_name.map_or_else(|| from_file_path.with_extension("rs"), |f| Path::new(f).to_path_buf());',
     'let output_file = match to_file_name {\n        Some(f) if f.ends_with(".rs") => Path::new(f).to_path_buf(),\n        _ => from_file_path.with_extension("rs"),\n    };', "--output ignored unless it ends in .rs"),
    ("C17", "R1", MAIN, '    let document = XmlReader::read_xml(&files).expect("can not read xml");\n    let mut buffer = Vec::new();\n    document.write_xml(&mut buffer).expect("can not write xml");\n    std::fs::write(output_file, buffer).expect("can not write file");',
     '    let document = XmlReader::read_xml(&files).expect("can not read xml");\n    let mut buffer = Vec::new();\n    touch(&output_file);\n    document.write_xml(&mut buffer).expect("can not write xml");\n    std::fs::write(output_file, buffer).expect("can not write file");\n}\n\nfn touch(p: &Path) {\n    std::fs::write(p, b"").expect("can not create file");', "output truncated in a helper before generation"),
    ("C17", "R4", MAIN, "let from_file_path = Path::new(&from_file_name);", 'let from_file_path = Path::new(to_file_name.map_or(from_file_name.as_str(), |s| s.as_str()));', "input read from the --output name"),
    ("C17", "R2", MAIN, 'document.write_xml(&mut buffer).expect("can not write xml");', "let _ = document.write_xml(&mut buffer);", "write failure ignored"),
    ("C19", "R2", H, "            self.inner.serialize_attributes(attributes, namespace)", "            Ok((attributes, namespace))", "attributes not forwarded"),
    ("C19", "R3", H, "                inner: self.inner.clone(),", "                inner: Arc::new((*self.inner).clone()),", "deep clone"),
    ("C18", "R1", H, "        let response = req.send().await?;", "        let keep = std::rc::Rc::new(0u8);\n        let response = req.send().await?;\n        drop(keep);", "Rc across await"),
    ("C01", "R1", H, "    use std::{error::Error, num::ParseIntError};", "    use std::{error::Error, num::ParseIntError};\n    #[allow(unused_imports)]\n    use crate::error::WriterError;", "helper depends on zeep"),
    ("C01", "R2", HELP, 'write!(writer, "{HELPERS}")?;', 'write!(writer, "{}", HELPERS.replace("pub(super) async fn send_soap_request<", "pub(super) async fn send_request<"))?;', "helper rewritten on emission"),
    ("C02", "R1", FIELD, '"long" => RustFieldType::I64,', '"long" => RustFieldType::I32,', "long narrowed"),
    ("C04", "R1", FIELD, '"long" => RustFieldType::I64,', '"long" => RustFieldType::I32,', "long narrowed"),
    ("C02", "R1", FIELD, 'RustFieldType::U32 => write!(f, "u32"),', 'RustFieldType::U32 => write!(f, "u16"),', "display arm wrong"),
    ("C04", "R2", FIELD, "max_occurs.parse::<u64>().is_ok_and(|n| n > 1)", "max_occurs.parse::<u64>().is_ok_and(|n| n > 2)", "maxOccurs=2 single"),
    ("C02", "R3", CPLX, "                let field = Field::try_from_node(n, doc)?;\n                result.fields.push(field);", "                let field = Field::try_from_node(n, doc)?;\n                result.fields.insert(0, field);", "attribute first"),
    ("C03", "R1", FIELD, "                tns.abbreviation, self.xml_name", "                tns.abbreviation, self.rust_name", "rename = rust name"),
    ("C05", "R4", SVC, "for (operation_name, operation) in &self.binding.operations {", "for (operation_name, operation) in self.binding.operations.iter().skip(1) {", "first operation has no method"),
    ("C05", "R1", BW, 'writeln!(writer, "    #[yaserde(prefix = \\"soapenv\\", rename = \\"Header\\")]")?;', 'writeln!(writer, "    #[yaserde(prefix = \\"soapenv\\", rename = \\"header\\")]")?;', "Header lower-case"),
    ("C05", "R6", BM, '    let parts = node.attribute("parts");', '    let parts = node.attribute("part");', "body parts attribute misspelt"),
    ("C08", "R1", CPLX, "    import_extension_fields(&mut node, doc, &mut base_fields)?;\n\n    for n in node.children().filter(Node::is_element) {\n        if n.tag_name().name() == \"sequence\" {\n            import_sequence_node_fields(&mut node, doc, &mut base_fields)?;\n        }\n    }",
     "    for n in node.children().filter(Node::is_element) {\n        if n.tag_name().name() == \"sequence\" {\n            import_sequence_node_fields(&mut node, doc, &mut base_fields)?;\n        }\n    }\n    import_extension_fields(&mut node, doc, &mut base_fields)?;", "own before base"),
    ("C09", "R3", "zeep-lib/src/model/field.rs", "    if namespace.is_some_and(|ns| doc.find_namespace_by_abbreviation(ns).is_some()) {\n        return user_type(node_type, namespace, doc);\n    }\n", "", "builtin table consulted without looking at the prefix"),
    ("C09", "R3", "zeep-lib/src/model/field.rs", "    if namespace.is_some_and(|ns| doc.find_namespace_by_abbreviation(ns).is_some()) {\n        return user_type(node_type, namespace, doc);", "    if namespace.is_some_and(|ns| doc.find_namespace_by_abbreviation(ns).is_none()) {\n        return user_type(node_type, namespace, doc);", "builtin table consulted exactly when the prefix is bound"),
    ("C09", "R3", DOC, "node.rust_type.xml_name().is_some_and(|n| n == xml_name) && node.in_namespace.as_deref() == namespace", "node.rust_type.xml_name().is_some_and(|n| n == xml_name)", "namespace dropped from lookup"),
    ("C10", "R1", DOC, "existing_namespaces.iter().any(|ns| ns.abbreviation == use_abbreviation)", "existing_namespaces.iter().any(|ns| ns.namespace == use_abbreviation)", "uniqueness test on wrong field"),
    ("C10", "R2", DOC, "let abbreviation = make_abbreviated_namespace(namespace, &self.namespaces);", "let abbreviation = make_abbreviated_namespace(namespace, &self.target_namespaces);", "wrong registry"),
    ("C10", "R6", DOC, "                if let Some(target_namespace) = schema.attribute(\"targetNamespace\") {\n                    doc.switch_to_target_namespace(target_namespace);\n                }\n                let rust_node",
     "                let rust_node", "found definition read under the referring schema's namespace"),
    ("C10", "R6", DOC, "                doc.current_target_namespace = referring;\n", "", "namespace of the found definition stays current"),
    ("C10", "R6", DOC, "                doc.current_target_namespace = referring;\n", "                doc.current_target_namespace = doc.current_target_namespace.clone();\n", "restore of the value just set"),
    # round 9 rules
    ("C10", "R3", DOC, "if let Some(known) = self.target_namespaces.iter().find(|ns| ns.namespace == namespace) {", "if let Some(known) = self.target_namespaces.iter().find(|ns| ns.namespace.trim_end_matches('/') == namespace.trim_end_matches('/')) {", "namespace names compared without a trailing slash"),
    ("C10", "R3", DOC, "pub fn find_namespace(&self, url: &str) -> Option<&Rc<Namespace>> {\n        self.namespaces.iter().find(|ns| ns.namespace == url)", "pub fn find_namespace(&self, url: &str) -> Option<&Rc<Namespace>> {\n        self.namespaces.iter().find(|ns| ns.namespace.eq_ignore_ascii_case(url))", "namespace names compared without case"),
    ("C05", "R4", SVC, "let service_name = as_type_name(&self.name);", "let service_name = format!(\"{}Client\", as_type_name(&self.name));", "client type gets a suffix"),
    ("C04", "R2", FIELD, "max_occurs.parse::<u64>().is_ok_and(|n| n > 1)", "max_occurs.parse::<u16>().is_ok_and(|n| n > 1)", "maxOccurs read into 16 bits"),
    ("C14", "R2", FIELD, '        "match" => "r#match",\n', "", "keyword row deleted"),
    ("C14", "R1", RESTR, 'writeln!(writer, "      {value:?}.to_string(),")?;', 'writeln!(writer, "      \\"{value}\\".to_string(),")?;', "enumeration unescaped"),
    ("C14", "R1", WRITER, "        for line in comment.split(['\\n', '\\r']) {", "        for line in comment.split('\\n') {", "CR in doc comment"),
    # ---- added after the second round of independently seeded changes
    ("C14", "R4", FIELD, "if unicode_ident::is_xid_continue(c) { c } else { '_' }", "if c.is_alphanumeric() || c == '_' { c } else { '_' }", "guard keeps every alphanumeric character (², Ⓐ)"),
    ("C14", "R4", FIELD, '    if identifier == "_" {\n        identifier.push(\'_\');\n    }\n', "", "lone underscore returned for names without identifier characters"),
    ("C14", "R4", FIELD, "c == '_' || unicode_ident::is_xid_start(c)", "!c.is_ascii_digit()", "only a leading ASCII digit is guarded"),
    ("C14", "R1", FIELD, "let field_name = as_identifier(&to_snake_case(xml_name));", "let field_name = to_snake_case(&as_identifier(xml_name));", "case normaliser after the guard"),
    ("C07", "R4", RESTR, "self.min_inclusive.as_ref().map(|v| v.trim().parse::<i32>())", "self.min_inclusive.as_ref().map(|v| v.trim().parse::<i64>())", "bound parsed wider than the helper field"),
    ("C01", "R3", RESTR, "self.max_length.as_ref().map(|v| v.trim().parse::<usize>())", "self.max_length.as_ref().map(|v| v.trim().parse::<i128>())", "length parsed wider than the helper field"),
    ("C05", "R5", SVC, '"    helpers::send_soap_request_using_client(&self.client, &self.location, credentials, req).await"', '"    helpers::send_soap_request_using_client(&self.client, &self.location, None, req).await"', "credentials not forwarded"),
]

# (file, old, new, note) — behaviour-preserving; every check must stay silent
BENIGN = [
    (READER, '        if file.processed.load(std::sync::atomic::Ordering::SeqCst) {\n            let rust_doc = RustDocument::empty();\n            return Ok(rust_doc);\n        }\n\n        let xml = &file.xml;\n        let doc = roxmltree::Document::parse(xml)\n            .map_err(|e| WriterError::new(format!("Unable to parse file {file_name}: {e}")))?;\n        let mut rust_doc = RustDocument::init(&doc);\n\n        // mark the file before its imports are followed, so that import cycles end here\n        file.processed.store(true, std::sync::atomic::Ordering::SeqCst);\n', '        // test and mark in one step, before the imports are followed, so that import cycles end here\n        if file.processed.swap(true, std::sync::atomic::Ordering::SeqCst) {\n            let rust_doc = RustDocument::empty();\n            return Ok(rust_doc);\n        }\n\n        let xml = &file.xml;\n        let doc = roxmltree::Document::parse(xml)\n            .map_err(|e| WriterError::new(format!("Unable to parse file {file_name}: {e}")))?;\n        let mut rust_doc = RustDocument::init(&doc);\n', "processed flag tested and set with one swap(true)"),
    (H, "        response.error_for_status_ref()?;\n        let response_body = response.text().await?;\n        let response = yaserde::de::from_str(&response_body).map_err(SoapError::YaserdeError)?;\n        Ok(response)\n    }\n}",
     "        ensure_success(&response)?;\n        let response_body = response.text().await?;\n        let response = yaserde::de::from_str(&response_body).map_err(SoapError::YaserdeError)?;\n        Ok(response)\n    }\n\n    fn ensure_success(response: &reqwest::Response) -> SoapResult<()> {\n        response.error_for_status_ref()?;\n        Ok(())\n    }\n}",
     "extract the status check into a private fn of the helper module"),
    (H, "let response_body = response.text().await?;\n        let response = yaserde::de::from_str(&response_body)", "let text_of_reply = response.text().await?;\n        let response = yaserde::de::from_str(&text_of_reply)", "rename a local in the helper"),
    (H, "            if let Some(c) = self {\n                c.check_restrictions(restrictions)?;\n            }\n            Ok(())", "            match self {\n                Some(c) => c.check_restrictions(restrictions),\n                None => Ok(()),\n            }", "if-let -> match in the Option impl"),
    (FIELD, 'node.attribute("minOccurs") == Some("0") || parent_is_optional || is_choice', 'Some("0") == node.attribute("minOccurs") || parent_is_optional || is_choice', "swap equality operands"),
    (FIELD, '        "boolean" => RustFieldType::Bool,', '        "boolean" => RustFieldType::Bool,\n        "token" | "ID" => RustFieldType::String,', "extra builtin rows outside the 27"),
    (DOC, '            writeln!(writer, "pub mod {module} {{")?;\n            writeln!(writer, "    use super::*;")?;', '            write!(writer, "pub mod {module} ")?;\n            writeln!(writer, "{{")?;\n            writeln!(writer, "    use super::*;")?;', "split one template into two writes"),
    (READER, "        let xml = &file.xml;\n        let doc = roxmltree::Document::parse(xml)", "        let xml = &file.xml;\n        log::debug!(\"parsing {file_name}\");\n        let doc = roxmltree::Document::parse(xml)", "add a logging call"),
    (WRITER, '    writeln!(writer, "    drop(restrictions);")?;\n    writeln!(writer, "    Ok(())")?;', '    writeln!(\n        writer,\n        "    drop(restrictions);"\n    )?;\n    writeln!(writer, "    Ok(())")?;', "reflow a template over several lines"),
    (MAIN, "    let document = XmlReader::read_xml(&files).expect(\"can not read xml\");\n    let mut buffer = Vec::new();", "    let mut buffer = Vec::new();\n    let document = XmlReader::read_xml(&files).expect(\"can not read xml\");", "reorder two independent lets"),
    (BW, "    let body_field_name = as_field_name(&to_snake_case(body));", "    let body_member = as_field_name(&to_snake_case(body));\n    let body_field_name = body_member;", "introduce an intermediate binding"),
    (H, "            self.inner.check_restrictions(restrictions)\n        }\n    }\n\n    impl<T: YaDeserialize>", "            let inner = &self.inner;\n            inner.check_restrictions(restrictions)\n        }\n    }\n\n    impl<T: YaDeserialize>", "bind self.inner to a local before forwarding"),
    (RESTR, '        if let Some(Ok(min_inclusive)) = self.min_inclusive.as_ref().map(|v| v.trim().parse::<i32>()) {\n            writeln!(writer, "   min_inclusive: Some({min_inclusive}), ")?;\n        }\n        if let Some(Ok(max_inclusive)) = self.max_inclusive.as_ref().map(|v| v.trim().parse::<i32>()) {\n            writeln!(writer, "   max_inclusive: Some({max_inclusive}), ")?;\n        }\n        if let Some(Ok(min_exclusive)) = self.min_exclusive.as_ref().map(|v| v.trim().parse::<i32>()) {\n            writeln!(writer, "   min_exclusive: Some({min_exclusive}), ")?;\n        }\n        if let Some(Ok(max_exclusive)) = self.max_exclusive.as_ref().map(|v| v.trim().parse::<i32>()) {\n            writeln!(writer, "   max_exclusive: Some({max_exclusive}), ")?;\n        }\n', '        let bounds = [\n            ("min_inclusive", &self.min_inclusive),\n            ("max_inclusive", &self.max_inclusive),\n            ("min_exclusive", &self.min_exclusive),\n            ("max_exclusive", &self.max_exclusive),\n        ];\n        for (facet, bound) in bounds {\n            if let Some(Ok(bound)) = bound.as_ref().map(|v| v.trim().parse::<i32>()) {\n                writeln!(writer, "   {facet}: Some({bound}), ")?;\n            }\n        }\n', "four facet blocks -> loop over an array literal (same types)"),
    (SVC, '.await.map(|_| ())"', '.await.map(|_| ())"  ', "whitespace after a template literal"),
]
