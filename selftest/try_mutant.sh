#!/bin/bash
# usage: try_mutant.sh <prop-id> <file-rel> <python-replace-old> <python-replace-new> [tier]
# Applies a one-hunk textual replacement to a scratch copy of $VERIF_REPO_SRC (default /repo), runs the check, removes the copy.
set -u
PID=$1; FILE=$2; OLD=$3; NEW=$4; TIER=${5:-quick}
SRC=${VERIF_REPO_SRC:-/repo}
TMP=$(mktemp -d /tmp/zeep-mut.XXXXXX)
rsync -a --exclude target --exclude .git "$SRC"/ "$TMP"/
python3 - "$TMP/$FILE" "$OLD" "$NEW" <<'PY'
import sys
p, old, new = sys.argv[1:4]
s = open(p).read()
if s.count(old) < 1:
    print("MUTANT-ERROR: pattern not found"); sys.exit(3)
s = s.replace(old, new, 1)
open(p, "w").write(s)
PY
rc=$?
if [ $rc -ne 0 ]; then rm -rf "$TMP"; exit 3; fi
cd /verif && VERIF_REPO="$TMP" ./check "$PID" "$TIER"
rc=$?
rm -rf "$TMP"
exit $rc
