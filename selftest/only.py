#!/usr/bin/env python3
"""usage: selftest/only.py Cnn [Cmm..] : run only the mutants of the named properties"""
import sys, os
sys.path.insert(0, os.path.dirname(os.path.abspath(__file__)))
import corpus, run
import concurrent.futures as cf
want = set(sys.argv[1:])
ms = [m for m in corpus.MUTANTS if m[0] in want]
bad = 0
with cf.ThreadPoolExecutor(8) as ex:
    for r in ex.map(run.run_mutant, ms):
        print(*[str(x)[:120] for x in r], flush=True)
        bad += r[0] != "CAUGHT"
print(bad, "problem(s) of", len(ms))
