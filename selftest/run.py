#!/usr/bin/env python3
"""Both-ways self-test: every mutant of corpus.MUTANTS must be reported by its property's check with the expected rule,
every edit of corpus.BENIGN and every patch under selftest/benign/ must leave all 19 checks silent, every patch under seeded/ must be reported by its property's check. Each entry runs on its own scratch copy of the repository
(rsync to $TMPDIR, removed afterwards). Usage: selftest/run.py [mutants|benign|patches|all] [-j N]"""
import concurrent.futures as cf
import os
import re
import shutil
import subprocess
import sys
import tempfile

HERE = os.path.dirname(os.path.abspath(__file__))
VERIF = os.path.dirname(HERE)
sys.path.insert(0, HERE)
import corpus  # noqa: E402

SRC = os.environ.get("VERIF_REPO_SRC", "/repo")
ALL = [f"C{i:02d}" for i in range(1, 20)]


def scratch(file, old, new):
    tmp = tempfile.mkdtemp(prefix="zeep-st.", dir=os.environ.get("TMPDIR", "/tmp"))
    subprocess.run(["rsync", "-a", "--exclude", "target", "--exclude", ".git", SRC + "/", tmp + "/"], check=True)
    p = os.path.join(tmp, file)
    s = open(p).read()
    if s.count(old) < 1:
        shutil.rmtree(tmp)
        return None
    open(p, "w").write(s.replace(old, new, 1))
    return tmp


def compiles_and_tests(tmp):
    env = dict(os.environ, CARGO_TARGET_DIR=os.path.join(VERIF, ".cache", "target-selftest"), CARGO_NET_OFFLINE="true")
    r = subprocess.run(["cargo", "test", "--workspace", "--offline", "--no-fail-fast"], cwd=tmp, env=env, stdout=subprocess.PIPE, stderr=subprocess.STDOUT, text=True)
    m = re.search(r"test result: (\w+)\. (\d+) passed; (\d+) failed", r.stdout.split("Running unittests src/lib.rs")[-1]) if "src/lib.rs" in r.stdout else None
    return r.returncode == 0, r.stdout[-600:]


def check(tmp, pid):
    env = dict(os.environ, VERIF_REPO=tmp)
    r = subprocess.run([os.path.join(VERIF, "check"), pid, "quick"], cwd=VERIF, env=env, stdout=subprocess.PIPE, stderr=subprocess.STDOUT)
    return r.returncode, r.stdout.decode("utf-8", "replace")


def run_mutant(m):
    pid, rule, file, old, new, note = m
    tmp = scratch(file, old, new)
    if tmp is None:
        return ("STALE", pid, rule, note, "pattern not found in the current tree")
    try:
        rc, out = check(tmp, pid)
        if rc == 2:
            return ("NOCOMPILE", pid, rule, note, out[-300:])
        viol = re.findall(r"^   (\w+) @ ([^\n]*)\n      key: ([^\n]*)", out, re.M)
        rules = {v[0] for v in viol}
        if rc == 1 and rule in rules:
            key = [v[2] for v in viol if v[0] == rule][0]
            return ("CAUGHT", pid, rule, note, key)
        if rc == 1:
            return ("CAUGHT-OTHER-RULE", pid, rule, note, ",".join(sorted(rules)))
        return ("MISSED", pid, rule, note, "")
    finally:
        shutil.rmtree(tmp, ignore_errors=True)


def run_benign(b):
    file, old, new, note = b
    tmp = scratch(file, old, new)
    if tmp is None:
        return ("STALE", note, "pattern not found")
    try:
        noisy = []
        for pid in ALL:
            rc, out = check(tmp, pid)
            if rc == 2:
                return ("NOCOMPILE", note, out[-300:])
            if rc != 0:
                keys = re.findall(r"key: ([^\n]*)", out)
                noisy.append(f"{pid}: {keys[:2]}")
        return ("SILENT" if not noisy else "FALSE-ALARM", note, "; ".join(noisy))
    finally:
        shutil.rmtree(tmp, ignore_errors=True)


def _apply(patch, tmp):
    r = subprocess.run(["patch", "-p1", "-s", "-d", tmp, "-i", patch], capture_output=True, text=True)
    return r.returncode == 0, (r.stdout + r.stderr)[:200]


def _benign_patch(patch):
    tmp = tempfile.mkdtemp(prefix="zeep-bp.", dir=os.environ.get("TMPDIR", "/tmp"))
    try:
        subprocess.run(["rsync", "-a", "--exclude", "target", "--exclude", ".git", SRC + "/", tmp + "/"], check=True)
        ok, why = _apply(patch, tmp)
        if not ok:
            return patch, ["DOES NOT APPLY: " + why]
        noisy = []
        for pid in ALL:
            rc, out = check(tmp, pid)
            if rc != 0:
                keys = re.findall(r"key: ([^\n]*)", out)[:3]
                noisy.append(f"{pid} rc={rc}: {keys}")
        return patch, noisy
    finally:
        shutil.rmtree(tmp, ignore_errors=True)


def _seed(d):
    import json
    meta = json.load(open(os.path.join(d, "meta.json")))
    pid = meta["property"]
    tmp = tempfile.mkdtemp(prefix="zeep-sd.", dir=os.environ.get("TMPDIR", "/tmp"))
    try:
        subprocess.run(["rsync", "-a", "--exclude", "target", "--exclude", ".git", SRC + "/", tmp + "/"], check=True)
        ok, why = _apply(os.path.join(d, "patch.diff"), tmp)
        if not ok:
            return ("STALE", pid, os.path.basename(d), "patch does not apply to the current tree")
        rc, out = check(tmp, pid)
        keys = re.findall(r"key: ([^\n]*)", out)
        return ({0: "MISSED", 1: "CAUGHT", 2: "NOCOMPILE"}.get(rc, str(rc)), pid, os.path.basename(d), "; ".join(keys[:2])[:200])
    finally:
        shutil.rmtree(tmp, ignore_errors=True)


def main():
    what = sys.argv[1] if len(sys.argv) > 1 else "all"
    jobs = 6
    if "-j" in sys.argv:
        jobs = int(sys.argv[sys.argv.index("-j") + 1])
    bad = 0
    results = {"mutants": [], "benign": []}
    if what in ("mutants", "all"):
        with cf.ThreadPoolExecutor(jobs) as ex:
            for r in ex.map(run_mutant, corpus.MUTANTS):
                print("MUTANT", *[str(x)[:110] for x in r], flush=True)
                results["mutants"].append(dict(zip(("status", "property", "rule", "note", "key"), r)))
                if r[0] not in ("CAUGHT",):
                    bad += 1
    if what in ("benign", "all"):
        with cf.ThreadPoolExecutor(max(1, jobs // 2)) as ex:
            for r in ex.map(run_benign, corpus.BENIGN):
                print("BENIGN", *[str(x)[:200] for x in r], flush=True)
                results["benign"].append(dict(zip(("status", "note", "detail"), r)))
                if r[0] != "SILENT":
                    bad += 1
    if what in ("patches", "all"):
        # independently written behaviour-preserving refactorings (selftest/benign/<set>/*.diff): all checks silent
        import glob
        sys.path.insert(0, os.path.join(VERIF, "tools"))
        results["patches"] = []
        results["seeded"] = []
        pats = sorted(glob.glob(os.path.join(HERE, "benign", "*", "*.diff")))
        with cf.ThreadPoolExecutor(max(1, jobs // 2)) as ex:
            for pth, noisy in ex.map(_benign_patch, pats):
                status = "SILENT" if not noisy else ("STALE" if noisy and noisy[0].startswith("DOES NOT APPLY") else "FALSE-ALARM")
                print("PATCH", status, os.path.relpath(pth, HERE), "; ".join(noisy)[:300], flush=True)
                results["patches"].append({"status": status, "patch": os.path.relpath(pth, HERE), "detail": "; ".join(noisy)[:300]})
                if status == "FALSE-ALARM":
                    bad += 1
        # independently seeded breaking changes (seeded/<name>/patch.diff): the property's check must report each
        for d in sorted(glob.glob(os.path.join(VERIF, "seeded", "*"))):
            r = _seed(d)
            print("SEED", *r, flush=True)
            results["seeded"].append(dict(zip(("status", "property", "name", "key"), r)))
            if r[0] not in ("CAUGHT", "STALE"):
                bad += 1
    print(f"selftest: {bad} problem(s)")
    if what == "all":
        import json
        json.dump(results, open(os.path.join(HERE, "RESULTS.json"), "w"), indent=1, ensure_ascii=False)
    return 1 if bad else 0


if __name__ == "__main__":
    sys.exit(main())
