"""C01 — emitted Rust compiles against the documented dependencies only."""
import re

from engine.rulekit import hir as Hh
from engine.rulekit import og
from engine.rulekit import witness as W
from rules import templates as T

ZEEP_ONLY_CRATES = ("thiserror", "roxmltree", "const_format", "inflector", "env_logger", "zeep_lib", "zeep", "clap", "url",
                    "Inflector")
RE_DEF = re.compile(r"^\s*(?:pub(?:\([a-z]+\))? )?(?:async )?(struct|type|mod|fn|enum|trait) " + T.NAME)
RE_IMPL = re.compile(r"^\s*impl(?:<[^>]*>)? (?:[\w:]+ for )?" + T.NAME + r" \{")


def run(ck, F):
    ck.explanation = (
        "(R1) the input-independent part of every output (compiler-evaluated HEADER constant + helper text) is assembled into a "
        "crate and type-checked by rustc against exactly the six documented crates; (R2) the helper text emitted is byte-identical "
        "to the helper module compiled into zeep-lib and both fixed emitters send their constant unmodified; (R4) definition/use "
        "spelling agreement: for each reference class (struct names, module names, envelope names) the sanitiser chain of every "
        "reference hole equals that of the definition hole it must bind to, computed on provenance normal forms of the output "
        "grammar and on field summaries of the model constructors; (R6) every item definition emitted under loops has a name that "
        "depends on each enclosing loop element (or is nested in a module/impl whose name does). Whole-output compilation for every "
        "schema is not claimed.")
    ck.assumptions = ["Inflector's case conversions are functions of their input (same input, same spelling)",
                      "name collisions between distinct XML names that normalise to one identifier depend on input data and are not decided"]
    ck.rule("R1", "prelude closure: HEADER + helper text type-checks as a crate with only yaserde, yaserde_derive, xml-rs, log, reqwest, tokio")
    ck.rule("R2", "helper identity: the emitted helper constant equals the source of module model::helpers_content byte for byte; "
                  "FileHeader/Helpers emit exactly their constant; RustDocument::write_xml emits the header first and the helpers last, unconditionally")
    ck.rule("R4", "definition/use spelling agreement per reference class (type names, module names, envelope names)")
    ck.rule("R3", "skeleton witness: derivations of the output grammar (every emit site, loops 0/1/2, both branches of every condition) rendered "
                  "with canonical lexemes type-check against the real prelude with the six documented crates")
    ck.rule("R3a", "member separators: every struct member template that can be followed by another member ends with `,`")
    ck.rule("R5", "dependency lexicon: no crate that only zeep depends on is named in the prelude text")
    ck.rule("R7", "self-alias guard: `pub type A = <path>::B;` is emitted only when the spelling A that is emitted differs from the last segment "
                  "of the type it aliases (otherwise the alias collides with the definition of that type)")
    ck.rule("R6", "name injectivity under loops: definition templates depend on every enclosing loop element or sit in a module/impl that does")
    X = T.extractor(F)
    for fn, u in X.errors.items():
        ck.undecided("R4", f"unrecognised:{u.what[:60]}", Hh.sp(u.node) if u.node else "-", f"{fn}: output grammar extraction failed: {u.what}", fn=fn)
    # ---- R1
    try:
        segs = W.prelude_segments(F)
    except W.FixedTextUnreadable as u:
        ck.violation("R2", "HELPERS:emitted-verbatim", "-", f"the file header / helper text is not written as one fixed text, unconditionally: {u}")
        ck.undecided("R1", "prelude", "-", "the fixed part of the output could not be assembled (see R2)")
        return
    ok, diags = W.check(F, segs, "c18")
    if ok:
        ck.ok("R1", "prelude-typechecks", "witness/prelude", "HEADER + helpers + witnesses type-check against the six documented crates")
    else:
        seen = set()
        for d in diags:
            if d["segment"] == "witness":
                continue  # Send/trait witnesses are C18/C19 obligations
            key = f"{d['segment']}:{d['code']}:{d['text'][:60]}"
            if key in seen:
                continue
            seen.add(key)
            ck.violation("R1", f"prelude:{d['segment']}:{d['code']}:{_ident(d['text'])}", f"{d['segment']}:{d['line']}",
                         f"the fixed part of the output does not compile with the documented dependencies only ({d['code']}): "
                         f"{d['message'][:240]} | {d['text']}")
        if not seen:
            ck.ok("R1", "prelude-typechecks", "witness/prelude", "prelude compiles (only witness obligations of C18/C19 fail)")
    # ---- R2
    from rules import anchors as A
    helpers_const, helpers_why = A.helpers_text(F, X)
    header_const, header_why = A.header_text(F, X)
    mod = [m for m in F.lib.items["modules"] if m["path"] == "model::helpers_content"]
    if not mod:
        ck.undecided("R2", "helper-module", "-", "module model::helpers_content not found (the emitted helper is no longer compiled into zeep-lib)")
    else:
        path = mod[0]["file"].rsplit(":", 2)[0]
        try:
            src = F.src(path)
        except OSError:
            src = None
        if src is not None and src == helpers_const:
            ck.ok("R2", "helper-identity", path, f"emitted helper constant == {path} ({len(src)} bytes)")
        else:
            ck.violation("R2", "helper-identity", path,
                         "the helper text that is emitted differs from the helper module that is compiled (and analysed) inside zeep-lib")
    for fn, cname, txt, why in ((A.HEADER_WRITER, "HEADER", header_const, header_why), (A.HELPERS_WRITER, "HELPERS", helpers_const, helpers_why)):
        evs = X.events.get(fn, [])
        if txt is not None:
            ck.ok("R2", f"{cname}:emitted-verbatim", evs[0].site if evs else "-", f"{fn.split(' as ')[0][1:]} writes one fixed text ({len(txt)} bytes), unconditionally, result propagated")
        else:
            ck.violation("R2", f"{cname}:emitted-verbatim", evs[0].site if evs else "-",
                         f"{fn} does not write one fixed text unconditionally: {why}")
    root = X.events.get(T.ROOT, [])
    if root and root[0].kind == "call" and "FileHeader" in root[0].callee and not root[0].ctx and \
            root[-1].kind == "call" and "helpers::Helpers" in root[-1].callee and not root[-1].ctx:
        ck.ok("R2", "header-first-helpers-last", root[0].site, "RustDocument::write_xml: header first, helper text last, both unconditional")
    else:
        ck.violation("R2", "header-first-helpers-last", root[0].site if root else "-",
                     "RustDocument::write_xml does not start with the file header and end with the helper text unconditionally")
    # ---- R5
    text = (header_const or "") + (helpers_const or "")
    code = re.sub(r"//[^\n]*", "", text)
    roots = set(re.findall(r"(?<![\w:.])([a-zA-Z_]\w*)::", code))
    bad = sorted(r for r in roots if r in ZEEP_ONLY_CRATES)
    if bad:
        ck.violation("R5", "crate-roots:" + ",".join(bad), "helpers_content.rs", f"the prelude names crates that generated code may not depend on: {bad}")
    else:
        ck.ok("R5", "crate-roots", "helpers_content.rs", f"{len(roots)} path roots in the prelude, none of them a zeep-only crate")
    rule_spelling(ck, F, X)
    rule_injectivity(ck, F, X)
    # one module per target namespace, named after its abbreviation: the names are distinct only if the abbreviations are. The
    # uniqueness obligations of C10 (a new abbreviation is tested against every namespace of the document, one allocation per URI),
    # decided here as well
    from rules import c04 as C04
    from rules import c10 as C10
    C10.run(C04._Sub(ck, "R6", lambda key: True, only_rules=("R1", "R2", "R3")), F)
    # .. and an item is written into the module of the namespace that was current when it was read: a reference to it names the module of
    # its own namespace, so the two agree only if every schema element and every definition read out of its turn is read under its own
    # namespace and the previous one is current again afterwards (C10.R6)
    C10.run(C04._Sub(ck, "R4", lambda key: key.startswith(("out-of-turn", "switch-always", "schema-under-own")) or "floor" in key, only_rules=("R6",)), F)
    rule_self_alias(ck, F, X)
    rule_member_separators(ck, F, X)
    rule_doc_comments_document(ck, F, X)
    rule_refs_name_derivable_items(ck, F, X)
    rule_skeletons(ck, F)


def _ident(text):
    m = re.findall(r"[A-Za-z_]\w+", text)
    return "_".join(m[:4])


# ---- R4 -------------------------------------------------------------------------------------------

def rule_spelling(ck, F, X):
    CE = og.CallExpander(F)
    stream = list(T.inline(X, T.ROOT))
    # (a) type names: definitions
    type_defs = []
    env_defs = []
    for ev in stream:
        if ev.kind != "emit":
            continue
        sk = ev.skeleton()
        m = RE_DEF.match(sk)
        if not m or "{}" not in m.group(2):
            continue
        kind = m.group(1)
        nf = CE.expand(T._name_of(ev, m, 2))
        if kind in ("struct", "type"):
            if nf[0] == "format":
                env_defs.append((ev, nf))
            else:
                type_defs.append((ev, nf))
    chains = {}
    for ev, nf in type_defs:
        ch, root = og.sanitiser_chain(nf)
        chains.setdefault(tuple(ch), []).append(ev)
    ck.count("R4:type definition templates", len(type_defs))
    def_chain = None
    if len(chains) == 1:
        def_chain = list(chains)[0]
        ck.ok("R4", "type-defs:one-spelling", type_defs[0][0].site, f"all {len(type_defs)} struct/type definitions spell their name with {list(def_chain)}")
    else:
        # service struct names are raw on purpose (WSDL service name) - they are not referenced by type holes; split them off
        svc = [c for c, evs in chains.items() if all("SoapService" in e.fn for e in evs)]
        rest = {c: e for c, e in chains.items() if c not in svc}
        if len(rest) == 1:
            def_chain = list(rest)[0]
            ck.ok("R4", "type-defs:one-spelling", type_defs[0][0].site,
                  f"all schema-type definitions spell their name with {list(def_chain)} (service struct: {[list(s) for s in svc]})")
        else:
            ck.violation("R4", "type-defs:mixed-spelling", type_defs[0][0].site if type_defs else "-",
                         f"struct/type definitions use different name spellings: {[list(c) for c in chains]}")
    # references (i): OtherRustType.name at every constructor
    if def_chain is not None:
        n_refs = 0
        from engine.rulekit import scans
        live = scans.api_reachable(F.lib)
        for (fn, site, ctx, fields, base) in og.field_summaries(F, "field::OtherRustType"):
            if " as std::clone::Clone>" in fn or fn.endswith("OtherRustType::new"):
                continue
            if fn not in live:
                continue  # dead code: cannot reach the output
            if "name" not in fields:
                continue
            n_refs += 1
            # where a reference is qualified with its module must not depend on where it was read: members are also written into
            # other modules than the one of the schema they were declared in (inherited members, envelopes), where only a path resolves
            if "module" in fields:
                mtxt = og.nf_str(CE.expand(fields["module"])) + " " + " ".join(og.nf_str(CE.expand(c[1])) for c in ctx if c[0] == "alt")
                positional = [w for w in ("current_target_namespace", "target_namespaces") if w in mtxt]
                short_ = fn.rsplit("::", 1)[-1]
                if positional:
                    ck.violation("R4", "type-ref:module-depends-on-position", site,
                                 f"{short_}: whether (or how) a type reference is qualified with its module depends on `{positional[0]}`, i.e. on "
                                 f"which schema was being read: the reference is also written into other modules (inherited members), where the "
                                 f"unqualified name does not resolve", fn="")
                else:
                    ck.ok("R4", "type-ref:module-from-prefix-only", site, f"{short_}: the module qualification of a reference is a function of its prefix only", fn="")
            ch, root = og.sanitiser_chain(CE.expand(fields["name"]))
            short = fn.replace("model::", "")
            if tuple(ch) == def_chain:
                ck.ok("R4", "type-ref:OtherRustType.name", site, f"{short}: referenced type name spelled {ch} like its definition", fn=short)
            else:
                ck.violation("R4", "type-ref:OtherRustType.name", site,
                             f"{short}: a field type refers to a generated struct by `{og.nf_str(fields['name'])[:80]}` (spelling {ch}) but the "
                             f"struct is defined as {list(def_chain)}(xml name): the reference does not resolve unless the XML name is already in that case", fn=short)
        ck.floor("R4", "OtherRustType construction sites", n_refs, 2)
        # references (ii): envelope member types in write_soap_operation
        n_env = 0
        from rules import anchors as A
        for fn in X.events:
            if fn != A.envelope_emitter(X):
                continue
            for g in T.struct_groups(X, fn):
                for (ev, name, ctx, tytext) in g.members:
                    holes = ev.holes()
                    name_is_hole = T.RE_MEMBER.match(ev.skeleton()).group(1) == "{}"
                    for (nf, tr, ty) in holes[1 if name_is_hole else 0:]:
                        e = CE.expand(nf)
                        if og.nf_str(e).endswith(".rust_mod_name"):
                            continue  # module reference, class (b)
                        if e[0] == "param" or og.nf_str(e).startswith("envelope_name") or e[0] == "format":
                            continue  # envelope-name class (c)
                        n_env += 1
                        ch, root = og.sanitiser_chain(e)
                        gname = og.nf_str(g.name)
                        alt_tag = "+ns" if any(c[0] == "alt" and "in_namespace" in og.nf_str(c[1]) and c[2] for c in ev.ctx) else "-ns"
                        gkey = _name_key(g.name) if g.name[0] != "lit" else g.name[1]
                        if tuple(ch) == def_chain:
                            ck.ok("R4", f"type-ref:{gkey}:{alt_tag}", ev.site, f"envelope member type spelled {ch}", fn="envelope")
                        else:
                            ck.violation("R4", f"type-ref:{gkey}:{alt_tag}", ev.site,
                                         f"envelope struct `{gname}`: member type `{og.nf_str(nf)[:90]}` is spelled {ch} but generated structs are "
                                         f"defined as {list(def_chain)}(xml name): does not compile for element names that are not already in that case",
                                         fn="envelope")
        ck.floor("R4", "envelope member type references", n_env, 2)
    # (b) module names: definition vs references
    mod_defs = [ev for ev in stream if ev.kind == "emit" and RE_DEF.match(ev.skeleton()) and RE_DEF.match(ev.skeleton()).group(1) == "mod"]
    for ev in mod_defs:
        mm = RE_DEF.match(ev.skeleton())
        nf = T._name_of(ev, mm, 2) if "{}" in mm.group(2) else None
        if nf is not None and og.nf_str(nf).endswith(".rust_mod_name"):
            ck.ok("R4", "module-def", ev.site, "module name = Namespace.rust_mod_name")
        else:
            ck.violation("R4", "module-def", ev.site, f"module definition name is {og.nf_str(nf) if nf else 'a literal'}, not Namespace.rust_mod_name")
    for (fn, site, ctx, fields, base) in og.field_summaries(F, "field::OtherRustType"):
        if "module" not in fields or " as std::clone::Clone>" in fn or fn.endswith("OtherRustType::new"):
            continue
        s = og.nf_str(CE.expand(fields["module"]))
        short = fn.replace("model::", "")
        if "rust_mod_name" in s:
            ck.ok("R4", "module-ref:OtherRustType.module", site, f"{short}: module reference = Namespace.rust_mod_name", fn=short)
        else:
            ck.violation("R4", "module-ref:OtherRustType.module", site, f"{short}: module reference `{s[:100]}` is not a Namespace.rust_mod_name", fn=short)
    # (c) envelope names
    env_def_chains = set()
    for ev, nf in env_defs:
        op = [p[1] for p in nf[1] if p[0] == "hole"]
        for o in op:
            ch, root = og.sanitiser_chain(o)
            env_def_chains.add((tuple(ch), "".join(p[1] for p in nf[1] if p[0] == "lit")))
    spell = {c for c, _ in env_def_chains}
    ck.count("R4:envelope definition templates", len(env_defs))
    if len(spell) != 1:
        ck.violation("R4", "envelope-defs:mixed-spelling", env_defs[0][0].site if env_defs else "-", f"envelope definitions use spellings {sorted(spell)}")
        return
    espell = list(spell)[0]
    suffixes = {s for _, s in env_def_chains}
    n = 0
    for ev in stream:
        if ev.kind != "emit" or RE_DEF.match(ev.skeleton()) and RE_DEF.match(ev.skeleton()).group(1) in ("struct",):
            continue
        regions = [(nf_, "display", "?") for nf_, _txt in T.name_regions(ev) if nf_[0] == "format"]
        for (nf, tr, ty) in list(ev.holes()) + regions:
            e = CE.expand(nf)
            cands = [e]
            if e[0] == "payload":
                cands = [e[2]]
            for c in cands:
                fmts = [c] if c[0] == "format" else ([c[2]] if c[0] == "map" and c[2][0] == "format" else [])
                for f in fmts:
                    lit = "".join(p[1] for p in f[1] if p[0] == "lit")
                    if lit not in suffixes:
                        continue
                    n += 1
                    for p in f[1]:
                        if p[0] == "hole":
                            ch, root = og.sanitiser_chain(p[1])
                            fnshort = ev.fn.rsplit("::", 1)[-1]
                            if tuple(ch) == espell:
                                ck.ok("R4", f"envelope-ref:{fnshort}:{lit}", ev.site, f"{fnshort}: `…{lit}` reference spelled {list(ch)} like the definition", fn=fnshort)
                            else:
                                ck.violation("R4", f"envelope-ref:{fnshort}:{lit}", ev.site,
                                             f"{fnshort} refers to `{{op}}{lit}` with the operation name spelled {list(ch)}, but the envelope struct is defined "
                                             f"with {list(espell)}: operations whose name is not already in that case produce code that does not compile", fn=fnshort)
    ck.floor("R4", "envelope name references", n, 2)


# ---- R6 -------------------------------------------------------------------------------------------

_KEY_CE = [None]


def _name_key(nf):
    """Stable short descriptor of a name normal form: `{}` + literal text for formats, else the last field of the root."""
    if nf[0] == "format":
        return "".join(p[1] if p[0] == "lit" else "{}" for p in nf[1])
    if _KEY_CE[0] is not None:
        nf = _KEY_CE[0].expand(nf)      # the same name whether or not the naming helper was already opened where it was found
        if nf[0] == "format":
            return "".join(p[1] if p[0] == "lit" else "{}" for p in nf[1])
    ch, root = og.sanitiser_chain(nf)
    r = og.nf_str(root)
    r = r.rsplit(".", 1)[-1] if "." in r else r
    r = re.sub(r"[^A-Za-z0-9_]", "", r)
    case = "pascal:" if any("pascal" in c for c in ch) else "snake:" if any("snake" in c for c in ch) else ""
    return case + r[:30]


def _tokens(nf, star_iters):
    """Which enclosing loop elements does nf depend on, not counting occurrences inside the iterator expression of an inner loop."""
    found = set()

    def walk(n):
        if not isinstance(n, tuple):
            return
        if n and n[0] == "elem":
            for k, it in enumerate(star_iters):
                if n[1] == it:
                    found.add(k)
                    return  # do not descend into the iterator expression
        for x in n[1:] if n and isinstance(n[0], str) else n:
            if isinstance(x, tuple):
                walk(x)
    walk(nf)
    return found


def rule_injectivity(ck, F, X):
    _KEY_CE[0] = T._ce(X)
    stream = list(T.inline(X, T.ROOT))
    scopes = []  # stack of (kind, name_nf, ctx) for `pub mod {..} {` and `impl {..} {`
    n = 0
    for ev in stream:
        if ev.kind != "emit":
            continue
        sk = ev.skeleton()
        m = RE_DEF.match(sk)
        mi = RE_IMPL.match(sk)
        star_iters = T.stars(ev.ctx)
        if mi and not m:
            if "{}" in mi.group(1) and ev.holes():
                scopes.append(("impl", T._name_of(ev, mi, 1), ev.ctx))
            continue
        if not m:
            continue
        kind = m.group(1)
        if "{}" not in m.group(2):
            continue
        name = T._name_of(ev, m, 2)
        if kind == "mod":
            scopes.append(("mod", name, ev.ctx))
        if not star_iters:
            continue
        n += 1
        have = _tokens(name, star_iters)
        # enclosing module / impl (same loop prefix) contributes its tokens
        for (sk_kind, sname, sctx) in scopes:
            s_iters = T.stars(sctx)
            if len(s_iters) <= len(star_iters) and star_iters[:len(s_iters)] == s_iters and (sk_kind, sname) != (kind, name):
                if kind == "fn" and sk_kind == "impl" or sk_kind == "mod":
                    have |= _tokens(sname, star_iters)
        missing = [k for k in range(len(star_iters)) if k not in have]
        fnshort = ""    # the template is identified by kind and name: which function holds the line is incidental
        desc = f"{kind}:{''.join(p[1] for p in ev.parts if p[0] == 'lit').strip()[:40]}:{og.nf_str(name)[:60]}"
        if missing:
            ck.violation("R6", f"{kind}:{_name_key(name)}", ev.site,
                         f"`{kind} {og.nf_str(name)[:80]}` is emitted once per element of {[og.nf_str(star_iters[k])[:60] for k in missing]} but its name "
                         f"does not depend on that element: two such elements produce two items with the same name (E0428)", fn=fnshort)
        else:
            ck.ok("R6", f"{kind}:{_name_key(name)}", ev.site, f"name depends on all {len(star_iters)} enclosing loop element(s)", fn=fnshort)
    ck.floor("R6", "definition templates under loops", n, 3)


ITEM_START = re.compile(r"^\s*(///|//!|#\[|#!\[|pub[ (]|impl[ <]|mod |struct |type |fn |async |unsafe |enum |use |const |static |trait |extern |macro_rules!)")


def _decisions(ctx):
    return [og.decision(c[1], c[2]) for c in ctx if c[0] == "alt"]     # (markers like ("nostar", ..) carry no decision)


def _variant_of(c):
    """(scrutinee, constructor) of a condition `x is Variant(..)` taken on the true branch"""
    if c[0] == "alt" and c[2] is True and isinstance(c[1], tuple) and c[1][0] == "islet":
        head = str(c[1][1]).split("(")[0].split("{")[0].strip().rsplit("::", 1)[-1]
        if head[:1].isupper():
            return (c[1][2], head)
    return None


def _excluded_by(dctx, ectx):
    """can an event with context ectx not happen in the same pass through the code as one with context dctx? (one decision taken
    both ways, or one value matched against two different variants)"""
    dd = dict(_decisions(dctx))
    for k_, v_ in _decisions(ectx):
        if k_ in dd and dd[k_] != v_:
            return True
    # the else-branch of a condition that is a conjunction (`if let Some(x) = opt.filter(p) { A } else { B }`): B is excluded where
    # all the conjuncts hold, and the other way round
    def terms(cond):
        # the conjuncts of a condition: what `og._conjuncts` splits (filters, chains) and an explicit `a && b`
        if isinstance(cond, tuple) and cond and cond[0] == "binop" and cond[1] == "And":
            return terms(cond[2]) + terms(cond[3])
        return list(og._conjuncts(cond))
    for first, second in ((dctx, ectx), (ectx, dctx)):
        have = {}
        for c in first:
            if c[0] == "alt" and c[2] is True:
                for x in terms(c[1]):
                    k_, v_ = og.decision(x[1], x[2])
                    have[k_] = v_
            elif c[0] == "alt":
                k_, v_ = og.decision(c[1], c[2])
                have[k_] = v_
        for c in second:
            if c[0] == "alt" and c[2] is False:
                cj = terms(c[1])
                if len(cj) > 1 and all(have.get(og.decision(x[1], x[2])[0]) == og.decision(x[1], x[2])[1] for x in cj):
                    return True
    dv = dict(x for x in (_variant_of(c) for c in dctx if c[0] == "alt") if x)
    for c in ectx:
        ve = _variant_of(c)
        if ve and ve[0] in dv and dv[ve[0]] != ve[1]:
            return True
    return False


def followers_of(stream, i):
    """(lines, can_end): the templates that can be the next line written after stream[i] — in the same pass, in the next round of an
    enclosing loop, or after that loop — up to (and including) the first one that is always written; can_end when the text can end
    without one. A line written only under further conditions can be absent: then (one of) those conditions failed, and whatever
    depends on them is absent as well."""
    D = stream[i]
    found = []
    memo = {}

    def scan(start, dctx, stop_at=None):
        key = (start, dctx, stop_at)
        if key in memo:
            return memo[key]
        memo[key] = {"end"}
        if len(memo) > 4000:
            return {"end"}
        j = start
        out = None
        while j < len(stream) and (stop_at is None or j < stop_at):
            E = stream[j]
            if _excluded_by(dctx, E.ctx) or any(c[0] == "star" and ("nostar", c[1]) in dctx for c in E.ctx):
                j += 1
                continue
            extras = [c for c in E.ctx if c not in dctx]
            if E not in found:
                found.append(E)
            if not extras:
                out = {"definite"}
                break
            out = set()
            for k_, x in enumerate(extras):
                neg = ("alt", x[1], not x[2]) if x[0] == "alt" else ("nostar", x[1])
                out |= scan(j + 1, dctx + tuple(extras[:k_]) + (neg,), stop_at)
            break
        if out is None:
            out = {"end"}
        memo[key] = out
        return out
    dctx = tuple(D.ctx)
    pos = i + 1
    result = None
    while True:
        stars_idx = [k for k, c in enumerate(dctx) if c[0] == "star"]
        if not stars_idx:
            result = "definite" if scan(pos, dctx) == {"definite"} else "end"
            break
        k = stars_idx[-1]
        loop_ctx = dctx[:k + 1]
        lo = i
        while lo > 0 and tuple(stream[lo - 1].ctx[:k + 1]) == loop_ctx:
            lo -= 1
        hi = i + 1
        while hi < len(stream) and tuple(stream[hi].ctx[:k + 1]) == loop_ctx:
            hi += 1
        if scan(pos, dctx, stop_at=hi) == {"definite"}:
            result = "definite"
            break
        scan(lo, loop_ctx, stop_at=hi)      # the next round of the loop starts at its first template
        dctx = dctx[:k]                       # .. or the loop is over
        pos = hi
    return found, result == "end"


def rule_doc_comments_document(ck, F, X):
    """A `///` line documents the item that follows it; rustc rejects a doc comment that is followed by a closing brace or by the
    end of the file ("expected item after doc comment"). Decided on the output grammar: for every template that writes a `///`
    line, every line that can come next — in the same pass, in the next round of an enclosing loop, or after that loop — must begin
    an item (or be another `///` / attribute line), until a line is reached that is always written."""
    try:
        stream = [e for e in T.inline(X, T.ROOT) if e.kind == "emit"]
    except og.Unrecognised as u:
        ck.undecided("R3", "doc-comment:grammar", "-", f"output grammar not extracted: {u}")
        return
    docs = [i for i, e in enumerate(stream) if re.match(r"^\s*///", e.skeleton())]
    ck.count("R3:doc comment templates", len(docs))
    for i in docs:
        D = stream[i]
        nxt, can_end = followers_of(stream, i)
        bad = next((E for E in nxt if not ITEM_START.match(E.skeleton())), None)
        if bad is None and can_end:
            ck.violation("R3", f"doc-comment:dangling:{D.fn.rsplit('::', 1)[-1]}", D.site,
                         "a `///` line can be the last thing written: a doc comment at the end of the file documents nothing (rustc: expected item "
                         "after doc comment)", fn="")
        elif bad is not None:
            ck.violation("R3", f"doc-comment:dangling:{D.fn.rsplit('::', 1)[-1]}", D.site,
                         f"the `///` line written here can be followed directly by `{bad.skeleton().strip()[:50]}` (written at {bad.site}): when the "
                         f"component it was written for produces no item, the comment documents nothing and the file does not compile "
                         f"(rustc: expected item after doc comment)", fn="")
        else:
            ck.ok("R3", f"doc-comment:documents:{D.fn.rsplit('::', 1)[-1]}", D.site, "every line that can follow this `///` line begins an item", fn="")
    ck.floor("R3", "doc comment templates", len(docs), 2)


def rule_refs_name_derivable_items(ck, F, X):
    """A member whose type names an item of the output gets `YaSerialize` / `YaDeserialize` through the derive of its struct, which
    needs those traits for the member's type *as written*: a struct of the output has them, an alias of a built-in type
    (`pub type Note = String;`, what a global element of a built-in type is written as) does not (E0277). A member made from
    `ref="t:note"` therefore must not be typed with the alias. Decided by evaluation: the type a `ref` member gets, for a looked-up
    node that is an element of a built-in type, is that built-in type and not a reference to the element's item."""
    from engine.rulekit import fde
    from rules import anchors as A_
    alias = []
    for fn in X.events:
        for ev in X.events[fn]:
            if ev.kind == "emit" and re.match(r"^\s*pub type \{\} = \{\};", ev.skeleton()):
                hs = ev.holes()
                if len(hs) == 2 and str(hs[1][2] or "").replace("&", "").strip().endswith("RustFieldType"):
                    alias.append(ev)
    if not alias:
        ck.ok("R4", "ref-names-derivable-item", "-", "no item of the output is an alias that can stand for a built-in type")
        return
    CEM = og.CallExpander(F, general_matches=True)
    lookups = {p_ for p_, _n, _s in A_.component_lookups(F)}
    CEM.keep |= set(lookups)
    node = {"rust_type": ("variant", "model::structures::RustType::Element",
                          ({"xml_name": "note", "comment": None,
                            "element_type": ("variant", "model::structures::element::ElementType::RustType", (("variant", "model::field::RustFieldType::String"),))},)),
            "in_namespace": None}
    n = 0
    for (fn, site, ctx, fields, base) in og.field_summaries(F, "model::field::Field"):
        if "try_from_node" not in fn or "rust_type" not in fields:
            continue
        if not og.ctx_says_present(ctx, "'ref'"):
            continue
        v = CEM.expand(fields["rust_type"])
        calls = [c for c in og.nf_calls(v) if c[1] in lookups] + [c for x in ctx if x[0] == "alt" for c in og.nf_calls(CEM.expand(x[1])) if c[1] in lookups]
        # (the type may not look at the node at all: then it is what it is for every node)
        n += 1
        try:
            got = fde.Evaluator({c: fde.some(node) for c in calls}, opaque=True).ev(v)
        except fde.Undecided as u:
            if og.nf_str(v) == "String" or (isinstance(v, tuple) and v[0] == "const" and not str(v[1]).endswith("Other")):
                continue
            ck.undecided("R4", "ref-names-derivable-item", site, f"the type a `ref` member gets could not be evaluated for an element of a built-in type: {u}")
            continue
        # .. and for an element whose type is a user type, the member refers to the element's own item through the module of the
        # reference's prefix: the type reference stored with the element was written for the element's place, not for this one
        node2 = {"rust_type": ("variant", "model::structures::RustType::Element",
                               ({"xml_name": "homeAddress", "comment": None,
                                 "element_type": ("variant", "model::structures::element::ElementType::RustType",
                                                  (("variant", "model::field::RustFieldType::Other", ({"name": "Address_", "module": None},)),))},)),
                 "in_namespace": None}
        try:
            got2 = fde.Evaluator({c: fde.some(node2) for c in calls}, opaque=True).ev(v)
        except fde.Undecided:
            got2 = None
        if isinstance(got2, tuple) and got2 and got2[0] == "variant" and str(got2[1]).rsplit("::", 1)[-1] == "Other" and len(got2) > 2 and got2[2] \
                and isinstance(got2[2][0], dict) and got2[2][0].get("name") == "Address_":
            ck.violation("R4", "ref-type-from-reference", site,
                         "a member made from `ref=` to a global element of a user type takes over the type reference stored with that element "
                         "(its name and — missing — module were written for the element's own namespace): in the struct that holds the member the "
                         "name resolves in another module, to another namespace's type of that name or to nothing")
        elif got2 is not None:
            ck.ok("R4", "ref-type-from-reference", site, "a `ref` to an element of a user type refers to the element's item through the module of the reference")
        if isinstance(got, tuple) and got and got[0] == "variant" and str(got[1]).rsplit("::", 1)[-1] == "Other":
            ck.violation("R4", "ref-names-derivable-item", site,
                         "a member made from `ref=` to a global element of a built-in type is typed with the element's item, which is written as "
                         f"`pub type X = <built-in>;` ({alias[0].site}): yaserde's derive needs YaSerialize / YaDeserialize for the type as written and "
                         "an alias of `String` / a number has neither (E0277: the output does not compile)")
        elif isinstance(got, tuple) and got and got[0] == "variant":
            ck.ok("R4", "ref-names-derivable-item", site, f"a `ref` to an element of a built-in type gives the member that type ({str(got[1]).rsplit('::', 1)[-1]})")
        else:
            ck.undecided("R4", "ref-names-derivable-item", site, f"the type a `ref` member gets for an element of a built-in type evaluates to {str(got)[:80]}")
    if n == 0:
        ck.undecided("R4", "ref-names-derivable-item", "-", "no place where a member is made from a `ref` attribute was found")


def rule_member_separators(ck, F, X):
    n = 0
    for fn in T.struct_emitters(X):
        for g in T.struct_groups(X, fn):
            base = g.open.ctx
            for i, (ev, name, ctx, tytext) in enumerate(g.members):
                n += 1
                under_star = bool(T.stars(T.relative_ctx(ctx, base)))
                followed = any(T.stars(T.relative_ctx(c2, base)) != T.stars(T.relative_ctx(ctx, base)) or e2 is not ev
                               for (e2, _, c2, _) in g.members[i + 1:]
                               if not _exclusive(T.relative_ctx(ctx, base), T.relative_ctx(c2, base)))
                ends_comma = ev.skeleton().rstrip().endswith(",")
                gname = _name_key(g.name) if g.name[0] != "lit" else g.name[1]
                alt_tag = "".join("T" if c[2] else "F" for c in T.relative_ctx(ctx, base) if c[0] == "alt")
                key = f"{gname}:{_name_key(name) if name[0] != 'lit' else name[1]}:{alt_tag}"
                if (under_star or followed) and not ends_comma:
                    ck.violation("R3a", key, ev.site,
                                 f"struct `{gname}`: member template `{ev.skeleton().strip()}` can be followed by another member but has no trailing "
                                 f"comma: the emitted struct does not parse", fn=fn.rsplit("::", 1)[-1])
                else:
                    ck.ok("R3a", key, ev.site, "member template is separated from what can follow it", fn=fn.rsplit("::", 1)[-1])
    ck.floor("R3a", "struct member templates", n, 4)


def _exclusive(c1, c2):
    """Two contexts that can never both be taken in one derivation (opposite branches of the same condition)."""
    a1 = {(og.nf_str(c[1]), c[2]) for c in c1 if c[0] == "alt"}
    a2 = {(og.nf_str(c[1]), c[2]) for c in c2 if c[0] == "alt"}
    return any((k, not v) in a2 for (k, v) in a1)


def rule_skeletons(ck, F):
    from rules import e4
    res = e4.run(F, ck.tier)
    ck.count("R3:samples", res["samples"])
    ck.count("R3:template instances type-checked", res["instances"])
    ck.floor("R3", "emit sites covered by a type-checked derivation", res["covered"], 50)
    for ev in res["uncovered"]:
        ck.undecided("R3", f"uncovered:{ev.fn.rsplit('::', 1)[-1]}:{_skel_key(ev.skeleton())}", ev.site,
                     f"template `{ev.skeleton().strip()[:70]}` is not reached by any sampled derivation")
    seen = set()
    for d, m in res["template_errors"]:
        if m is None:
            key = f"sample:{d['code']}:{_ident(d['text'])}"
            site = f"{d['segment']}:{d['line']}"
            fn = "?"
            tmpl = d["text"]
        else:
            site, fnp, tmpl = m
            fn = fnp.rsplit("::", 1)[-1]
            key = f"{fn}:{d['code']}:{_skel_key(tmpl)}"
        if key in seen:
            continue
        seen.add(key)
        ck.violation("R3", key, site,
                     f"a derivation of the output grammar does not compile ({d['code']}): {d['message'][:200]} — emitted line `{tmpl.strip()[:120]}`", fn=fn)
    for d in res["other"]:
        key = f"{d['segment']}:{d['code']}:{_ident(d['text'])}"
        if key in seen or d["segment"] == "witness":
            continue
        seen.add(key)
        ck.violation("R3", key, f"{d['segment']}:{d['line']}", f"sample crate does not compile ({d['code']}): {d['message'][:200]} | {d['text'][:100]}")
    if not res["template_errors"] and not [d for d in res["other"] if d["segment"] != "witness"]:
        ck.ok("R3", "skeletons-typecheck", "witness crate", f"{res['samples']} derivations ({res['instances']} template instances, "
              f"{res['covered']}/{res['sites']} emit sites) type-check against the prelude")


def _skel_key(t):
    return re.sub(r"\s+", " ", re.sub(r"[A-Za-z0-9_]{12,}", "{}", t)).strip()[:60]


def rule_self_alias(ck, F, X):
    CE = og.CallExpander(F)
    n = 0

    def strip(nf):
        while isinstance(nf, tuple) and nf[0] == "call" and str(nf[1]).rsplit("::", 1)[-1] in ("as_str", "as_ref", "deref", "to_string", "clone") and len(nf[2]) == 1:
            nf = nf[2][0]
        while isinstance(nf, tuple) and (nf[0] == "payload" or (nf[0] == "call" and nf[1] in ("Some", "Ok") and len(nf[2]) == 1)):
            nf = nf[2] if nf[0] == "payload" else nf[2][0]
        return nf

    def eqs(c, out):
        if isinstance(c, tuple) and c[0] == "binop" and c[1] == "And":
            eqs(c[2], out)
            eqs(c[3], out)
        elif isinstance(c, tuple) and c[0] == "binop" and c[1] == "Eq":
            out.append((strip(c[2]), strip(c[3])))
        elif isinstance(c, tuple) and c[0] == "call" and str(c[1]).rsplit("::", 1)[-1] == "is_some_and" and len(c[2]) == 2:
            eqs(c[2][1], out)     # `opt.is_some_and(|x| x == y)`: false where the comparison is (or nothing is there to compare)
        elif isinstance(c, tuple) and c[0] == "islet":
            pass
        return out
    for fn, evs in X.events.items():
        for e in evs:
            if e.kind != "emit" or not re.match(r"^\s*pub type \{\} = \{\};", e.skeleton()):
                continue
            n += 1
            a = strip(CE.expand(e.holes()[0][0]))
            b = CE.expand(e.holes()[1][0])
            b_s = og.nf_str(strip(b))
            good = False
            seen = []
            for c in e.ctx:
                if c[0] != "alt":
                    continue
                cond, branch = CE.expand(c[1]), c[2]
                while isinstance(cond, tuple) and cond[0] == "not":
                    cond, branch = cond[1], not branch
                if branch is not False:
                    continue   # the emission must sit where the comparison came out false
                for x, y in eqs(cond, []):
                    seen.append((og.nf_str(x)[:60], og.nf_str(y)[:60]))
                    for p, q in ((x, y), (y, x)):
                        if p == a and b_s in og.nf_str(q):
                            good = True
            short = fn.rsplit("::", 1)[-1]
            if good:
                ck.ok("R7", f"{short}:alias-guard", e.site, "the alias is skipped when the emitted alias name equals the last segment of the aliased type", fn=short)
            else:
                ck.violation("R7", f"{short}:alias-guard", e.site,
                             f"`pub type {{}} = {{}};` is emitted without first comparing the emitted alias name ({og.nf_str(a)[:70]}) with the name of the "
                             f"aliased type (comparisons found: {seen}): an element named like its type in another case style yields "
                             f"`pub type X = ..::X;` next to `struct X` (E0428)", fn=short)
    ck.floor("R7", "type alias templates", n, 1)
