"""C10 — namespace -> prefix/module assignment is injective and stable in one output."""
from engine.rulekit import hir as Hh
from engine.rulekit import inline as I
from engine.rulekit import mir as M
from engine.rulekit import og
from engine.rulekit import scans

from rules import anchors as A


def _returned_by_search(F, maker):
    """Every value the allocator returns is the element an iterator search found with the predicate "no existing namespace has this
    abbreviation": `candidates.find(|c| !existing.iter().any(|ns| ns.abbreviation == *c))`; a default given for "nothing found"
    (`unwrap_or(x)`) is accepted only where the candidates cannot run out (a `successors` sequence whose step always yields Some)."""
    try:
        rets = og.returned_values(F, maker)
    except og.Unrecognised:
        return False
    if not rets:
        return False

    def tested(find_nf):
        src, cond = find_nf[2]
        c, neg = cond, False
        while isinstance(c, tuple) and c[0] == "not":
            c, neg = c[1], not neg
        if not (neg and isinstance(c, tuple) and c[0] == "call" and c[1] == "iter::any" and len(c[2]) == 2):
            return False
        hay, pred = c[2]
        if "existing" not in og.nf_str(hay) and not (isinstance(hay, tuple) and og.nf_roots(hay) and all(r[0] == "param" for r in og.nf_roots(hay))):
            return False
        if not (isinstance(pred, tuple) and pred[0] == "binop" and pred[1] == "Eq"):
            return False
        sides = [og.nf_str(pred[2]), og.nf_str(pred[3])]
        return any(x.endswith(".abbreviation") for x in sides) and any("each(" in x and ".abbreviation" not in x for x in sides)

    def endless(src):
        for it in og._list_items(src):
            if it[0] == "star":
                base = it[1]
                for c in og.nf_calls(base):
                    if str(c[1]).endswith("iter::successors") and len(c[2]) == 2 and isinstance(c[2][1], tuple) and c[2][1][0] == "closure":
                        body = og.apply_closure_value(og.NF(F), c[2][1], [("param", "_n")])
                        if isinstance(body, tuple) and body[0] == "call" and body[1] == "Some":
                            return True
        return False

    def ok(v, depth=0):
        if not isinstance(v, tuple) or depth > 6:
            return False
        if v[0] == "ifelse":
            return ok(v[2], depth + 1) and ok(v[3], depth + 1)
        if v[0] == "call" and str(v[1]).rsplit("::", 1)[-1] in ("clone", "to_string", "to_owned", "into_owned", "into") and len(v[2]) == 1:
            return ok(v[2][0], depth + 1)
        if v[0] == "payload" and isinstance(v[2], tuple) and v[2][0] == "call" and v[2][1] == "iter::find" and len(v[2][2]) == 2:
            return tested(v[2])
        if v[0] == "call" and str(v[1]).rsplit("::", 1)[-1] in ("unwrap_or", "unwrap_or_else", "unwrap_or_default", "unwrap", "expect") and v[2] \
                and isinstance(v[2][0], tuple) and v[2][0][0] == "call" and v[2][0][1] == "iter::find" and len(v[2][0][2]) == 2:
            f = v[2][0]
            return tested(f) and (str(v[1]).rsplit("::", 1)[-1] in ("unwrap", "expect") or endless(f[2][0]))
        return False
    return all(v is not None and ok(v) for _site, v in rets)


def _origin_key(o):
    """where a value comes from, comparable between two traces of one body (None: nothing to compare by)"""
    if o.kind == "call":
        return ("call", o.bb)
    if o.kind == "aggregate":
        return ("aggregate", o.bb, id(o.rv))
    if o.kind == "const":
        return None
    return getattr(o, "local", None)


def run(ck, F):
    ck.explanation = (
        "(R1) on the MIR of the abbreviation function every return is dominated by the false arm of a membership test "
        "`existing.any(|ns| ns.abbreviation == candidate)` on the value being returned; (R2) every call passes as `existing` the "
        "document's registry of *all* namespaces (constructor summaries of Namespace); (R3) a Namespace is only constructed after a "
        "lookup of its URI in the registry failed, and its module name is derived from the same abbreviation; (R4) merging two "
        "documents' registries must reconcile entries by URI and re-check abbreviations. (prefix, URI) pairing in the emitted "
        "attributes is C03.R2.")
    ck.assumptions = ["uniqueness within one document follows from R1+R2+R3; across merged documents only from R4"]
    ck.rule("R1", "uniqueness post-condition: every abbreviation returned was tested to be unused in `existing`")
    ck.rule("R2", "uniqueness scope: `existing` is the registry holding every Namespace of the document (`namespaces`)")
    ck.rule("R3", "single allocation: Namespace{..} is built only after `find by URI` in the registry failed; rust_mod_name derives from the same abbreviation")
    ck.rule("R5", "a prefix written as a literal in an emitted namespace map cannot coincide with an allocated abbreviation")
    ck.rule("R4", "merge reconciliation: merging registries matches incoming entries by URI and re-checks abbreviations")
    ck.rule("R6", "one module per namespace: every schema element is read under its own targetNamespace — the switch selects the namespace "
                  "it is given on every path, and each schema element handed to the schema reader was switched to first")
    makers = A.abbreviation_makers(F)
    if len(makers) != 1:
        ck.undecided("R1", "anchor", "-", f"expected one function producing Namespace.abbreviation at the construction sites, found {makers}")
        return
    MAKE = makers[0]
    mshort = MAKE.rsplit("::", 1)[-1]
    fb = F.lib.body(MAKE)
    if fb is None or not fb.get("mir"):
        ck.undecided("R1", "anchor", "-", "the abbreviation function has no body")
        return
    # helper functions and directly called closures of the abbreviation function are part of it
    B = I.inlined_body(F.lib, MAKE)
    # ---- R1
    rets = []
    for i in sorted(B.reach):
        for s in B.blocks[i]["stmts"]:
            if s["k"] == "assign" and s["p"]["l"] == 0 and not s["p"].get("proj"):
                rets.append((i, s))
        t = B.term(i)
        if t.get("k") == "call" and t["dest"]["l"] == 0 and not t["dest"].get("proj"):
            rets.append((i, {"rv": {"k": "call", "term": t}, "sp": t.get("sp")}))
    ck.floor("R1", "return sites", len(rets), 1)
    anys = B.calls_to("iter::Iterator::any")
    contains = [(bb, t) for bb, t in B.calls() if (M.Body.callee_decl(t) or "").endswith(("::contains",)) and "Set" in (M.Body.callee_decl(t) or "") + "Vec" + (M.Body.callee_decl(t) or "")]
    for (rb, s) in rets:
        rv = s["rv"]
        val_roots = set()
        if rv["k"] == "use":
            for o in M.trace(B, rv["op"], M.IDENTITY_CALLS):
                val_roots.add(_origin_key(o))
            src_local = rv["op"]["p"]["l"] if rv["op"].get("k") in ("copy", "move") else None
        else:
            src_local = None
            if rv["k"] == "call" and (M.Body.callee_decl(rv["term"]) or "").endswith(M.IDENTITY_CALLS) and rv["term"].get("args"):
                # `return candidate.into_owned()` / `.clone()` / `.to_string()`: the value is the receiver's
                for o in M.trace(B, rv["term"]["args"][0], M.IDENTITY_CALLS):
                    val_roots.add(_origin_key(o))
        ok = False
        why = "no membership test dominates the return"
        for (abb, at) in anys:
            hay = M.trace(B, at["args"][0], M.IDENTITY_CALLS + ("[T]>::iter", "IntoIterator::into_iter"))
            if not (hay and all(o.kind == "arg" and o.local == 2 for o in hay)):
                why = "the membership test does not range over `existing`"
                continue
            # closure compares ns.abbreviation with the candidate (captured)
            clo = [o for o in M.trace(B, at["args"][1], ()) if o.kind == "aggregate" and o.rv.get("closure")]
            if not clo:
                continue
            cb = F.lib.body(clo[0].rv["closure"])
            CB = M.Body(cb)
            cmp_ok = False
            for cbb, ct in CB.calls():
                if (M.Body.callee_decl(ct) or "").endswith(("cmp::PartialEq::eq", "cmp::PartialEq::ne")):
                    sides = [M.slice_info(CB, a) for a in ct["args"]]
                    fields = [set(f for o in M.trace(CB, a, M.IDENTITY_CALLS) for f in o.fields()) for a in ct["args"]]
                    up = [any(r[0] == "upvar" for r in s_[0]) for s_ in sides]
                    if ("abbreviation" in fields[0] and up[1]) or ("abbreviation" in fields[1] and up[0]):
                        cmp_ok = True
            if not cmp_ok:
                why = "the membership predicate does not compare `ns.abbreviation` with the candidate"
                continue
            # the captured candidate must be the returned value
            cap = clo[0].rv["ops"]
            cap_locals = set()
            for o in cap:
                for x in M.trace(B, o, M.IDENTITY_CALLS):
                    cap_locals.add(_origin_key(x))
            if not ((cap_locals & val_roots) - {None}):
                why = "the value tested is not the value returned"
                continue
            sw = B.term(at["target"]) if at.get("target") is not None else {}
            # `!any(..)`: Not then switch; find the arm reached when any == false
            free_arm = _arm_when_false(B, abb, at)
            if free_arm is not None and B.dominates(free_arm, rb):
                ok = True
        if not ok:
            # the same test through a collected set: `let taken: HashSet<_> = existing.iter().map(|ns| ns.abbreviation..).collect();
            # if !taken.contains(candidate) { return candidate }`
            for (cbb, ct) in contains:
                if len(ct["args"]) != 2:
                    continue
                if not _set_of_existing_abbreviations(F, B, ct["args"][0]):
                    why = "the set searched does not hold the abbreviations of all of `existing`"
                    continue
                needle = set()
                for x in M.trace(B, ct["args"][1], M.IDENTITY_CALLS):
                    needle.add(_origin_key(x))
                if not ((needle & val_roots) - {None}):
                    why = "the value tested is not the value returned"
                    continue
                free_arm = _arm_when_false(B, cbb, ct)
                if free_arm is not None and B.dominates(free_arm, rb):
                    ok = True
        if not ok and _returned_by_search(F, MAKE):
            ok = True      # the value is what `find(|c| !existing.iter().any(|ns| ns.abbreviation == *c))` found
        if ok:
            ck.ok("R1", "return-tested-unused", s.get("sp", fb["span"]), "the returned abbreviation was tested not to occur in `existing`", fn="")
        else:
            ck.violation("R1", "return-tested-unused", s.get("sp", fb["span"]),
                         f"{mshort} can return an abbreviation without having tested it against the existing ones ({why})", fn="")
    # ---- R2 / R3
    CE = og.CallExpander(F)
    sums = [s for s in og.field_summaries(F, "model::Namespace") if "Clone" not in s[0] and "tests" not in s[0]]
    ck.floor("R3", "Namespace construction sites", len(sums), 2)
    for (fn, site, ctx, fields, base) in sums:
        short = fn.rsplit("::", 1)[-1]
        ab = fields.get("abbreviation")
        md = fields.get("rust_mod_name")
        uri = fields.get("namespace")
        if ab and ab[0] == "call" and ab[1] == MAKE and len(ab[2]) < 2:
            ck.violation("R2", "existing=<none>", site,
                         f"{short}: {mshort} is not given the namespaces of the document to test the new abbreviation against", fn=fn)
        elif ab and ab[0] == "call" and ab[1] == MAKE:
            existing = og.nf_str(ab[2][1])
            if existing == "self.namespaces":
                ck.ok("R2", f"existing=self.namespaces", site, f"{short}: uniqueness checked against the registry of all namespaces", fn=fn)
            else:
                ck.violation("R2", f"existing={existing}", site,
                             f"{short}: the new abbreviation is only checked against `{existing}`, not against every namespace of the document: "
                             f"two different URIs can receive the same prefix/module", fn=fn)
            if og.nf_str(ab[2][0]) != og.nf_str(uri):
                ck.violation("R3", "abbreviation-of-other-uri", site, f"{short}: abbreviation derived from {og.nf_str(ab[2][0])} but namespace is {og.nf_str(uri)}", fn=fn)
        else:
            ck.violation("R2", "abbreviation-source", site, f"{short}: abbreviation = {og.nf_str(ab)[:80]} does not come from the abbreviation function ({mshort})", fn=fn)
        md_e = CE.expand(md) if md else None
        only_ab = False
        if md_e is not None and ab is not None:
            rest = og.nf_replace(md_e, CE.expand(ab), ("lit", "<abbreviation>"))
            rest = og.nf_replace(rest, ab, ("lit", "<abbreviation>"))
            only_ab = "<abbreviation>" in og.nf_str(rest) and not [r for r in og.nf_roots(rest) if r[0] != "lit"]
        if only_ab:
            ck.ok("R3", "module-from-abbreviation", site, f"{short}: rust_mod_name is a function of the same abbreviation only ({og.nf_str(md_e)[:50]})", fn=fn)
        else:
            ck.violation("R3", "module-from-abbreviation", site, f"{short}: rust_mod_name = {og.nf_str(md)[:80]} is not derived from the same abbreviation", fn=fn)
        # lookup by URI before construction
        looked = False
        for c in ctx:
            if c[0] != "alt":
                continue
            ce = og.nf_str(CE.expand(c[1]))
            found_branch = (c[1][0] == "islet" and c[1][1].startswith("Some(")) or ce.startswith("is_some(")
            absent = (found_branch and c[2] is False) or (ce.startswith("is_none(") and c[2] is True) or \
                     (c[1][0] == "islet" and c[1][1].rsplit("::", 1)[-1] == "None" and c[2] is True)
            if absent and "find(" in ce and ".namespace" in ce and "namespaces" in ce:
                looked = True
        if not looked:
            # closure passed to unwrap_or_else on a find(..) result: inspect the function's HIR
            b = F.lib.body(fn)
            nb = Hh.norm_body(b)
            for x in Hh.exprs(nb["value"]):
                if x.get("k") == "MethodCall" and x["name"] in ("unwrap_or_else", "or_else", "map_or_else"):
                    d = Hh.describe(x["recv"])
                    inner = [y for y in Hh.exprs(x["args"]) if y.get("k") == "Struct" and (y["path"].get("path") or "").endswith("model::Namespace")]
                    if inner and "find(" in d and "namespaces" in d and "namespace" in d:
                        looked = True
        if looked:
            ck.ok("R3", "lookup-before-construct", site, f"{short}: a Namespace is only built when no registry entry has this URI", fn=fn)
        else:
            ck.violation("R3", "lookup-before-construct", site, f"{short}: a Namespace is built without first looking its URI up in the registry: one URI can get two prefixes", fn=fn)
    # ---- R5: fixed prefixes next to allocated ones
    rule_fixed_prefixes(ck, F, MAKE)
    rule_schema_namespace(ck, F)
    rule_component_read_out_of_turn(ck, F)
    rule_namespace_names_compared_verbatim(ck, F)
    # ---- R4
    MERGE = A.merge_fn(F)
    b = F.lib.body(MERGE) if MERGE else None
    if b is None:
        ck.undecided("R4", "extend", "-", "the merge function `fn(&mut RustDocument, RustDocument)` could not be attributed")
        return
    nb = Hh.norm_body(b)
    text = " ".join(Hh.describe(x) for x in Hh.exprs(nb["value"]) if x.get("k") in ("MethodCall", "Call"))
    by_uri = False
    # the merge itself and the local functions it delegates to
    for hb in [b] + [F.lib.body(c) for c in A.local_callees(F, MERGE)]:
        if hb is None:
            continue
        hnb = Hh.norm_body(hb)
        for x in Hh.exprs(hnb["value"]):
            if x.get("k") == "Binary" and x["op"] == "Eq" and ".namespace" in Hh.describe(x):
                by_uri = True
    # whatever the merge keys on, an entry that the receiver already holds is not appended again: each incoming namespace is pushed
    # only on the arm where a membership test over the whole receiving registry failed (an `extend` + `dedup` only removes neighbours)
    MB = I.inlined_body(F.lib, MERGE)
    regs = ("namespaces", "target_namespaces")

    def on_registry(op, fld):
        os_ = M.trace(MB, op, M.IDENTITY_CALLS + ("[T]>::iter", "Vec::<T, A>::iter", "Vec::<T, A>::as_slice"))
        return bool(os_) and all(o.kind == "arg" and o.local == 1 and o.fields()[:1] == [fld] for o in os_)
    for fld in regs:
        appends = [(bb, t) for bb, t in MB.calls() if (M.Body.callee_decl(t) or "").endswith(("Vec::<T, A>::push", "Vec::<T, A>::extend", "iter::Extend::extend",
                   "Vec::<T, A>::append", "Vec::<T, A>::extend_from_slice", "Vec::<T, A>::insert")) and t.get("args") and on_registry(t["args"][0], fld)]
        tests = [(bb, t) for bb, t in MB.calls() if (M.Body.callee_decl(t) or "").endswith(("::contains", "Iterator::any", "Iterator::all", "Iterator::position", "Iterator::find"))
                 and t.get("args") and on_registry(t["args"][0], fld)]
        if not appends:
            ck.undecided("R4", f"merge-no-duplicates:{fld}", b["span"], f"no append to the receiver's `{fld}` found in the merge")
            continue
        bad = []
        for abb, at in appends:
            d_ = M.Body.callee_decl(at) or ""
            def absent_arm(tbb, tt):
                """the block reached when the membership test says "not in the registry yet" """
                dd = M.Body.callee_decl(tt) or ""
                if dd.endswith("Iterator::any") and _closure_compares_identity(F, MB, tt["args"][1]):
                    return None      # `Rc::ptr_eq`: the entries of two documents are never the same allocation, whatever they hold
                if dd.endswith(("::contains", "Iterator::any")):
                    return _arm_when_false(MB, tbb, tt)
                if dd.endswith("Iterator::all") and _closure_compares_unequal(F, MB, tt["args"][1]):
                    return _arm_when_false(MB, tbb, tt, want_true=True)     # all(|x| x != item)
                return None
            guarded = d_.endswith("push") and any((lambda arm: arm is not None and MB.dominates(arm, abb))(absent_arm(tbb, tt)) for tbb, tt in tests)
            if not guarded:
                bad.append((abb, d_.rsplit("::", 1)[-1]))
        if bad:
            ck.violation("R4", f"merge-no-duplicates:{fld}", MB.term(bad[0][0]).get("sp") or b["span"],
                         f"the merge appends incoming `{fld}` entries with `{bad[0][1]}` without having tested each against the whole receiving registry: "
                         f"a namespace both documents hold is listed twice (its module is then written twice)")
        else:
            ck.ok("R4", f"merge-no-duplicates:{fld}", MB.term(appends[0][0]).get("sp") or b["span"],
                  f"incoming `{fld}` entries are pushed only after a failed membership test over the receiving registry")
    if by_uri:
        ck.ok("R4", "merge-by-uri", b["span"], "registries are merged by URI")
    else:
        ck.violation("R4", "merge-by-uri", b["span"],
                     "RustDocument::extend merges the namespace registries by whole-value equality: the same URI "
                     "abbreviated differently in two files yields two prefixes/modules, and two URIs abbreviated alike in two files share one")


def rule_schema_namespace(ck, F, rule="R6"):
    """All components of a target namespace land in that namespace's module only if every `schema` element is read under its own
    `targetNamespace`: (a) the function that makes a namespace the current one does so on every path — also for a namespace that
    is in the registry already (the second schema of a namespace, a schema met again after another one); (b) wherever a schema
    element is handed to the schema reader, that element's `targetNamespace` was made current first."""
    from rules import c02 as C02
    # (a) the switcher: fn(&mut RustDocument, &str) that assigns `current_target_namespace`
    switchers = []
    for f in A._fn_items(F):
        ins = [A._norm_ty(x) for x in f["inputs"]]
        if ins == ["&mutmodel::doc::RustDocument", "&str"] and A._norm_ty(f["output"]) == "()":
            b = F.lib.body(f["path"])
            if b is None or not b.get("mir"):
                continue
            B = I.inlined_body(F.lib, f["path"])
            assigns = [i for i in sorted(B.reach) for st in B.blocks[i]["stmts"]
                       if st["k"] == "assign" and st["p"]["l"] == 1 and [p_.get("f") for p_ in (st["p"].get("proj") or []) if isinstance(p_, dict) and "f" in p_] == ["current_target_namespace"]]
            if assigns:
                switchers.append((f["path"], b, B, assigns))
    if len(switchers) != 1:
        ck.undecided(rule, "switcher", "-", f"the function that makes a namespace the current target namespace could not be attributed uniquely ({[x[0] for x in switchers]})")
    else:
        path, b, B, assigns = switchers[0]
        short = path.rsplit("::", 1)[-1]
        rets = [i for i in sorted(B.reach) if B.term(i).get("k") == "return"]
        skipping = [r for r in rets if r in B.reachable_from(0, avoid=assigns)]
        if skipping:
            ck.violation(rule, "switch-always-selects", b["span"],
                         f"{short} can return without making the namespace it was given the current one (a namespace that is in the list already is left "
                         f"unselected): the components of a schema whose namespace was met before — a second schema element of that namespace, a "
                         f"schema read after another one — are stamped with whatever namespace was current, and land in that module", fn=short)
        else:
            ck.ok(rule, "switch-always-selects", b["span"], f"{short} makes the namespace it is given the current one on every path", fn=short)
    # (b) at the calls of the schema reader on a child element
    if len(switchers) == 1:
        sw_path = switchers[0][0]
        W = og.EnvWalker(F)
        readers, sites = C02.schema_reader_calls(F)
        n = 0
        per_fn = {}
        for caller in sorted({s_[0] for s_ in sites} | readers):
            cb_ = F.lib.body(caller)
            if cb_ is None or cb_.get("hir") is None:
                continue
            events = []
            per_fn[caller] = events

            def cb(e, env, ctx):
                if e.get("k") not in ("Call", "MethodCall"):
                    return
                cp = Hh.callee_path(e)
                args = ([e["recv"]] if e.get("k") == "MethodCall" else []) + list(e["args"])
                if cp == sw_path and len(args) == 2:
                    events.append(("switch", W.NF.nf(args[1], env), e))
                elif cp in readers:
                    for a in args:
                        a0 = Hh.strip(a)
                        if "roxmltree::Node<" in (a0.get("ty") or "") + (a0.get("adj_ty") or ""):
                            events.append(("read", W.NF.nf(a, env), e))
                            break
            try:
                W.walk_fn(caller, cb)
            except og.Unrecognised:
                continue

        def switched_node(nf):
            cur = nf
            for _ in range(6):
                if isinstance(cur, tuple) and cur[0] == "payload":
                    cur = cur[2]
                elif isinstance(cur, tuple) and cur[0] == "call" and cur[2] and str(cur[1]).rsplit("::", 1)[-1] in ("as_str", "as_ref", "ok_or", "ok_or_else", "unwrap_or_default"):
                    cur = cur[2][0]
                else:
                    break
            if isinstance(cur, tuple) and cur[0] == "call" and str(cur[1]).rsplit("::", 1)[-1] == "attribute" and len(cur[2]) == 2 and cur[2][1] == ("lit", "targetNamespace"):
                return cur[2][0]
            return None
        # a reader that switches to the targetNamespace of the node it was given, before it reads it, takes care of itself
        self_switching = set()
        for fn_, events in per_fn.items():
            if fn_ not in readers:
                continue
            sw = []
            for kind, nf, e in events:
                if kind == "switch" and switched_node(nf) is not None:
                    sw.append(switched_node(nf))
                if kind == "read" and isinstance(nf, tuple) and nf[0] == "param" and nf in sw:
                    self_switching.add(fn_)
            if fn_ not in self_switching and sw and not any(k_ == "read" for k_, _n, _e in events) and any(isinstance(x, tuple) and x[0] == "param" for x in sw):
                # the node is handed on through a table of readers (no direct call to order against): the switch on the function's own
                # node is all there is to see
                self_switching.add(fn_)
        for caller, events in sorted(per_fn.items()):
            short = caller.rsplit("::", 1)[-1]
            switched = []
            for kind, nf, e in events:
                if kind == "switch":
                    if switched_node(nf) is not None:
                        switched.append(switched_node(nf))
                    continue
                if Hh.callee_path(e) in self_switching:
                    n += 1
                    ck.ok(rule, f"schema-under-own-namespace:{short}", Hh.sp(e), f"{short}: the reader called makes the element's targetNamespace current itself", fn=short)
                    continue
                callee = Hh.callee_path(e)
                hands_own = isinstance(nf, tuple) and nf[0] == "param"
                if hands_own and caller in readers and not switched:
                    # the function reads the node it was given and leaves the namespace to its caller: judged there
                    continue
                n += 1
                if nf in switched:
                    ck.ok(rule, f"schema-under-own-namespace:{short}", Hh.sp(e), f"{short}: the element's targetNamespace is made current before the element is read", fn=short)
                else:
                    ck.violation(rule, f"schema-under-own-namespace:{short}", Hh.sp(e),
                                 f"{short} hands {og.nf_str(nf)[:60]} to the schema reader without making that element's `targetNamespace` the current one: "
                                 f"its components are stamped with the namespace of whatever was read before (the WSDL's own, the previous schema's)", fn=short)
        ck.floor(rule, "schema reader calls judged", n, 1)


def _switcher(F):
    """the function that makes a namespace the current target namespace: fn(&mut RustDocument, &str) assigning the field"""
    out = []
    for f in A._fn_items(F):
        ins = [A._norm_ty(x) for x in f["inputs"]]
        if ins == ["&mutmodel::doc::RustDocument", "&str"] and A._norm_ty(f["output"]) == "()":
            b = F.lib.body(f["path"])
            if b is None or not b.get("mir"):
                continue
            B = I.inlined_body(F.lib, f["path"])
            if any(st["k"] == "assign" and st["p"]["l"] == 1 and [p_.get("f") for p_ in (st["p"].get("proj") or []) if isinstance(p_, dict) and "f" in p_] == ["current_target_namespace"]
                   for i in B.reach for st in B.blocks[i]["stmts"]):
                out.append(f["path"])
    return out


def component_converters(F):
    """the functions that turn one schema component into a node of the model: fn(Node, &mut RustDocument) -> Result<RustNode, _>"""
    out = []
    for f in A._fn_items(F):
        ins = [A._norm_ty(x) for x in f["inputs"]]
        if len(ins) == 2 and ins[0].startswith("roxmltree::Node<") and ins[1] == "&mutmodel::doc::RustDocument" \
                and A._norm_ty(f["output"]).startswith("std::result::Result<model::node::RustNode,"):
            out.append(f["path"])
    return sorted(out)


def _is_target_namespace_read(B, operand, F=None, _depth=0):
    """does the operand come from `<node>.attribute("targetNamespace")` (directly, or as what a closure handed to an Option
    combinator answers: `node.parent().and_then(|schema| schema.attribute("targetNamespace"))`)?"""
    for o in M.trace(B, operand, M.IDENTITY_CALLS + ("Option::<T>::unwrap_or_default", "Option::<T>::unwrap_or")):
        if o.kind != "call":
            continue
        decl = M.Body.callee_decl(o.term) or ""
        args = o.term.get("args") or []
        if decl.endswith("::attribute") and len(args) == 2:
            for c in M.trace(B, args[1], M.IDENTITY_CALLS):
                if c.kind == "const" and "targetNamespace" in str(c.const.get("v", c.const)):
                    return True
        if F is not None and _depth < 3 and "option::Option" in decl and decl.rsplit("::", 1)[-1] in ("and_then", "map") and len(args) == 2:
            for c in M.trace(B, args[1], ()):
                if c.kind == "aggregate" and c.rv.get("closure"):
                    cb = F.lib.body(c.rv["closure"])
                    if cb is not None and cb.get("mir"):
                        CB = M.Body(cb)
                        if _is_target_namespace_read(CB, {"k": "copy", "p": {"l": 0, "proj": []}}, F, _depth + 1):
                            return True
    return False


def rule_component_read_out_of_turn(ck, F, rule="R6"):
    """A component that is converted out of its turn — found by a search of the XML tree because something refers to it before it was
    read — lies in a schema of its own, which need not be the schema of what refers to it (two schema elements of one WSDL). What is
    made of it (the namespace of its members, the module it is attributed to) has to be the same as when it is read in its turn:
    (a) its schema's `targetNamespace` is made current before the conversion on every path on which the schema has one, and (b) on
    every path from the conversion back to the caller the namespace that was current before is current again."""
    sw = _switcher(F)
    convs = set(component_converters(F))
    from rules import c02 as C02
    in_turn = set(C02.schema_readers(F))
    if len(sw) != 1 or not convs:
        ck.undecided(rule, "out-of-turn:roles", "-", f"namespace switcher ({sw}) or component converter ({sorted(convs)}) could not be attributed")
        return
    sw = sw[0]
    n = 0
    lookups = {p_ for p_, _i, _j in A.component_lookups(F)}
    stop = lambda p_: p_ in convs or p_ == sw or p_ in in_turn      # noqa: E731
    # the units judged: the lookups by name (with their helpers and closures taken in, other lookups left as calls), and any other
    # function outside the readers that converts a component and is not part of a lookup
    graph = scans.call_graph(F.lib)
    part_of_lookup = set()
    todo = list(lookups)
    while todo:
        x = todo.pop()
        for y in graph.get(x, ()):
            if y not in part_of_lookup and y not in lookups and y not in convs and y not in in_turn:
                part_of_lookup.add(y)
                todo.append(y)
    units = []
    for f in A._fn_items(F):
        path = f["path"]
        if path in in_turn or path in convs or "tests::" in path:
            continue
        b = F.lib.body(path)
        if b is None or not b.get("mir"):
            continue
        if path in lookups:
            # (every cycle of the component recursion passes through the converter: with its calls left as calls the helpers between the
            # lookup and the converter can be taken in)
            B = I.inlined_body(F.lib, path, stop=lambda p_, me=path: stop(p_) or (p_ in lookups and p_ != me), head=sorted(convs)[0] if len(convs) == 1 else None)
        elif path in part_of_lookup:
            continue
        else:
            B = M.Body(b)
        if B is None:
            continue
        if any(M.Body.callee(t) in convs for _bb, t in B.calls()):
            units.append((f, b, B))
    for f, b, B in units:
        cc = [(bb, t) for bb, t in B.calls() if M.Body.callee(t) in convs]
        short = f["path"].rsplit("::", 1)[-1]
        docs = [i + 1 for i, x in enumerate(f["inputs"]) if A._norm_ty(x) == "&mutmodel::doc::RustDocument"]
        # (a) switch calls whose argument is the targetNamespace attribute of a node; the arm without a targetNamespace needs none
        switches = [bb for bb, t in B.calls() if M.Body.callee(t) == sw and len(t.get("args") or []) == 2 and _is_target_namespace_read(B, t["args"][1], F)]
        none_arms = set()
        for i in sorted(B.reach):
            t = B.term(i)
            if t.get("k") != "switch":
                continue
            for o in M.trace(B, t["discr"], M.IDENTITY_CALLS):
                if o.kind == "discr" and _is_target_namespace_read(B, {"k": "copy", "p": o.place}, F):
                    # Option: discriminant 0 = None
                    for val, tgt in t.get("targets") or []:
                        if val == 0:
                            none_arms.add(tgt)
                    if all(v != 0 for v, _t in t.get("targets") or []) and t.get("otherwise") is not None:
                        none_arms.add(t["otherwise"])
        # (b) stores to the current namespace of a value read from it before any switch
        def restores(i, st):
            if st["k"] != "assign" or [p_.get("f") for p_ in (st["p"].get("proj") or []) if isinstance(p_, dict) and "f" in p_] != ["current_target_namespace"]:
                return False
            if st["rv"]["k"] != "use":
                return False
            for o in M.trace(B, st["rv"]["op"], M.IDENTITY_CALLS):
                if "current_target_namespace" in o.fields() and o.kind == "arg":
                    # where was it read: the identity call (clone) that took the copy must come before every switch
                    took = [s_[2] for s_ in o.steps if s_[0] == "call"]
                    if took and all(B.dominates(took[0], s) and took[0] != s for s in switches):
                        return True
            return False
        restoring = [i for i in sorted(B.reach) for st in B.blocks[i]["stmts"] if restores(i, st)]
        for bb, t in cc:
            n += 1
            sp = t.get("sp", b["span"])
            unswitched = bb in B.reachable_from(0, avoid=set(switches) | none_arms) or not switches
            if unswitched:
                ck.violation(rule, f"out-of-turn:own-namespace:{short}", sp,
                             f"{short} converts a component it found by searching the XML tree under whatever target namespace is current — the one of the "
                             f"schema that refers to it — and not under the `targetNamespace` of the schema the component lies in: the members of a base "
                             f"type or referenced element of another schema element get the referring schema's namespace, and only when the reference "
                             f"comes before the definition", fn=short)
            else:
                ck.ok(rule, f"out-of-turn:own-namespace:{short}", sp, f"{short}: the found component's schema is made current before the component is converted", fn=short)
            succ = B.term(bb).get("target")
            rets = [r for r in B.return_blocks()]
            leaking = succ is None or any(r in B.reachable_from(succ, avoid=set(restoring)) for r in rets) or not restoring
            if not switches:
                continue
            if leaking:
                ck.violation(rule, f"out-of-turn:restored:{short}", sp,
                             f"{short} can return after the conversion with the found component's namespace still current: what the referring schema "
                             f"defines after the reference is stamped with the other schema's namespace", fn=short)
            else:
                ck.ok(rule, f"out-of-turn:restored:{short}", sp, f"{short}: the namespace that was current before the search is current again on every way back", fn=short)
    ck.floor(rule, "conversions out of turn judged", n, 1)


def rule_fixed_prefixes(ck, F, maker):
    """A namespace map of an emitted struct may hold prefixes written as literals (`soapenv`) next to the allocated abbreviations. The
    two cannot coincide only if the literal cannot be an abbreviation: abbreviations are at most N alphanumeric characters (the
    constant of the `take(N)` in the allocator) followed by a decimal counter. A literal of that form can be allocated to a target
    namespace as well, and one map then binds one prefix to two URIs."""
    import re as _re
    from rules import c03 as C03
    from rules import templates as T
    n_take = None
    for q in [maker] + A.local_callees(F, maker, depth=2):
        b = F.lib.body(q)
        if b is None or not b.get("mir"):
            continue
        B = M.Body(b)

        def const_int(c):
            v = c.get("int", c.get("bits"))
            if isinstance(v, int):
                return v
            name = c.get("uneval")
            if name:      # a named constant: `const MAX_CHARS: usize = 3;`
                for cb_ in F.lib.bodies:
                    if str(cb_.get("kind", "")).startswith("Const") and (cb_["path"] == name or cb_["path"].endswith("::" + name.rsplit("::", 1)[-1])) and cb_.get("hir") is not None:
                        try:
                            v_ = Hh.strip(Hh.norm_body(cb_)["value"])
                        except Exception:
                            continue
                        if v_.get("k") == "Lit" and v_.get("lit") == "int":
                            return v_["v"]
            return None
        for bb, t in B.calls():
            if (M.Body.callee_decl(t) or "").endswith("iter::Iterator::take") and len(t["args"]) == 2:
                for o in M.trace(B, t["args"][1], ()):
                    v = const_int(o.const) if o.kind == "const" else None
                    if isinstance(v, int):
                        n_take = v if n_take is None else max(n_take, v)
        # or a hand-written bound: the length of the text built so far compared with a constant (`if taken.len() == 3 { break }`)
        for i in sorted(B.reach):
            for st in B.blocks[i]["stmts"]:
                rv = st.get("rv") or {}
                if st["k"] == "assign" and rv.get("k") == "binop" and rv.get("op") in ("Eq", "Ge", "Gt", "Lt", "Le", "Ne"):
                    for x, y in ((rv["a"], rv["b"]), (rv["b"], rv["a"])):
                        if x.get("k") == "const" and y.get("k") in ("copy", "move"):
                            v = const_int(x)
                            os_ = M.trace(B, y, ())
                            if isinstance(v, int) and os_ and all(o.kind == "call" and (M.Body.callee_decl(o.term) or "").endswith(
                                    ("String::len", "str>::len", "iter::Iterator::count")) for o in os_):
                                v = v + 1 if rv["op"] in ("Gt", "Le") else v
                                n_take = v if n_take is None else max(n_take, v)
    X = T.extractor(F)
    CE = og.CallExpander(F)
    lits = {}
    for fn in T.struct_emitters(X):
        try:
            groups = T.struct_groups(X, fn)
        except og.Unrecognised:
            continue
        for g in groups:
            for ev in [e for e in g.pre if "#[yaserde(" in e.skeleton()]:
                a = C03.parse_attr(ev)
                if a is None:
                    continue
                entries, found = C03.nsmap_entries(a, CE)
                if found and entries is None:
                    ck.undecided("R5", "fixed-prefixes:unreadable-map", ev.site, "a namespace map could not be read entry by entry: whether it holds a literal prefix that can "
                                 "coincide with an abbreviation is not decided")
                for ent in entries or []:
                    k = ent[0]
                    if isinstance(k, tuple) and k[0] == "lit" and isinstance(k[1], str):
                        lits.setdefault(k[1], ev.site)
    if not lits:
        ck.ok("R5", "fixed-prefixes:none", "-", "no namespace map holds a literal prefix")
        return
    for lit, site in sorted(lits.items()):
        if n_take is None:
            ck.undecided("R5", f"fixed-prefix:{lit}", site, "the length bound of an allocated abbreviation (`take(N)` in the allocator) was not found: whether the "
                         f"literal prefix `{lit}` can coincide with an abbreviation is not decided")
        elif _re.fullmatch(r"[a-z0-9]{0,%d}[0-9]*" % n_take, lit.lower()):
            ck.violation("R5", f"fixed-prefix:{lit}", site,
                         f"the literal prefix `{lit}` in an emitted namespace map has the form of an allocated abbreviation (at most {n_take} alphanumeric characters "
                         f"and a counter): a target namespace abbreviated `{lit.lower()}` gives one map two bindings of that prefix")
        else:
            ck.ok("R5", f"fixed-prefix:{lit}", site, f"`{lit}` cannot be an allocated abbreviation (those are at most {n_take} alphanumeric characters and a counter)")


def _closure_compares_identity(F, B, operand):
    """the predicate compares addresses (`Rc::ptr_eq`, `ptr::eq`, `as_ptr`), not values"""
    for o in M.trace(B, operand, ()):
        if o.kind == "aggregate" and o.rv.get("closure"):
            cb = F.lib.body(o.rv["closure"])
            if cb is not None and cb.get("mir"):
                for _, t in M.Body(cb).calls():
                    d = M.Body.callee_decl(t) or ""
                    if d.endswith(("::ptr_eq", "ptr::eq", "::as_ptr", "ptr::addr_eq")):
                        return True
    return False


def _closure_compares_unequal(F, B, operand):
    """the closure does nothing but compare with `!=` (one Ne / `ne`, no other operation)"""
    for o in M.trace(B, operand, ()):
        if not (o.kind == "aggregate" and o.rv.get("closure")):
            return False
        cb = F.lib.body(o.rv["closure"])
        if cb is None or not cb.get("mir"):
            return False
        CB = M.Body(cb)
        ops = [st["rv"] for i in sorted(CB.reach) for st in CB.blocks[i]["stmts"] if st["k"] == "assign" and st["rv"]["k"] in ("binop", "unop")]
        calls = [M.Body.callee_decl(t) or "" for _, t in CB.calls()]
        ne_ops = [x for x in ops if x["k"] == "binop" and x["op"] == "Ne"]
        ne_calls = [c for c in calls if c.endswith("cmp::PartialEq::ne")]
        others = [x for x in ops if x not in ne_ops] + [c for c in calls if c not in ne_calls and not c.endswith(("ops::Deref::deref",))]
        if len(ne_ops) + len(ne_calls) != 1 or others:
            return False
    return True


def _arm_when_false(B, abb, at, want_true=False):
    """Block reached when the bool result of call `at` is false (through an optional `Not`); with want_true, when it is true."""
    dest = at["dest"]["l"]
    neg = bool(want_true)
    cur = dest
    for _ in range(8):
        uses = [u for u in M.uses_of_local(B, cur) if u[1] != "drop"]
        for (ubb, where, j, x) in uses:
            if where == "stmt" and x["rv"]["k"] == "unop" and x["rv"]["op"] == "Not":
                neg = not neg
                cur = x["p"]["l"]
                break
            if where == "stmt" and x["rv"]["k"] == "use" and not x["p"].get("proj"):
                cur = x["p"]["l"]   # a copy (e.g. the result of an inlined closure handed to its caller)
                break
            if where == "term" and x.get("k") == "switch":
                vals = [v for v, _ in x["targets"]]
                if vals == [0]:
                    false_t, true_t = x["targets"][0][1], x["otherwise"]
                else:
                    return None
                return true_t if neg else false_t
        else:
            return None
    return None


def _set_of_existing_abbreviations(F, B, operand):
    """the operand is a collection built as `existing.iter().map(|ns| ns.abbreviation ..).collect()` (parameter 2, unfiltered)"""
    ident = M.IDENTITY_CALLS + ("iter::Iterator::collect", "iter::FromIterator::from_iter", "IntoIterator::into_iter")
    for o in M.trace(B, operand, ident):
        if not (o.kind == "call" and (M.Body.callee_decl(o.term) or "").endswith("iter::Iterator::map")):
            return False
        mt = o.term
        src = M.trace(B, mt["args"][0], M.IDENTITY_CALLS + ("[T]>::iter", "IntoIterator::into_iter"))
        if not (src and all(x.kind == "arg" and x.local == 2 for x in src)):
            return False
        clo = [x for x in M.trace(B, mt["args"][1], ()) if x.kind == "aggregate" and x.rv.get("closure")]
        if not clo:
            return False
        cb = F.lib.body(clo[0].rv["closure"])
        if cb is None or not cb.get("mir"):
            return False
        CB = M.Body(cb)
        good = False
        for i in sorted(CB.reach):
            for st in CB.blocks[i]["stmts"]:
                if st["k"] == "assign" and st["p"]["l"] == 0 and not st["p"].get("proj") and st["rv"]["k"] == "use":
                    for y in M.trace(CB, st["rv"]["op"], M.IDENTITY_CALLS):
                        if y.kind == "arg" and y.local == 2 and "abbreviation" in y.fields():
                            good = True
            t = CB.term(i)
            if t.get("k") == "call" and t["dest"]["l"] == 0:
                for y in M.trace(CB, t["args"][0], M.IDENTITY_CALLS) if t.get("args") else []:
                    if y.kind == "arg" and y.local == 2 and "abbreviation" in y.fields():
                        good = True
        if not good:
            return False
    return True


# text steps that make two different names alike (what passes through them is no longer the name itself)
NAME_NORMALISERS = ("trim", "trim_start", "trim_end", "trim_matches", "trim_start_matches", "trim_end_matches", "trim_left", "trim_right",
                    "to_lowercase", "to_uppercase", "to_ascii_lowercase", "to_ascii_uppercase", "make_ascii_lowercase", "make_ascii_uppercase",
                    "replace", "replacen", "strip_prefix", "strip_suffix", "split_once", "rsplit_once", "split", "rsplit", "split_terminator",
                    "split_whitespace", "get", "get_unchecked", "index", "nfc", "nfkc", "truncate")
# (what a value passes unchanged on its way to a comparison)
NAME_PLUMBING = ("unwrap_or", "unwrap_or_default", "unwrap", "expect", "as_bytes", "next", "last", "nth")
# (partial comparisons of texts; `contains` of a slice or a set is membership by equality and not among them)
LOOSE_COMPARISONS = ("eq_ignore_ascii_case", "str>::starts_with", "str>::ends_with", "str>::contains", "String::starts_with", "cmp::PartialOrd::lt",
                     "cmp::PartialOrd::le", "cmp::PartialOrd::gt", "cmp::PartialOrd::ge")


def rule_namespace_names_compared_verbatim(ck, F, rule="R3"):
    """Namespace names are compared character for character (Namespaces in XML 1.0, section 2.3): `http://example.com/orders` and
    `http://example.com/orders/` are two namespaces. Whether a namespace is already known — the test every allocation, every switch
    and every lookup of the registry rests on — is therefore decided by `==` on the full name. A comparison after trimming, case
    folding or cutting makes two namespaces one registry entry: one prefix and one module for both, the second one's types written
    under the first one's name. Decided on the MIR of every non-test function and closure of the library, helpers taken in: where an
    operand of a comparison comes from the `namespace` member of a `Namespace`, neither operand went through a normalising text
    step, and the comparison is equality."""
    wide = M.IDENTITY_CALLS + tuple("::" + n_ for n_ in NAME_NORMALISERS + NAME_PLUMBING) + ("Option::<T>::map", "Option::<T>::and_then")
    n_cmp = 0
    for b in scans.bodies(F.lib):
        path = b["path"]
        if "yaserde_tests" in path or "tests::" in path or "helpers_content" in path:
            continue
        own = [t for _, t in M.Body(b).calls() if (M.Body.callee_decl(t) or "").endswith(("cmp::PartialEq::eq", "cmp::PartialEq::ne") + LOOSE_COMPARISONS)]
        B0 = M.Body(b)
        if not own and not any(True for _bb, t in B0.calls() if F.lib.body((t.get("func") or {}).get("inst_path") or (t.get("func") or {}).get("fn_path") or "") is not None):
            continue
        B = I.inlined_body(F.lib, path)
        if B is None:
            continue
        for bb, t in B.calls():
            d = M.Body.callee_decl(t) or ""
            loose = d.endswith(LOOSE_COMPARISONS)
            if not (d.endswith(("cmp::PartialEq::eq", "cmp::PartialEq::ne")) or loose) or len(t.get("args") or []) != 2:
                continue
            sides = []
            for a in t["args"]:
                os_ = []
                todo = list(M.trace(B, a, wide))
                for _ in range(4):      # (the payload of `Some(x)` built for the comparison)
                    nxt = []
                    for o in todo:
                        if o.kind == "aggregate" and o.rv.get("ak") == "adt" and o.rv.get("variant") == "Some" and o.rv.get("ops"):
                            nxt += [Origin_with(o2, o.steps) for o2 in M.trace(B, o.rv["ops"][0], wide)]
                        else:
                            os_.append(o)
                    todo = nxt
                    if not todo:
                        break
                sides.append(os_)

            def is_ns_name(o):
                if "namespace" not in o.fields():
                    return False
                if o.kind == "arg":
                    return "Namespace" in (B.local_ty(o.local) or "")
                return True
            if not any(is_ns_name(o) for os_ in sides for o in os_):
                continue
            n_cmp += 1
            steps = [st_[1].rsplit("::", 1)[-1] for os_ in sides for o in os_ for st_ in (o.steps or []) if st_[0] == "call" and st_[1].rsplit("::", 1)[-1] in NAME_NORMALISERS]
            short = path.split("::{closure", 1)[0].rsplit("::", 1)[-1]
            site = t.get("sp")
            if loose:
                ck.violation(rule, f"namespace-compared-loosely:{short}:{d.rsplit('::', 1)[-1]}", site,
                             f"{path}: a namespace name is compared with `{d.rsplit('::', 1)[-1]}`: namespace names are compared character for character; "
                             f"two namespaces that differ where this comparison does not look become one registry entry (one prefix, one module for both)", fn=path)
            elif steps:
                ck.violation(rule, f"namespace-compared-normalised:{short}:{steps[0]}", site,
                             f"{path}: a namespace name is compared after `{', '.join(sorted(set(steps)))}`: namespace names are compared character for "
                             f"character (`http://example.com/orders` and `http://example.com/orders/` are two namespaces); the two would share one "
                             f"registry entry, one prefix and one module, and the second one's types be written under the first one's name", fn=path)
            else:
                ck.ok(rule, f"namespace-compared-verbatim:{short}", site, "a namespace name is compared by equality of the full text", fn=path)
    ck.floor(rule, "comparisons of namespace names", n_cmp, 4)


def Origin_with(o, outer_steps):
    o.steps = list(o.steps or []) + list(outer_steps or [])
    return o
