"""C10 — namespace -> prefix/module assignment is injective and stable in one output."""
from engine.rulekit import hir as Hh
from engine.rulekit import inline as I
from engine.rulekit import mir as M
from engine.rulekit import og
from engine.rulekit import scans

from rules import anchors as A


def run(ck, F):
    ck.explanation = (
        "(R1) on the MIR of the abbreviation function every return is dominated by the false arm of a membership test "
        "`existing.any(|ns| ns.abbreviation == candidate)` on the value being returned; (R2) every call passes as `existing` the "
        "document's registry of *all* namespaces (constructor summaries of Namespace); (R3) a Namespace is only constructed after a "
        "lookup of its URI in the registry failed, and its module name is derived from the same abbreviation; (R4) merging two "
        "documents' registries must reconcile entries by URI and re-check abbreviations. (prefix, URI) pairing in the emitted "
        "attributes is C03.R2.")
    ck.assumptions = ["uniqueness within one document follows from R1+R2+R3; across merged documents only from R4"]
    ck.rule("R1", "uniqueness post-condition: every abbreviation returned was tested to be unused in `existing`")
    ck.rule("R2", "uniqueness scope: `existing` is the registry holding every Namespace of the document (`namespaces`)")
    ck.rule("R3", "single allocation: Namespace{..} is built only after `find by URI` in the registry failed; rust_mod_name derives from the same abbreviation")
    ck.rule("R5", "a prefix written as a literal in an emitted namespace map cannot coincide with an allocated abbreviation")
    ck.rule("R4", "merge reconciliation: merging registries matches incoming entries by URI and re-checks abbreviations")
    makers = A.abbreviation_makers(F)
    if len(makers) != 1:
        ck.undecided("R1", "anchor", "-", f"expected one function producing Namespace.abbreviation at the construction sites, found {makers}")
        return
    MAKE = makers[0]
    mshort = MAKE.rsplit("::", 1)[-1]
    fb = F.lib.body(MAKE)
    if fb is None or not fb.get("mir"):
        ck.undecided("R1", "anchor", "-", "the abbreviation function has no body")
        return
    # helper functions and directly called closures of the abbreviation function are part of it
    B = I.inlined_body(F.lib, MAKE)
    # ---- R1
    rets = []
    for i in sorted(B.reach):
        for s in B.blocks[i]["stmts"]:
            if s["k"] == "assign" and s["p"]["l"] == 0 and not s["p"].get("proj"):
                rets.append((i, s))
        t = B.term(i)
        if t.get("k") == "call" and t["dest"]["l"] == 0 and not t["dest"].get("proj"):
            rets.append((i, {"rv": {"k": "call", "term": t}, "sp": t.get("sp")}))
    ck.floor("R1", "return sites", len(rets), 1)
    anys = B.calls_to("iter::Iterator::any")
    contains = [(bb, t) for bb, t in B.calls() if (M.Body.callee_decl(t) or "").endswith(("::contains",)) and "Set" in (M.Body.callee_decl(t) or "") + "Vec" + (M.Body.callee_decl(t) or "")]
    for (rb, s) in rets:
        rv = s["rv"]
        val_roots = set()
        if rv["k"] == "use":
            for o in M.trace(B, rv["op"], M.IDENTITY_CALLS):
                val_roots.add(getattr(o, "local", None) if o.kind != "call" else ("call", o.bb))
            src_local = rv["op"]["p"]["l"] if rv["op"].get("k") in ("copy", "move") else None
        else:
            src_local = None
        ok = False
        why = "no membership test dominates the return"
        for (abb, at) in anys:
            hay = M.trace(B, at["args"][0], M.IDENTITY_CALLS + ("[T]>::iter", "IntoIterator::into_iter"))
            if not (hay and all(o.kind == "arg" and o.local == 2 for o in hay)):
                why = "the membership test does not range over `existing`"
                continue
            # closure compares ns.abbreviation with the candidate (captured)
            clo = [o for o in M.trace(B, at["args"][1], ()) if o.kind == "aggregate" and o.rv.get("closure")]
            if not clo:
                continue
            cb = F.lib.body(clo[0].rv["closure"])
            CB = M.Body(cb)
            cmp_ok = False
            for cbb, ct in CB.calls():
                if (M.Body.callee_decl(ct) or "").endswith(("cmp::PartialEq::eq", "cmp::PartialEq::ne")):
                    sides = [M.slice_info(CB, a) for a in ct["args"]]
                    fields = [set(f for o in M.trace(CB, a, M.IDENTITY_CALLS) for f in o.fields()) for a in ct["args"]]
                    up = [any(r[0] == "upvar" for r in s_[0]) for s_ in sides]
                    if ("abbreviation" in fields[0] and up[1]) or ("abbreviation" in fields[1] and up[0]):
                        cmp_ok = True
            if not cmp_ok:
                why = "the membership predicate does not compare `ns.abbreviation` with the candidate"
                continue
            # the captured candidate must be the returned value
            cap = clo[0].rv["ops"]
            cap_locals = set()
            for o in cap:
                for x in M.trace(B, o, M.IDENTITY_CALLS):
                    cap_locals.add(getattr(x, "local", None) if x.kind != "call" else ("call", x.bb))
            if not (cap_locals & val_roots):
                why = "the value tested is not the value returned"
                continue
            sw = B.term(at["target"]) if at.get("target") is not None else {}
            # `!any(..)`: Not then switch; find the arm reached when any == false
            free_arm = _arm_when_false(B, abb, at)
            if free_arm is not None and B.dominates(free_arm, rb):
                ok = True
        if not ok:
            # the same test through a collected set: `let taken: HashSet<_> = existing.iter().map(|ns| ns.abbreviation..).collect();
            # if !taken.contains(candidate) { return candidate }`
            for (cbb, ct) in contains:
                if len(ct["args"]) != 2:
                    continue
                if not _set_of_existing_abbreviations(F, B, ct["args"][0]):
                    why = "the set searched does not hold the abbreviations of all of `existing`"
                    continue
                needle = set()
                for x in M.trace(B, ct["args"][1], M.IDENTITY_CALLS):
                    needle.add(getattr(x, "local", None) if x.kind != "call" else ("call", x.bb))
                if not (needle & val_roots):
                    why = "the value tested is not the value returned"
                    continue
                free_arm = _arm_when_false(B, cbb, ct)
                if free_arm is not None and B.dominates(free_arm, rb):
                    ok = True
        if ok:
            ck.ok("R1", "return-tested-unused", s.get("sp", fb["span"]), "the returned abbreviation was tested not to occur in `existing`", fn="")
        else:
            ck.violation("R1", "return-tested-unused", s.get("sp", fb["span"]),
                         f"{mshort} can return an abbreviation without having tested it against the existing ones ({why})", fn="")
    # ---- R2 / R3
    CE = og.CallExpander(F)
    sums = [s for s in og.field_summaries(F, "model::Namespace") if "Clone" not in s[0] and "tests" not in s[0]]
    ck.floor("R3", "Namespace construction sites", len(sums), 2)
    for (fn, site, ctx, fields, base) in sums:
        short = fn.rsplit("::", 1)[-1]
        ab = fields.get("abbreviation")
        md = fields.get("rust_mod_name")
        uri = fields.get("namespace")
        if ab and ab[0] == "call" and ab[1] == MAKE:
            existing = og.nf_str(ab[2][1])
            if existing == "self.namespaces":
                ck.ok("R2", f"existing=self.namespaces", site, f"{short}: uniqueness checked against the registry of all namespaces", fn=fn)
            else:
                ck.violation("R2", f"existing={existing}", site,
                             f"{short}: the new abbreviation is only checked against `{existing}`, not against every namespace of the document: "
                             f"two different URIs can receive the same prefix/module", fn=fn)
            if og.nf_str(ab[2][0]) != og.nf_str(uri):
                ck.violation("R3", "abbreviation-of-other-uri", site, f"{short}: abbreviation derived from {og.nf_str(ab[2][0])} but namespace is {og.nf_str(uri)}", fn=fn)
        else:
            ck.violation("R2", "abbreviation-source", site, f"{short}: abbreviation = {og.nf_str(ab)[:80]} does not come from the abbreviation function ({mshort})", fn=fn)
        md_e = CE.expand(md) if md else None
        only_ab = False
        if md_e is not None and ab is not None:
            rest = og.nf_replace(md_e, CE.expand(ab), ("lit", "<abbreviation>"))
            rest = og.nf_replace(rest, ab, ("lit", "<abbreviation>"))
            only_ab = "<abbreviation>" in og.nf_str(rest) and not [r for r in og.nf_roots(rest) if r[0] != "lit"]
        if only_ab:
            ck.ok("R3", "module-from-abbreviation", site, f"{short}: rust_mod_name is a function of the same abbreviation only ({og.nf_str(md_e)[:50]})", fn=fn)
        else:
            ck.violation("R3", "module-from-abbreviation", site, f"{short}: rust_mod_name = {og.nf_str(md)[:80]} is not derived from the same abbreviation", fn=fn)
        # lookup by URI before construction
        looked = False
        for c in ctx:
            if c[0] != "alt":
                continue
            ce = og.nf_str(CE.expand(c[1]))
            found_branch = (c[1][0] == "islet" and c[1][1].startswith("Some(")) or ce.startswith("is_some(")
            absent = (found_branch and c[2] is False) or (ce.startswith("is_none(") and c[2] is True) or \
                     (c[1][0] == "islet" and c[1][1].rsplit("::", 1)[-1] == "None" and c[2] is True)
            if absent and "find(" in ce and ".namespace" in ce and "namespaces" in ce:
                looked = True
        if not looked:
            # closure passed to unwrap_or_else on a find(..) result: inspect the function's HIR
            b = F.lib.body(fn)
            nb = Hh.norm_body(b)
            for x in Hh.exprs(nb["value"]):
                if x.get("k") == "MethodCall" and x["name"] in ("unwrap_or_else", "or_else", "map_or_else"):
                    d = Hh.describe(x["recv"])
                    inner = [y for y in Hh.exprs(x["args"]) if y.get("k") == "Struct" and (y["path"].get("path") or "").endswith("model::Namespace")]
                    if inner and "find(" in d and "namespaces" in d and "namespace" in d:
                        looked = True
        if looked:
            ck.ok("R3", "lookup-before-construct", site, f"{short}: a Namespace is only built when no registry entry has this URI", fn=fn)
        else:
            ck.violation("R3", "lookup-before-construct", site, f"{short}: a Namespace is built without first looking its URI up in the registry: one URI can get two prefixes", fn=fn)
    # ---- R5: fixed prefixes next to allocated ones
    rule_fixed_prefixes(ck, F, MAKE)
    # ---- R4
    MERGE = A.merge_fn(F)
    b = F.lib.body(MERGE) if MERGE else None
    if b is None:
        ck.undecided("R4", "extend", "-", "the merge function `fn(&mut RustDocument, RustDocument)` could not be attributed")
        return
    nb = Hh.norm_body(b)
    text = " ".join(Hh.describe(x) for x in Hh.exprs(nb["value"]) if x.get("k") in ("MethodCall", "Call"))
    by_uri = False
    # the merge itself and the local functions it delegates to
    for hb in [b] + [F.lib.body(c) for c in A.local_callees(F, MERGE)]:
        if hb is None:
            continue
        hnb = Hh.norm_body(hb)
        for x in Hh.exprs(hnb["value"]):
            if x.get("k") == "Binary" and x["op"] == "Eq" and ".namespace" in Hh.describe(x):
                by_uri = True
    # whatever the merge keys on, an entry that the receiver already holds is not appended again: each incoming namespace is pushed
    # only on the arm where a membership test over the whole receiving registry failed (an `extend` + `dedup` only removes neighbours)
    MB = I.inlined_body(F.lib, MERGE)
    regs = ("namespaces", "target_namespaces")

    def on_registry(op, fld):
        os_ = M.trace(MB, op, M.IDENTITY_CALLS + ("[T]>::iter", "Vec::<T, A>::iter", "Vec::<T, A>::as_slice"))
        return bool(os_) and all(o.kind == "arg" and o.local == 1 and o.fields()[:1] == [fld] for o in os_)
    for fld in regs:
        appends = [(bb, t) for bb, t in MB.calls() if (M.Body.callee_decl(t) or "").endswith(("Vec::<T, A>::push", "Vec::<T, A>::extend", "iter::Extend::extend",
                   "Vec::<T, A>::append", "Vec::<T, A>::extend_from_slice", "Vec::<T, A>::insert")) and t.get("args") and on_registry(t["args"][0], fld)]
        tests = [(bb, t) for bb, t in MB.calls() if (M.Body.callee_decl(t) or "").endswith(("::contains", "Iterator::any", "Iterator::all", "Iterator::position", "Iterator::find"))
                 and t.get("args") and on_registry(t["args"][0], fld)]
        if not appends:
            ck.undecided("R4", f"merge-no-duplicates:{fld}", b["span"], f"no append to the receiver's `{fld}` found in the merge")
            continue
        bad = []
        for abb, at in appends:
            d_ = M.Body.callee_decl(at) or ""
            def absent_arm(tbb, tt):
                """the block reached when the membership test says "not in the registry yet" """
                dd = M.Body.callee_decl(tt) or ""
                if dd.endswith(("::contains", "Iterator::any")):
                    return _arm_when_false(MB, tbb, tt)
                if dd.endswith("Iterator::all") and _closure_compares_unequal(F, MB, tt["args"][1]):
                    return _arm_when_false(MB, tbb, tt, want_true=True)     # all(|x| x != item)
                return None
            guarded = d_.endswith("push") and any((lambda arm: arm is not None and MB.dominates(arm, abb))(absent_arm(tbb, tt)) for tbb, tt in tests)
            if not guarded:
                bad.append((abb, d_.rsplit("::", 1)[-1]))
        if bad:
            ck.violation("R4", f"merge-no-duplicates:{fld}", MB.term(bad[0][0]).get("sp") or b["span"],
                         f"the merge appends incoming `{fld}` entries with `{bad[0][1]}` without having tested each against the whole receiving registry: "
                         f"a namespace both documents hold is listed twice (its module is then written twice)")
        else:
            ck.ok("R4", f"merge-no-duplicates:{fld}", MB.term(appends[0][0]).get("sp") or b["span"],
                  f"incoming `{fld}` entries are pushed only after a failed membership test over the receiving registry")
    if by_uri:
        ck.ok("R4", "merge-by-uri", b["span"], "registries are merged by URI")
    else:
        ck.violation("R4", "merge-by-uri", b["span"],
                     "RustDocument::extend merges the namespace registries by whole-value equality: the same URI "
                     "abbreviated differently in two files yields two prefixes/modules, and two URIs abbreviated alike in two files share one")


def rule_fixed_prefixes(ck, F, maker):
    """A namespace map of an emitted struct may hold prefixes written as literals (`soapenv`) next to the allocated abbreviations. The
    two cannot coincide only if the literal cannot be an abbreviation: abbreviations are at most N alphanumeric characters (the
    constant of the `take(N)` in the allocator) followed by a decimal counter. A literal of that form can be allocated to a target
    namespace as well, and one map then binds one prefix to two URIs."""
    import re as _re
    from rules import c03 as C03
    from rules import templates as T
    n_take = None
    for q in [maker] + A.local_callees(F, maker, depth=2):
        b = F.lib.body(q)
        if b is None or not b.get("mir"):
            continue
        B = M.Body(b)

        def const_int(c):
            v = c.get("int", c.get("bits"))
            if isinstance(v, int):
                return v
            name = c.get("uneval")
            if name:      # a named constant: `const MAX_CHARS: usize = 3;`
                for cb_ in F.lib.bodies:
                    if str(cb_.get("kind", "")).startswith("Const") and (cb_["path"] == name or cb_["path"].endswith("::" + name.rsplit("::", 1)[-1])) and cb_.get("hir") is not None:
                        try:
                            v_ = Hh.strip(Hh.norm_body(cb_)["value"])
                        except Exception:
                            continue
                        if v_.get("k") == "Lit" and v_.get("lit") == "int":
                            return v_["v"]
            return None
        for bb, t in B.calls():
            if (M.Body.callee_decl(t) or "").endswith("iter::Iterator::take") and len(t["args"]) == 2:
                for o in M.trace(B, t["args"][1], ()):
                    v = const_int(o.const) if o.kind == "const" else None
                    if isinstance(v, int):
                        n_take = v if n_take is None else max(n_take, v)
        # or a hand-written bound: the length of the text built so far compared with a constant (`if taken.len() == 3 { break }`)
        for i in sorted(B.reach):
            for st in B.blocks[i]["stmts"]:
                rv = st.get("rv") or {}
                if st["k"] == "assign" and rv.get("k") == "binop" and rv.get("op") in ("Eq", "Ge", "Gt", "Lt", "Le", "Ne"):
                    for x, y in ((rv["a"], rv["b"]), (rv["b"], rv["a"])):
                        if x.get("k") == "const" and y.get("k") in ("copy", "move"):
                            v = const_int(x)
                            os_ = M.trace(B, y, ())
                            if isinstance(v, int) and os_ and all(o.kind == "call" and (M.Body.callee_decl(o.term) or "").endswith(
                                    ("String::len", "str>::len", "iter::Iterator::count")) for o in os_):
                                v = v + 1 if rv["op"] in ("Gt", "Le") else v
                                n_take = v if n_take is None else max(n_take, v)
    X = T.extractor(F)
    CE = og.CallExpander(F)
    lits = {}
    for fn in T.struct_emitters(X):
        try:
            groups = T.struct_groups(X, fn)
        except og.Unrecognised:
            continue
        for g in groups:
            for ev in [e for e in g.pre if "#[yaserde(" in e.skeleton()]:
                a = C03.parse_attr(ev)
                if a is None:
                    continue
                entries, found = C03.nsmap_entries(a, CE)
                if found and entries is None:
                    ck.undecided("R5", "fixed-prefixes:unreadable-map", ev.site, "a namespace map could not be read entry by entry: whether it holds a literal prefix that can "
                                 "coincide with an abbreviation is not decided")
                for ent in entries or []:
                    k = ent[0]
                    if isinstance(k, tuple) and k[0] == "lit" and isinstance(k[1], str):
                        lits.setdefault(k[1], ev.site)
    if not lits:
        ck.ok("R5", "fixed-prefixes:none", "-", "no namespace map holds a literal prefix")
        return
    for lit, site in sorted(lits.items()):
        if n_take is None:
            ck.undecided("R5", f"fixed-prefix:{lit}", site, "the length bound of an allocated abbreviation (`take(N)` in the allocator) was not found: whether the "
                         f"literal prefix `{lit}` can coincide with an abbreviation is not decided")
        elif _re.fullmatch(r"[a-z0-9]{0,%d}[0-9]*" % n_take, lit.lower()):
            ck.violation("R5", f"fixed-prefix:{lit}", site,
                         f"the literal prefix `{lit}` in an emitted namespace map has the form of an allocated abbreviation (at most {n_take} alphanumeric characters "
                         f"and a counter): a target namespace abbreviated `{lit.lower()}` gives one map two bindings of that prefix")
        else:
            ck.ok("R5", f"fixed-prefix:{lit}", site, f"`{lit}` cannot be an allocated abbreviation (those are at most {n_take} alphanumeric characters and a counter)")


def _closure_compares_unequal(F, B, operand):
    """the closure does nothing but compare with `!=` (one Ne / `ne`, no other operation)"""
    for o in M.trace(B, operand, ()):
        if not (o.kind == "aggregate" and o.rv.get("closure")):
            return False
        cb = F.lib.body(o.rv["closure"])
        if cb is None or not cb.get("mir"):
            return False
        CB = M.Body(cb)
        ops = [st["rv"] for i in sorted(CB.reach) for st in CB.blocks[i]["stmts"] if st["k"] == "assign" and st["rv"]["k"] in ("binop", "unop")]
        calls = [M.Body.callee_decl(t) or "" for _, t in CB.calls()]
        ne_ops = [x for x in ops if x["k"] == "binop" and x["op"] == "Ne"]
        ne_calls = [c for c in calls if c.endswith("cmp::PartialEq::ne")]
        others = [x for x in ops if x not in ne_ops] + [c for c in calls if c not in ne_calls and not c.endswith(("ops::Deref::deref",))]
        if len(ne_ops) + len(ne_calls) != 1 or others:
            return False
    return True


def _arm_when_false(B, abb, at, want_true=False):
    """Block reached when the bool result of call `at` is false (through an optional `Not`); with want_true, when it is true."""
    dest = at["dest"]["l"]
    neg = bool(want_true)
    cur = dest
    for _ in range(8):
        uses = [u for u in M.uses_of_local(B, cur) if u[1] != "drop"]
        for (ubb, where, j, x) in uses:
            if where == "stmt" and x["rv"]["k"] == "unop" and x["rv"]["op"] == "Not":
                neg = not neg
                cur = x["p"]["l"]
                break
            if where == "stmt" and x["rv"]["k"] == "use" and not x["p"].get("proj"):
                cur = x["p"]["l"]   # a copy (e.g. the result of an inlined closure handed to its caller)
                break
            if where == "term" and x.get("k") == "switch":
                vals = [v for v, _ in x["targets"]]
                if vals == [0]:
                    false_t, true_t = x["targets"][0][1], x["otherwise"]
                else:
                    return None
                return true_t if neg else false_t
        else:
            return None
    return None


def _set_of_existing_abbreviations(F, B, operand):
    """the operand is a collection built as `existing.iter().map(|ns| ns.abbreviation ..).collect()` (parameter 2, unfiltered)"""
    ident = M.IDENTITY_CALLS + ("iter::Iterator::collect", "iter::FromIterator::from_iter", "IntoIterator::into_iter")
    for o in M.trace(B, operand, ident):
        if not (o.kind == "call" and (M.Body.callee_decl(o.term) or "").endswith("iter::Iterator::map")):
            return False
        mt = o.term
        src = M.trace(B, mt["args"][0], M.IDENTITY_CALLS + ("[T]>::iter", "IntoIterator::into_iter"))
        if not (src and all(x.kind == "arg" and x.local == 2 for x in src)):
            return False
        clo = [x for x in M.trace(B, mt["args"][1], ()) if x.kind == "aggregate" and x.rv.get("closure")]
        if not clo:
            return False
        cb = F.lib.body(clo[0].rv["closure"])
        if cb is None or not cb.get("mir"):
            return False
        CB = M.Body(cb)
        good = False
        for i in sorted(CB.reach):
            for st in CB.blocks[i]["stmts"]:
                if st["k"] == "assign" and st["p"]["l"] == 0 and not st["p"].get("proj") and st["rv"]["k"] == "use":
                    for y in M.trace(CB, st["rv"]["op"], M.IDENTITY_CALLS):
                        if y.kind == "arg" and y.local == 2 and "abbreviation" in y.fields():
                            good = True
            t = CB.term(i)
            if t.get("k") == "call" and t["dest"]["l"] == 0:
                for y in M.trace(CB, t["args"][0], M.IDENTITY_CALLS) if t.get("args") else []:
                    if y.kind == "arg" and y.local == 2 and "abbreviation" in y.fields():
                        good = True
        if not good:
            return False
    return True
