"""C15 — output-sink failures are reported: no panic, no false success."""
from engine.rulekit import facts as factsmod
from engine.rulekit import scans
from rules import templates as T

NON_TEST_EXCLUDE = ("yaserde_tests",)


def in_scope(fn):
    return not any(x in fn for x in NON_TEST_EXCLUDE)


def run(ck, F):
    ck.explanation = (
        "Result-flow analysis on MIR: every call of an io::Write / fmt sink method and every call of a function that "
        "(transitively) writes to the sink is located in all non-test bodies of zeep-lib (closures included) and the consumer of "
        "its Result is classified (propagated with `?`, returned, mapped-then-propagated vs. unwrapped, ok()'d, dropped). The "
        "short-write primitive Write::write is a zero-count rule with a positive control. Nothing is executed.")
    ck.assumptions = ["write_fmt / write_all retry partial writes and surface the sink's error (std contract)",
                      "WriterError::Io carries the io::Error (checked: From<io::Error> impl exists)"]
    ck.rule("R1", "every sink result (write_fmt/write_all/flush and every writer-function call) is propagated or returned; "
                  "unwrap/expect (panic) and ok()/let _/drop (false success) are violations")
    ck.rule("R2", "WriterError has a From<std::io::Error> conversion so `?` carries the sink error")
    ck.rule("R3", "no short-write primitive: Write::write / write_vectored are never called")
    ck.rule("R4", "a buffering wrapper (BufWriter / LineWriter) around the sink is flushed with the result propagated on every path to a "
                  "successful return (its Drop flushes too but swallows the error)")
    X = T.extractor(F)
    hits = [h for h in scans.scan_sink_results(F.lib, X.writer_fns) if in_scope(h[0])]
    n_sink = n_writer = 0
    for (fn, site, callee, kinds, n, cls) in hits:
        if cls == "sink":
            n_sink += 1
        else:
            n_writer += 1
        short = callee.rsplit("::", 1)[-1]
        if kinds and kinds <= scans.GOOD_FLOW:
            ck.ok("R1", f"{short}#{n}", site, f"{callee}: result {sorted(kinds)}", fn=fn)
        else:
            bad = sorted(kinds - scans.GOOD_FLOW) or ["unused"]
            how = "panics on a sink failure" if any("unwrap" in k for k in bad) else "a sink failure is not reported (false success)"
            ck.violation("R1", f"{short}#{n}", site, f"result of {callee} is {bad}: {how}", fn=fn)
    ck.floor("R1", "sink write calls", n_sink, 30)
    ck.floor("R1", "writer-function calls", n_writer, 5)
    # R2
    froms = [i for i in F.lib.items["impls"] if i.get("trait") == "std::convert::From" and i["self_ty"] == "error::WriterError"
             and "std::io::Error" in (i.get("trait_ref") or "")]
    if froms:
        ck.ok("R2", "from-io-error", froms[0]["span"], "impl From<std::io::Error> for WriterError exists")
    else:
        ck.violation("R2", "from-io-error", "-", "WriterError has no From<std::io::Error>: `?` on a sink error cannot carry it")
    # R3 with positive control
    short = [(fn, site, callee) for (fn, site, callee, kinds, n, cls) in hits if callee in scans.SHORT_WRITE]
    for (fn, site, callee) in short:
        ck.violation("R3", f"{callee}", site, f"{callee} may write only part of the buffer; the remainder is silently lost", fn=fn)
    if not short:
        ck.ok("R3", "no-short-write", "-", "no Write::write / write_vectored call in zeep-lib")
    # R4: buffering wrappers around the sink
    in_lib = [h for h in scans.scan_buffered_sinks(F.lib) if in_scope(h[0])] + list(scans.scan_buffered_sinks(F.bin))   # library and CLI
    for (fn, site, verdict, detail) in in_lib:
        short_ = fn.rsplit("::", 1)[-1]
        if verdict == "ok":
            ck.ok("R4", f"buffered:{short_}", site, f"{fn}: buffering wrapper flushed, result passed on ({detail})", fn=fn)
        else:
            ck.violation("R4", f"buffered:{short_}:{verdict}", site,
                         f"{fn} wraps the sink in a buffering writer that is dropped without a reported flush ({detail}): a failure of the "
                         f"sink while the buffer is written out on drop is swallowed and the caller sees success", fn=fn)
    if not in_lib:
        ck.ok("R4", "no-buffering-wrapper", "-", "no BufWriter / LineWriter is built around a sink in zeep-lib or the CLI")
    ctl = factsmod.controls()
    bh = {h[0]: h[2] for h in scans.scan_buffered_sinks(ctl)}
    want_b = {"c15_buffered_unflushed": "unflushed", "c15_buffered_flushed": "ok", "c15_buffered_flush_returned": "ok", "c15_buffered_flush_ignored": "flush-result-lost"}
    if bh == want_b:
        ck.ok("R4", "positive-control", "engine/controls/src/lib.rs", "controls: unflushed and ignored-flush wrappers reported, flushed ones accepted")
    else:
        ck.undecided("R4", "positive-control", "engine/controls/src/lib.rs", f"the buffered-sink scanner reports {bh} on the controls, expected {want_b}")
    chits = scans.scan_sink_results(ctl)
    bad_ctl = {h[0] for h in chits if not (h[3] and h[3] <= scans.GOOD_FLOW)}
    want = {"c15_dropped", "c15_unwrapped", "c15_ok_swallow", "c15_in_closure::{closure#0}", "c15_fold_discards::{closure#0}",
            "c15_buffered_flush_ignored"}
    good_ctl = {h[0] for h in chits if h[3] and h[3] <= scans.GOOD_FLOW}
    short_ctl = {h[0] for h in chits if h[2] in scans.SHORT_WRITE}
    if bad_ctl == want and {"c15_propagated", "c15_try_for_each_ok::{closure#0}"} <= good_ctl and short_ctl == {"c15_short_write"}:
        ck.ok("R1", "positive-control", "engine/controls/src/lib.rs", f"controls: flagged {sorted(bad_ctl)}, short write {sorted(short_ctl)}")
    else:
        ck.undecided("R1", "positive-control", "engine/controls/src/lib.rs",
                     f"the sink-result scanner no longer reports exactly the control instances: flagged={sorted(bad_ctl)} "
                     f"expected={sorted(want)} short={sorted(short_ctl)}")
