"""Shared anchors inside the emitted helper module (`model::helpers_content::helpers`)."""
from engine.rulekit import mir as M

HELPERS_MOD = "model::helpers_content::helpers"

# identity list extended for provenance through `?`, map_err and `.await`
FLOW_IDENTITY = M.IDENTITY_CALLS + (
    "ops::Try::branch", "Result::<T, E>::map_err", "future::Future::poll",
)


def find_async_fn(F, name):
    """(fn fact, coroutine body fact) of async fn `name` in the helper module, located by module + name."""
    fn = F.lib.body(f"{HELPERS_MOD}::{name}")
    co = F.lib.body(f"{HELPERS_MOD}::{name}::{{closure#0}}")
    return fn, co


def entry_fns(F):
    """paths of the helper module's functions that code outside the module can call (the emitted client methods do)"""
    out = []
    for f in F.lib.items.get("fns", []):
        if f.get("module") != HELPERS_MOD or f["path"].startswith("<"):
            continue
        vis = f.get("vis") or ""
        private = vis.startswith("Restricted(") and vis.rstrip(")").endswith("::" + HELPERS_MOD)
        if not private:
            out.append(f["path"])
    return out


def is_entry(F, path):
    return path in entry_fns(F)


def sender_fn(F):
    """The entry function of the helper module that performs the exchange (semantic anchor: not by name): its body — the coroutine
    of an async fn — with the module's private helpers and awaited private async fns taken in calls RequestBuilder::send. Other entry
    functions stay calls (an entry that only wraps the sender is not a second sender)."""
    from engine.rulekit import inline as I
    entries = entry_fns(F)
    out = []
    for e in entries:
        b = F.lib.body(e + "::{closure#0}") or F.lib.body(e)
        if b is None or not b.get("mir"):
            continue
        ib = I.Inliner(F.lib, stop=lambda p, e=e: p != e and p in entries).body(b)
        if M.Body(ib).calls_to("reqwest::RequestBuilder::send"):
            out.append(b)
    # fail closed: a function that sends but is reachable from no entry's inlined body is still reported as a sender
    return out


def one(calls):
    return calls[0] if len(calls) == 1 else None


def origin_calls(B, operand, identity=FLOW_IDENTITY):
    """Set of (bb, callee_decl) of the calls an operand originates from (through identity steps)."""
    out = []
    seen = set()
    for o in M.trace(B, operand, identity):
        key = (o.bb, M.Body.callee_decl(o.term)) if o.kind == "call" else (None, o.kind, repr(o))
        if key in seen:
            continue   # the same site reached along several def-use chains
        seen.add(key)
        if o.kind == "call":
            out.append((o.bb, M.Body.callee_decl(o.term), o))
        else:
            out.append((None, o.kind, o))
    return out
