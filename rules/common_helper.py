"""Shared anchors inside the emitted helper module (`model::helpers_content::helpers`)."""
from engine.rulekit import mir as M

HELPERS_MOD = "model::helpers_content::helpers"

# identity list extended for provenance through `?`, map_err and `.await`
FLOW_IDENTITY = M.IDENTITY_CALLS + (
    "ops::Try::branch", "Result::<T, E>::map_err", "future::Future::poll",
)


def find_async_fn(F, name):
    """(fn fact, coroutine body fact) of async fn `name` in the helper module, located by module + name."""
    fn = F.lib.body(f"{HELPERS_MOD}::{name}")
    co = F.lib.body(f"{HELPERS_MOD}::{name}::{{closure#0}}")
    return fn, co


def sender_fn(F):
    """The async fn of the helper module that calls RequestBuilder::send (semantic anchor: not by name)."""
    out = []
    for b in F.lib.bodies:
        if not b["path"].startswith(HELPERS_MOD) or not b.get("mir"):
            continue
        B = M.Body(b)
        if B.calls_to("reqwest::RequestBuilder::send"):
            out.append(b)
    return out


def one(calls):
    return calls[0] if len(calls) == 1 else None


def origin_calls(B, operand, identity=FLOW_IDENTITY):
    """Set of (bb, callee_decl) of the calls an operand originates from (through identity steps)."""
    out = []
    for o in M.trace(B, operand, identity):
        if o.kind == "call":
            out.append((o.bb, M.Body.callee_decl(o.term), o))
        else:
            out.append((None, o.kind, o))
    return out
