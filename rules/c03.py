"""C03 — serialized values are schema-conformant, namespace-well-formed XML.

Decides the yaserde annotations zeep hands to the serializer (the only thing zeep contributes): per-field and
per-struct (prefix, rename, attribute / namespaces) triples, their provenance, and prefix coverage."""
import re

from engine.rulekit import og
from engine.rulekit import scans
from rules import templates as T
from rules import anchors as A

SOAP11 = "http://schemas.xmlsoap.org/soap/envelope/"
RE_YASERDE = re.compile(r"#\[yaserde\((.*)\)\]\s*$", re.S)


def parse_attr(ev):
    """{key: ('hole', nf) | ('lit', text) | ('raw', text-with-{})} for a `#[yaserde(k = "v", ...)]` template."""
    hole_list = ev.holes()
    marks = []
    sk = ""
    i = 0
    for p in ev.parts:
        if p[0] == "lit":
            sk += p[1]
        else:
            sk += f"\x00{i}\x00"
            i += 1
    m = RE_YASERDE.search(sk.strip())
    if not m:
        return None
    inner = m.group(1)
    out = {}
    extra = []
    # split top-level commas (namespaces = { .. } may contain commas)
    depth = 0
    cur = ""
    for ch in inner:
        if ch == "{":
            depth += 1
        if ch == "}":
            depth -= 1
        if ch == "," and depth == 0:
            extra.append(cur)
            cur = ""
        else:
            cur += ch
    extra.append(cur)
    for item in extra:
        item = item.strip()
        if not item:
            continue
        if "=" not in item:
            out.setdefault("_bare", []).append(item)
            continue
        k, v = item.split("=", 1)
        k, v = k.strip(), v.strip()
        mm = re.fullmatch(r'"\x00(\d+)\x00"', v) or re.fullmatch(r'\x00(\d+)\x00', v)
        if mm:
            out[k] = ("hole", hole_list[int(mm.group(1))][0])
        elif "\x00" in v:
            idx = [int(x) for x in re.findall(r"\x00(\d+)\x00", v)]
            out[k] = ("raw", v, [hole_list[j][0] for j in idx])
        else:
            out[k] = ("lit", v.strip('"'))
    # bare holes (e.g. `{attribute_header}`, `{yaserde_ns_header}`)
    for b in out.pop("_bare", []):
        mm = re.fullmatch(r"\x00(\d+)\x00", b)
        if mm:
            out.setdefault("_holes", []).append(hole_list[int(mm.group(1))][0])
    # trailing hole glued to the previous value: `rename = "{}"{}`
    for k, v in list(out.items()):
        if isinstance(v, tuple) and v[0] == "raw":
            mm = re.fullmatch(r'"?\x00(\d+)\x00"?\x00(\d+)\x00', v[1])
            if mm:
                out[k] = ("hole", hole_list[int(mm.group(1))][0])
                out.setdefault("_holes", []).append(hole_list[int(mm.group(2))][0])
    return out


def ns_map_of(nf):
    """Structure of a `namespaces = {..}` value normal form: list of (key_nf, value_nf, star_or_None)."""
    # forms: fmt("{a}" = "{b}")  |  joinmap(list[...], fmt("{each.0}" = "{each.1}"), ', ') possibly wrapped in fmt(namespaces = { .. })
    def strip_fmt(n):
        if n[0] == "format":
            holes = [p[1] for p in n[1] if p[0] == "hole"]
            lits = "".join(p[1] for p in n[1] if p[0] == "lit")
            if len(holes) == 1 and "=" not in lits.replace("namespaces =", ""):
                return strip_fmt(holes[0])
        return n
    n = strip_fmt(nf)
    if n[0] == "format":
        holes = [p[1] for p in n[1] if p[0] == "hole"]
        if len(holes) == 2:
            return [(holes[0], holes[1], None)]
    if n[0] == "joinmap" and n[1][0] == "list":
        out = []
        for item in n[1][1]:
            if item[0] == "item" and item[1][0] == "tuple":
                out.append((item[1][1][0], item[1][1][1], None))
            elif item[0] == "star" and item[2][0] == "tuple":
                if len(item) > 4 and not _harmless_conditions(item[4], item[2]):
                    continue   # entries added for some of the elements only do not declare the prefixes of all members
                out.append((item[2][1][0], item[2][1][1], item[1]))
            else:
                return None
        return out
    if nf[0] == "format":
        # the map put together as one text: literal entries (`"soapenv" = "http://.."`) and, per element of a list, `, {:?} = {:?}`
        out = []
        entry = re.compile(r'"([^"]*)"\s*=\s*"([^"]*)"')
        seq = list(nf[1])
        # `{key:?} = {value:?}` written with two holes: an entry of its own
        folded = []
        i_ = 0
        while i_ < len(seq):
            if i_ + 2 < len(seq) and seq[i_][0] == "hole" and seq[i_ + 1][0] == "lit" and re.fullmatch(r"\s*=\s*", seq[i_ + 1][1]) and seq[i_ + 2][0] == "hole" \
                    and not (isinstance(seq[i_][1], tuple) and seq[i_][1] and seq[i_][1][0] == "joinmap") \
                    and not (isinstance(seq[i_ + 2][1], tuple) and seq[i_ + 2][1] and seq[i_ + 2][1][0] == "joinmap"):
                out.append((seq[i_][1], seq[i_ + 2][1], None))
                i_ += 3
                continue
            folded.append(seq[i_])
            i_ += 1
        for p in folded:
            if p[0] == "lit":
                for m in entry.finditer(p[1]):
                    out.append((("lit", m.group(1)), ("lit", m.group(2)), None))
                if re.sub(r"namespaces|[\s={},]", "", entry.sub("", p[1])):
                    return None
            else:
                v = p[1]
                if isinstance(v, tuple) and v and v[0] == "lit" and isinstance(v[1], str):
                    continue       # (a hole that turned out to be literal text without an entry in it)
                if not (isinstance(v, tuple) and v[0] == "joinmap" and isinstance(v[2], tuple)):
                    return None
                body = v[2]
                conds = []
                if body[0] == "ifelse" and body[3] == ("lit", ""):
                    # an entry that is appended under conditions: harmless ones only (the element has a namespace at all; it is not in the
                    # list yet) — any other condition leaves prefixes of members undeclared
                    stack = [body[1]]
                    while stack:
                        c_ = stack.pop()
                        if isinstance(c_, tuple) and c_ and c_[0] == "binop" and c_[1] == "And":
                            stack += [c_[2], c_[3]]
                        else:
                            conds.append(c_)
                    body = body[2]
                if body[0] != "format":
                    return None
                holes = [q[1] for q in body[1] if q[0] == "hole"]
                lits = "".join(q[1] for q in body[1] if q[0] == "lit") + (v[3] if isinstance(v[3], str) else "")
                if len(holes) != 2 or re.sub(r'[\s=,"]', "", lits):
                    return None
                if conds and not _harmless_conditions(conds, ("tuple", (holes[0], holes[1]))):
                    continue
                out.append((holes[0], holes[1], v[1]))
        return out or None
    return None


def nsmap_entries(a, CE):
    """(entries | None, found): the `namespaces = {..}` map of a parsed attribute as [(key_nf, value_nf, star_or_None)].
    Accepts the map written in the template itself (`{ "a" = "b", {} = {} }`), a single hole holding a joined list, or a bare
    hole whose value is the whole `namespaces = {..}` text."""
    nsv = a.get("namespaces")
    if nsv is not None:
        if nsv[0] == "hole":
            return ns_map_of(CE.expand(nsv[1])), True
        text = nsv[1]
        holes = list(nsv[2]) if nsv[0] == "raw" else []
        inner = text.strip()
        if inner.startswith("{") and inner.endswith("}"):
            inner = inner[1:-1].strip()
        marks = re.findall(r"\x00(\d+)\x00", inner)
        order = {m: i for i, m in enumerate(re.findall(r"\x00(\d+)\x00", text))}

        def side(t):
            t = t.strip()
            mm = re.fullmatch(r'"?\x00(\d+)\x00"?', t)
            if mm:
                return holes[order[mm.group(1)]]
            if "\x00" in t:
                return None
            return ("lit", t.strip('"'))
        if len(marks) == 1 and re.fullmatch(r"\x00\d+\x00", inner):
            return ns_map_of(CE.expand(holes[order[marks[0]]])), True
        def as_one_text():
            # the template read as one text with holes: literal entries and holes that bring their own `, k = v` entries
            parts = []
            for piece in re.split(r"(\x00\d+\x00)", inner):
                mm = re.fullmatch(r"\x00(\d+)\x00", piece)
                if mm:
                    parts.append(("hole", CE.expand(holes[order[mm.group(1)]]), "display", "?"))
                elif piece:
                    parts.append(("lit", piece))
            return ns_map_of(("format", tuple(parts)))
        entries = []
        for item in [x for x in inner.split(",") if x.strip()]:
            if "=" not in item:
                return as_one_text(), True
            k, v = item.split("=", 1)
            k, v = side(k), side(v)
            if k is None or v is None:
                return as_one_text(), True
            entries.append((k, v, None))
        return entries, True
    for h in a.get("_holes", []):
        if "namespaces" in og.nf_str(h):
            return ns_map_of(CE.expand(h)), True
    return None, False


def attribute_flag(a, ev):
    """True/False: the template carries `attribute = true` / does not; second value: the condition over self.is_attribute it sits
    under (True / False / None when unconditional)."""
    has = a.get("attribute") == ("lit", "true") or any("attribute = true" in og.nf_str(h) for h in a.get("_holes", []))
    cond = None
    for c in ev.ctx:
        if c[0] != "alt":
            continue
        k_, v_ = og.decision(c[1], c[2])       # (`!self.is_attribute` taken is `self.is_attribute` not taken)
        if k_[0] == "cond" and og.nf_str(k_[1]).endswith("is_attribute"):
            cond = v_
        if k_[0] == "cond" and isinstance(k_[1], tuple) and k_[1][0] == "islet" and str(k_[1][1]).rsplit("::", 1)[-1] == "Attribute":
            cond = v_      # the kind of the member kept as an enum: `kind is Attribute`
        if k_[0] == "cond" and isinstance(k_[1], tuple) and k_[1][0] == "islet" and str(k_[1][1]).rsplit("::", 1)[-1] == "Element" and "ind" in og.nf_str(k_[1][2]):
            cond = not v_
    return has, cond


def _harmless_conditions(conds, val):
    """The conditions under which a (prefix, uri) pair is added for an element do not leave out any element that can carry a
    prefix: `if let Some(ns) = <the option the pair is taken from>` (no namespace, no prefix) and de-duplication tests
    (`!list.contains(pair)`). Anything else (a filter on another property of the element) leaves prefixes undeclared."""
    used = og.nf_str(val)
    for c in conds:
        neg = False
        while isinstance(c, tuple) and c[0] == "not":
            c, neg = c[1], not neg
        if isinstance(c, tuple) and c[0] == "islet" and c[1].startswith("Some(") and og.nf_str(c[2]) in used.replace("Some⟨", "").replace("⟩", ""):
            continue
        if isinstance(c, tuple) and c[0] == "islet" and c[1].startswith("Some(") and og.nf_str(("payload", "Some", c[2])) in used:
            continue
        if neg and isinstance(c, tuple) and c[0] == "call" and str(c[1]).rsplit("::", 1)[-1] == "contains":
            continue
        return False
    return True


def same_namespace_source(k, v):
    """key = X.abbreviation and value = X.namespace for one X"""
    return k[0] == "field" and v[0] == "field" and k[2] == "abbreviation" and v[2] == "namespace" and k[1] == v[1]


def rule_member_order(ck, F):
    """Members are serialized in struct order, so struct order has to be declaration order: the traversal obligations of C02.R3 that
    concern order (adaptors that skip or reverse, regrouping, operations on the field list that move entries), decided here."""
    from rules import c02 as C02
    from rules import c04 as C04
    sub = C04._Sub(ck, "R4", lambda key: any(w in key for w in (":adapter:", ":vec-op:", ":reorder:", ":loop#")) or key.startswith("floor:"), only_rules=("R3",))
    C02.rule_traversal(sub, F, None)


def run(ck, F):
    ck.explanation = (
        "The yaserde annotations are read off the output grammar: every `#[yaserde(..)]` template of the field, struct, simple-type "
        "and envelope emitters is parsed into (prefix, rename, attribute, namespaces) with each value's provenance normal form; "
        "model-field provenance comes from the constructor summaries of Field/ComplexProps/SimpleProps. Decided: the per-field and "
        "per-struct triples, that prefix and URI of every namespaces entry come from one Namespace value, that every prefix a "
        "struct's members can carry is a key of that struct's namespaces map, and the carrier shape of simple types. What yaserde "
        "does with the annotations (escaping, lexical forms, omission of None) is not decided.")
    ck.assumptions = ["yaserde writes `prefix:rename` for each member and declares exactly the struct's `namespaces` entries",
                      "member order = order of the field list (C02.R3, C08.R1)"]
    ck.rule("R1", "field triple: rename = the raw XML name stored with the field; prefix = abbreviation of the field's own "
                  "target_namespace (declaring schema, or the referenced element's namespace for ref=); attribute=true iff attribute")
    ck.rule("R2", "struct triple: prefix, namespaces key and namespaces value come from one Namespace value; rename = raw type name; "
                  "envelopes: soapenv -> SOAP 1.1 envelope URI plus every target namespace of the binding")
    ck.rule("R3", "prefix coverage: every prefix a member template can carry is a key of the enclosing struct's namespaces map")
    ck.rule("R4", "member order: the readers of complex content visit the child elements once, in document order, and append members in "
                  "that order (no skipping / reversing adaptor, no regrouping, no reordering operation on the field list)")
    ck.rule("R5", "simple-type carrier: text=true on String for string and non-user bases, flatten=true only for user-type bases")
    X = T.extractor(F)
    CE = og.CallExpander(F)
    CE.keep |= {p_ for p_, _n, _s in A.component_lookups(F)}     # (the lookups stay calls: the rules below name them)
    # ---- R1
    n = 0
    for ev in X.events.get(T.FIELD_WRITER, []):
        if ev.kind != "emit" or "#[yaserde(" not in ev.skeleton():
            continue
        n += 1
        a = parse_attr(ev)
        has_ns = any(c[0] == "alt" and "target_namespace" in og.nf_str(c[1]) and c[2] for c in ev.ctx)
        tag = "+ns" if has_ns else "-ns"
        if a is None:
            ck.undecided("R1", f"field-attr:{tag}", ev.site, "yaserde attribute template not parsable")
            continue
        rn = a.get("rename")
        if rn and rn[0] == "hole" and og.nf_str(rn[1]) == "self.xml_name":
            ck.ok("R1", f"rename:{tag}", ev.site, "field rename = self.xml_name")
        else:
            ck.violation("R1", f"rename:{tag}", ev.site, f"field `rename` is {og.nf_str(rn[1]) if rn and rn[0] == 'hole' else rn}, not the XML name stored with the field")
        if has_ns:
            pf = a.get("prefix")
            if pf and pf[0] == "hole" and og.nf_str(pf[1]) == "Some⟨self.target_namespace⟩.abbreviation":
                ck.ok("R1", "prefix", ev.site, "field prefix = abbreviation of the field's own target_namespace")
            else:
                ck.violation("R1", "prefix", ev.site, f"field `prefix` is {og.nf_str(pf[1]) if pf and pf[0] == 'hole' else pf}, not the abbreviation of the field's own namespace")
        elif "prefix" in a:
            ck.violation("R1", "prefix-without-namespace", ev.site, "a prefix is emitted for a field without namespace")
        has, cond = attribute_flag(a, ev)
        legacy = any("attribute = true" in og.nf_str(h) and "self.is_attribute" in og.nf_str(h) for h in a.get("_holes", []))
        # an attribute is written with its declared, unqualified name: no prefix on a template that can be an attribute's
        # (attributeFormDefault / form="qualified" are not read by the generator, so every attribute is unqualified)
        if "prefix" in a and (has or legacy) and cond is not False:
            ck.violation("R1", "attribute-qualified", ev.site,
                         "the member template that carries `attribute = true` also carries `prefix = ..`: yaserde then writes the attribute as "
                         "`p:name=\"..\"`, a qualified attribute the schema does not declare (attributes are unqualified unless form / "
                         "attributeFormDefault say otherwise, which the generator does not read)")
        elif has or legacy:
            ck.ok("R1", f"attribute-unqualified:{tag}", ev.site, "the attribute template carries no prefix")
        tagf = tag + ("" if cond is None else ":attr" if cond else ":elem")
        if legacy or (cond is not None and has == cond):
            ck.ok("R1", f"attribute-flag:{tagf}", ev.site, "`attribute = true` is selected by self.is_attribute")
        else:
            ck.violation("R1", f"attribute-flag:{tagf}", ev.site, f"the attribute flag is not selected by self.is_attribute (template has the flag: {has}, under is_attribute = {cond})")
    ck.floor("R1", "field attribute templates", n, 2)
    live = scans.api_reachable(F.lib)
    for (fn, site, ctx, fields, base) in og.field_summaries(F, "model::field::Field"):
        if "try_from_node" not in fn or fn not in live or og.nf_str(fields.get("is_any", ("lit", 0))) == "True":
            continue
        if base is not None or "xml_name" not in fields or "target_namespace" not in fields:
            # `Field { f: .., ..other }`: a member made from an existing member. What is serialized (name, namespace, attribute flag,
            # type, occurrence) has to stay what the declaration said
            changed = [f_ for f_ in ("xml_name", "target_namespace", "is_attribute", "rust_type", "is_vec", "is_optional") if f_ in fields]
            if base is None:
                ck.undecided("R1", "Field:partial-constructor", site, f"{fn}: a Field is built without xml_name / target_namespace and without a base value")
            elif changed:
                ck.violation("R1", f"Field.{changed[0]}:rewritten", site,
                             f"{fn} makes a member from an existing one and replaces its `{changed[0]}` ({og.nf_str(fields[changed[0]])[:80]}): a member that "
                             f"was declared elsewhere (inherited, referenced) is then serialized with another name / namespace / shape than its declaration", fn="Field::try_from_node")
            else:
                ck.ok("R1", "Field:copied", site, f"{fn}: a member copied from an existing one keeps name, namespace and shape", fn="Field::try_from_node")
            continue
        is_ref = og.ctx_says_present(ctx, "'ref'")
        is_xml = any("starts_with" in og.nf_str(c[1]) and c[2] for c in ctx if c[0] == "alt")
        # both spellings: with local helper functions expanded and as written (a lookup function that is simple enough to be
        # expanded no longer appears by name)
        xn = og.nf_str(CE.expand(fields["xml_name"])) + " ‖ " + og.nf_str(fields["xml_name"])
        tn = og.nf_str(CE.expand(fields["target_namespace"]))
        label = "xml-ref" if is_xml else "ref" if is_ref else "named"
        if label == "named":
            # the `name` attribute of the declaration itself, however its absence is turned into an error
            cur_ = CE.expand(fields["xml_name"])
            for _ in range(12):
                if cur_[0] == "payload":
                    cur_ = cur_[2]
                elif cur_[0] == "call" and cur_[2] and str(cur_[1]).rsplit("::", 1)[-1] in ("ok_or", "ok_or_else", "to_string", "to_owned", "into", "as_str", "clone", "expect", "unwrap"):
                    cur_ = cur_[2][0]
                else:
                    break
            ok_x = (cur_[0] == "call" and str(cur_[1]).rsplit("::", 1)[-1] == "attribute" and len(cur_[2]) == 2
                    and cur_[2][0] == ("param", "node") and cur_[2][1] == ("lit", "name"))
            ok_t = tn == "doc.current_target_namespace"
        elif label == "ref":
            ok_x = "xml_name(" in xn and "find_node_by_xml_name" in xn
            ok_t = "find_namespace_by_abbreviation" in tn or "namespace_lookup" in tn or ".map(→get(" in tn
        else:
            ok_x = "attribute(node, 'ref')" in xn
            ok_t = tn == "None"
        (ck.ok if ok_x else ck.violation)("R1", f"Field.xml_name:{label}", site,
                                          f"{label} member: Field.xml_name = {xn[:90]}" + ("" if ok_x else " — not the declared/ referenced XML name"), fn="Field::try_from_node")
        (ck.ok if ok_t else ck.violation)("R1", f"Field.target_namespace:{label}", site,
                                          f"{label} member: Field.target_namespace = {tn[:90]}" + ("" if ok_t else " — not the declaring schema's / referenced element's namespace"), fn="Field::try_from_node")
    # one `#[yaserde(..)]` attribute per item: yaserde_derive reads the first attribute of a member / struct and ignores the others
    # without a warning, so a second attribute line in front of one item silently switches the options of the other off
    from rules import c01 as C01
    try:
        stream = [e for e in T.inline(X, T.ROOT) if e.kind == "emit"]
    except og.Unrecognised:
        stream = []
    n_attr = 0
    for i, ev in enumerate(stream):
        if not re.match(r"^\s*#\[yaserde\(", ev.skeleton()):
            continue
        n_attr += 1
        nxt, _end = C01.followers_of(stream, i)
        twice = next((E for E in nxt if re.match(r"^\s*#\[yaserde\(", E.skeleton())), None)
        if twice is not None:
            ck.violation("R1", f"two-attributes:{ev.fn.rsplit('::', 1)[-1]}", ev.site,
                         f"the `#[yaserde(..)]` line written here can be followed directly by another one ({twice.site}): the item then carries two "
                         f"yaserde attributes, of which the derive reads only the first — the prefix / rename / attribute options of the other are ignored")
    if n_attr:
        if not any(o["status"] == "violated" and "two-attributes" in o["key"] for o in ck.obligations):
            ck.ok("R1", "one-attribute-per-item", "-", f"none of the {n_attr} `#[yaserde(..)]` templates can be followed by another one")
    ck.floor("R1", "yaserde attribute templates in the output grammar", n_attr, 6)
    # ---- R2 / R3 per struct group
    n_groups = 0
    for fn in T.struct_emitters(X):
        for g in T.struct_groups(X, fn):
            attrs = [e for e in g.pre if "#[yaserde(" in e.skeleton()]
            if not any("YaSerialize" in e.skeleton() for e in g.pre):
                continue
            n_groups += 1
            gname = _gname(g)
            short = fn.rsplit("::", 1)[-1]
            is_env = fn == A.envelope_emitter(X) or A.envelope_emitter(X) in tuple(getattr(g.open, "chain", ()) or ())   # (also when it is read in its caller's stream)
            ns_keys = []
            for ev in attrs:
                a = parse_attr(ev)
                if a is None:
                    ck.undecided("R2", f"{gname}:attr", ev.site, "struct attribute template not parsable", fn=short)
                    continue
                entries, found = nsmap_entries(a, CE)
                if not found:
                    ck.violation("R2", f"{gname}:namespaces", ev.site, f"struct `{gname}`: no namespaces map in its yaserde attribute", fn=short)
                    continue
                if entries is None:
                    ck.undecided("R2", f"{gname}:namespaces-shape", ev.site, f"struct `{gname}`: namespaces value of unrecognised shape: {ev.skeleton().strip()[:120]}", fn=short)
                    continue
                for (k, v, star) in entries:
                    if k[0] == "lit":
                        if k[1] == "soapenv" and v == ("lit", SOAP11):
                            ck.ok("R2", f"{gname}:soapenv", ev.site, "soapenv -> SOAP 1.1 envelope namespace", fn=short)
                        else:
                            ck.violation("R2", f"{gname}:literal-namespace:{k[1]}", ev.site, f"struct `{gname}`: literal prefix `{k[1]}` bound to {v}", fn=short)
                    elif same_namespace_source(k, v):
                        ck.ok("R2", f"{gname}:pair:{og.nf_str(k[1])[:50]}", ev.site, f"(prefix, URI) = ({og.nf_str(k)}, {og.nf_str(v)}) from one Namespace", fn=short)
                    else:
                        ck.violation("R2", f"{gname}:pair:{og.nf_str(k)[:50]}", ev.site,
                                     f"struct `{gname}`: namespaces entry ({og.nf_str(k)} = {og.nf_str(v)}) does not take prefix and URI from one Namespace value", fn=short)
                    ns_keys.append((k, star))
                pf = a.get("prefix")
                rn = a.get("rename")
                if not is_env:
                    own = [k for (k, st) in ns_keys if st is None and k[0] == "field"]
                    if pf and pf[0] == "hole" and own and pf[1] == own[0]:
                        ck.ok("R2", f"{gname}:prefix", ev.site, "struct prefix = its own namespace's abbreviation (first namespaces entry)", fn=short)
                    else:
                        ck.violation("R2", f"{gname}:prefix", ev.site, f"struct `{gname}`: prefix {pf} is not the abbreviation of the namespace it declares first", fn=short)
                    if rn and rn[0] == "hole" and og.nf_str(rn[1]).endswith("xml_name"):
                        ck.ok("R2", f"{gname}:rename", ev.site, "struct rename = raw XML type name", fn=short)
                    else:
                        ck.violation("R2", f"{gname}:rename", ev.site, f"struct `{gname}`: rename is {rn}, not the raw XML name", fn=short)
            # R3: member prefixes
            for (mev, mname, mctx, mty) in g.members:
                pass
            member_attr = [e for e in g.body_emits if "#[yaserde(" in e.skeleton()]
            for ev in member_attr:
                a = parse_attr(ev)
                if not a or "prefix" not in a:
                    continue
                pf = a["prefix"]
                if pf[0] == "lit":
                    ok = any(k == ("lit", pf[1]) for k, _ in ns_keys)
                    (ck.ok if ok else ck.violation)("R3", f"{gname}:member-prefix:{pf[1]}", ev.site,
                                                    f"struct `{gname}`: literal member prefix `{pf[1]}` " + ("is declared" if ok else "is not declared by the struct"), fn=short)
                    continue
                covered, why = prefix_covered(pf[1], ns_keys, g, is_env)
                key = f"{gname}:member-prefix:{_short(pf[1])}"
                if covered:
                    ck.ok("R3", key, ev.site, f"struct `{gname}`: member prefix {og.nf_str(pf[1])[:70]} is declared ({why})", fn=short)
                else:
                    ck.violation("R3", key, ev.site,
                                 f"struct `{gname}`: members can carry prefix {og.nf_str(pf[1])[:90]} but the struct's namespaces map has only "
                                 f"{[og.nf_str(k)[:50] for k, _ in ns_keys]}: inherited members / refs into another namespace use an undeclared prefix", fn=short)
    ck.floor("R2", "serialized struct templates", n_groups, 3)
    # ---- R5
    rule_carrier(ck, X)
    rule_member_order(ck, F)
    # the prefix a member carries is the one of the namespace that was current when it was read: right only if a definition read out
    # of its turn is read under its own schema's namespace, and what follows it under the previous one again (C10.R6, kept as R3)
    from rules import c04 as C04
    from rules import c10 as C10
    C10.rule_component_read_out_of_turn(C04._Sub(ck, "R3", lambda key: key.startswith("out-of-turn") or "floor" in key), F, rule="R6")
    # .. and the prefix a member's type was written with means what the document that wrote it declares: no document starts from, or is
    # handed, the prefix bindings of another (decided under C09.R2, kept here: a `tns:` resolved in the importer's namespace puts the
    # member, and its children, into the wrong namespace on the wire)
    from rules import c09 as C09
    C09.rule_prefix_table_writers(C04._Sub(ck, "R3", lambda key: True), F, rule="R3")


def _gname(g):
    from rules.c01 import _name_key
    return _name_key(g.name) if g.name[0] != "lit" else g.name[1]


def _short(nf):
    s = og.nf_str(nf)
    return s[-50:]


def prefix_covered(pnf, ns_keys, g, is_env):
    """Is the member prefix (normal form) among the keys of the struct's namespaces map?"""
    for (k, star) in ns_keys:
        if k == pnf:
            return True, "same Namespace value"
    # member prefix ranges over each(<collection>).target_namespace: needs a star entry over the same collection
    s = og.nf_str(pnf)
    for (k, star) in ns_keys:
        if star is None:
            continue
        # key is each(star).….abbreviation ; the member prefix must be the same path over an element of the same collection
        ks = og.nf_str(k)
        if ks == s:
            return True, "declared by the loop over the same members"
        # payload⟨…⟩ wrappers: Some⟨each(C).target_namespace⟩.abbreviation vs Some⟨each(C).target_namespace⟩.abbreviation
        if ks.replace(" ", "") == s.replace(" ", ""):
            return True, "declared by the loop over the same members"
    if is_env and ".in_namespace" in s:
        # envelope structs declare every target namespace of the document; a node's in_namespace is one of them (C02.R5)
        if any(star is not None and og.nf_str(star).endswith("target_namespaces") for _, star in ns_keys):
            return True, "a node's in_namespace is one of the document's target namespaces, all of which the envelope declares"
    return False, ""


def rule_carrier(ck, X):
    # the emitter of the wrapper struct of a simple type: the function whose own text has the `pub value:` member
    carriers = [fn for fn, es in X.events.items() if any(e.kind == "emit" and e.skeleton().strip().startswith("pub value:") for e in es)]
    evs = [e for fn in carriers for e in X.events.get(fn, []) if e.kind == "emit"]
    CE = getattr(X, "CE", None) or og.CallExpander(X.F)
    attrs = [e for e in evs if e.skeleton().strip().startswith("#[yaserde(") and ("text" in e.skeleton() or "flatten" in e.skeleton())]
    members = [e for e in evs if e.skeleton().strip().startswith("pub value:")]
    want = {"String": ("text = true", "rust_type", "string"), "Other": ("flatten = true", "rust_type", "user-type"), "prim": ("text = true", "String", "other-builtin")}

    def holds(e, kind):
        for c in e.ctx:
            if c[0] != "alt":
                continue
            t = T.type_kind_truth(c[1], kind, CE)
            if t is not None and t != c[2]:
                return False
        return True
    for kind, (attr, ty, label) in want.items():
        a_sel = [e for e in attrs if holds(e, kind)]
        m_sel = [e for e in members if holds(e, kind)]
        a_txt = sorted({e.skeleton().strip() for e in a_sel})
        def _ty_of(e):
            if not e.holes():
                return e.skeleton().split(":", 1)[1].strip().rstrip(",")
            t_ = og.nf_str(e.holes()[0][0])
            return "rust_type" if t_ == "rust_type" or t_.endswith(".rust_type") else t_    # the simple type's base, however it is reached
        m_ty = sorted({_ty_of(e) for e in m_sel})
        if not a_sel or not m_sel:
            ck.violation("R5", f"carrier:{label}", "-", f"simple type with {label} base: carrier member not found")
            continue
        site = m_sel[0].site
        # (a string base may be spelled `String`: that is what its Display writes, see the builtin table of C02.R1)
        if len(a_txt) == 1 and len(m_ty) == 1 and attr in a_txt[0] and (m_ty[0] == ty or (kind == "String" and m_ty[0] == "String")):
            ck.ok("R5", f"carrier:{label}", site, f"{label} base: `{a_txt[0]}` on `value: {m_ty[0]}`")
        else:
            ck.violation("R5", f"carrier:{label}", site, f"{label} base: {a_txt} on `value: {m_ty}`; expected `#[yaserde({attr})]` on `value: {ty}`")
