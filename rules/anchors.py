"""Semantic anchors: the functions a rule is stated on are found by the role they play (what they construct, what they emit, which
stable entry point reaches them, what their signature is), never by the name a private function happens to carry. Every resolver
fails closed: None / empty when the role cannot be attributed, and the rule then reports the anchor as undecided.

Stable names used as starting points: trait impl paths of the model types (`<T as TryFromNode>::try_from_node`,
`<T as WriteXml>::write_xml`), model struct names and their field names, `XmlReader::read_xml`, `main`."""
from engine.rulekit import hir as Hh
from engine.rulekit import og
from engine.rulekit import scans


def _cache(F, key, fn):
    c = F.__dict__.setdefault("_anchors", {})
    if key not in c:
        c[key] = fn()
    return c[key]


def _local_fn(F, path):
    b = F.lib.body(path) if isinstance(path, str) else None
    return b is not None and b.get("hir") is not None and not b.get("closure")


def _inner_local_call(F, nf):
    """the crate-local function whose result the value is (through payloads, identity calls and formats of one hole)"""
    cur = nf
    for _ in range(12):
        if not isinstance(cur, tuple):
            return None
        if cur[0] == "call" and _local_fn(F, cur[1]):
            return cur
        if cur[0] == "call" and cur[2]:
            cur = cur[2][0]
        elif cur[0] in ("payload",):
            cur = cur[2]
        elif cur[0] == "map":
            cur = cur[2]
        else:
            return None
    return None


def abbreviation_makers(F):
    """The functions whose result becomes `Namespace.abbreviation` at the construction sites of the library: sorted list of paths."""
    def f():
        out = set()
        for (fn, site, ctx, fields, base) in og.field_summaries(F, "model::Namespace"):
            if "Clone" in fn or "tests" in fn:
                continue
            c = _inner_local_call(F, fields.get("abbreviation"))
            if c is not None:
                out.add(c[1])
        return sorted(out)
    return _cache(F, "abbreviation_makers", f)


def local_callees(F, path, depth=1):
    """crate-local functions called from `path` (closures attributed to it), transitively up to `depth`"""
    g = scans.call_graph(F.lib)
    seen, frontier = [], [path]
    for _ in range(depth):
        nxt = []
        for fn in frontier:
            for c in sorted(g.get(fn, ())):
                if "{closure" in c:
                    if c not in frontier and c not in nxt:
                        nxt.append(c)   # its calls belong to the creator: same level
                    continue
                if _local_fn(F, c) and c not in seen and c != path:
                    seen.append(c)
                    nxt.append(c)
        frontier = nxt
    return seen


# ---- signatures -------------------------------------------------------------------------------------------------------------

def _fn_items(F):
    return [f for f in F.lib.items.get("fns", []) if "yaserde_tests" not in f["path"] and "tests::" not in f["path"] and "helpers_content" not in f["path"]]


def _norm_ty(t):
    import re
    return re.sub(r"'\w+ ?", "", t or "").replace(" ", "")


def by_signature(F, inputs, output):
    """paths of the library functions with exactly this signature (lifetimes ignored)"""
    want_in = [_norm_ty(x) for x in inputs]
    want_out = _norm_ty(output)
    return sorted(f["path"] for f in _fn_items(F) if [_norm_ty(x) for x in f["inputs"]] == want_in and _norm_ty(f["output"]) == want_out)


def qname_splitter(F):
    """the function that splits a QName into (local name, prefix): `fn(&str) -> (&str, Option<&str>)`, unique by signature; the
    pair may also be a struct of the crate with exactly those two members (see qname_parts)"""
    c = by_signature(F, ["&str"], "(&str, std::option::Option<&str>)")
    if len(c) == 1:
        return c[0]
    if not c:
        import re
        pairs = _qname_structs(F)
        c = sorted(f["path"] for f in _fn_items(F) if [_norm_ty(x) for x in f["inputs"]] == ["&str"]
                   and re.sub(r"<.*$", "", _norm_ty(f["output"])) in pairs)
        if len(c) == 1:
            return c[0]
    return None


def _qname_structs(F):
    """{struct path: (member holding the local name, member holding the prefix)} of the structs that are a (&str, Option<&str>) pair"""
    out = {}
    for st in F.lib.items.get("structs", []):
        fs = st["variants"][0]["fields"] if st.get("variants") else []
        if len(fs) == 2:
            tys = {_norm_ty(x["ty"]): x["name"] for x in fs}
            if set(tys) == {"&str", "std::option::Option<&str>"}:
                out[st["path"]] = (tys["&str"], tys["std::option::Option<&str>"])
    return out


def qname_parts(F):
    """(key of the local name, key of the prefix) in what the QName splitter returns: ("0", "1") for the tuple, the member names
    for a struct"""
    import re
    sp = qname_splitter(F)
    for f in _fn_items(F):
        if f["path"] == sp:
            st = _qname_structs(F).get(re.sub(r"<.*$", "", _norm_ty(f["output"])))
            if st:
                return st
    return ("0", "1")


# ---- readers of complex content ---------------------------------------------------------------------------------------------

COMPLEX_ENTRY = "<model::structures::complex::ComplexProps as model::TryFromNode<'n>>::try_from_node"


def _sig(F, path):
    for f in F.lib.items.get("fns", []):
        if f["path"] == path:
            return f
    return None


def _string_literals(F, path):
    b = F.lib.body(path)
    if b is None or b.get("hir") is None:
        return set()
    nb = Hh.norm_body(b)
    return {x.get("v") for x in Hh.exprs(nb["value"]) if x.get("k") == "Lit" and x.get("lit") == "str"}


def field_list_holders(F):
    """{struct path (with generics erased as `_norm_ty` gives them): name of its Vec<Field> member} of the structs of the crate,
    other than the converted types themselves, that carry a field list being built (a collector / builder handed from function to
    function instead of the bare `&mut Vec<Field>`)"""
    def f():
        out = {}
        for st in F.lib.items.get("structs", []):
            if st["path"].endswith(("ComplexProps", "ElementProps", "SimpleProps")) or not st.get("variants"):
                continue
            fl = [x["name"] for x in st["variants"][0]["fields"] if _norm_ty(x["ty"]) == "std::vec::Vec<model::field::Field>"]
            if len(fl) == 1:
                out[st["path"]] = fl[0]
        return out
    return _cache(F, "field_list_holders", f)


def holder_of(F, ty):
    """(struct path, list member) when the type is (a reference to) a field-list holder"""
    t = _norm_ty(ty).replace("&mut", "").replace("&", "")
    import re as _re
    t = _re.sub(r"<.*$", "", t)
    h = field_list_holders(F)
    return (t, h[t]) if t in h else None


def complex_readers(F):
    """{path: role} of the functions that turn a complexType into ComplexProps: the trait entry and the crate-local functions it
    reaches that receive an XML node and either return ComplexProps or append to a `Vec<Field>`. Roles:
      complexType     the TryFromNode entry
      extension       the appender that reads the `base` attribute (looks the base type up and copies its members)
      complexContent  the reader that calls the extension appender
      sequence        the appender that a reader calls directly for the own content
      reader#n / appender#n   the others, numbered in source order"""
    def f():
        entry = next((b["path"] for b in F.lib.bodies if b["path"].endswith("complex::ComplexProps as model::TryFromNode<'n>>::try_from_node")), None)
        if entry is None:
            return {}
        g = scans.call_graph(F.lib)
        reach = scans.reachable(g, [entry])
        readers, appenders = [], []
        holders = field_list_holders(F)
        for p in sorted(reach):
            s = _sig(F, p)
            if s is None or p == entry or not _local_fn(F, p):
                continue
            ins = [_norm_ty(x) for x in s["inputs"]]
            if not any("roxmltree::Node<" in x for x in ins):
                continue
            if any(x == "&mutstd::vec::Vec<model::field::Field>" for x in ins) or "Vec<model::field::Field>" in _norm_ty(s["output"]) \
                    or any(x.startswith("&mut") and holder_of(F, x) for x in ins):
                appenders.append(p)     # fills a field list handed to it (as such, or inside a collector struct), or returns one
            elif "ComplexProps" in _norm_ty(s["output"]):
                readers.append(p)
        roles = {entry: "complexType"}
        ext = [p for p in appenders if "base" in _string_literals(F, p)]
        if len(ext) == 1:
            roles[ext[0]] = "extension"
        callers = [p for p in readers + appenders if ext and len(ext) == 1 and p != ext[0] and ext[0] in g.get(p, ())]
        # (the function that starts the extension importer: a reader, or a method of the collector that the reader delegates to)
        for p in callers if len(callers) == 1 or all(p in readers for p in callers) else ():
            roles[p] = "complexContent"
        direct = [p for p in appenders if p not in roles and any(p in g.get(r, ()) for r in readers + [entry])]
        if len(direct) == 1:
            roles[direct[0]] = "sequence"

        def order(p):
            return (F.lib.body(p) or {}).get("span", p)
        n = 0
        for p in sorted([x for x in readers if x not in roles], key=order):
            n += 1
            roles[p] = f"reader#{n}"
        n = 0
        for p in sorted([x for x in appenders if x not in roles], key=order):
            n += 1
            roles[p] = f"appender#{n}"
        return roles
    return _cache(F, "complex_readers", f)


def role_path(roles, role):
    c = [p for p, r in roles.items() if r == role]
    return c[0] if len(c) == 1 else None


def qname_resolver(F):
    """the function that resolves a QName against a document: `fn(&str, &RustDocument) -> (&str, Option<Rc<Namespace>>)`"""
    c = by_signature(F, ["&str", "&model::doc::RustDocument"], "(&str, std::option::Option<std::rc::Rc<model::Namespace>>)")
    return c[0] if len(c) == 1 else None


def component_lookups(F):
    """[(path, index of the name argument, index of the namespace argument)] of the functions that look a schema component up by
    (local name, namespace): a `&str` and an `Option<&Namespace>` parameter, a result holding a RustNode"""
    out = []
    for f in _fn_items(F):
        ins = [_norm_ty(x) for x in f["inputs"]]
        if "RustNode" not in f["output"]:
            continue
        names = [i for i, x in enumerate(ins) if x == "&str"]
        nss = [i for i, x in enumerate(ins) if x == "std::option::Option<&model::Namespace>"]
        if len(names) == 1 and len(nss) == 1:
            out.append((f["path"], names[0], nss[0]))
    return sorted(out)


# ---- emitters (by what they write) --------------------------------------------------------------------------------------------

SERVICE_WRITER = "<model::soap::service::SoapService as reader::WriteXml<W>>::write_xml"
BINDING_WRITER = "<model::soap::binding::SoapBinding as reader::WriteXml<W>>::write_xml"   # (impl paths are normalised in the facts)


def _stream_has(X, fn, regex):
    import re
    from rules import templates as T
    try:
        return any(e.kind == "emit" and re.match(regex, e.skeleton()) for e in T.inline(X, fn))
    except og.Unrecognised:
        return False


def _emitter_under(X, root, regex):
    """the writer function called from `root` whose (inlined) text contains a line matching `regex`; `root` itself when it writes
    such lines without going through a callee"""
    callees = list(dict.fromkeys(ev.callee for ev in X.events.get(root, []) if ev.kind == "call" and ev.callee in X.events))
    hits = [c for c in callees if _stream_has(X, c, regex)]
    if len(hits) == 1:
        return hits[0]
    if not hits and _stream_has(X, root, regex):
        return root
    return None


def envelope_emitter(X):
    """the function that writes the envelope structs of one message of an operation (called by the binding writer)"""
    return _emitter_under(X, BINDING_WRITER, r"^\s*pub struct ")


def operation_fn_emitter(X):
    """the function that writes the free `pub async fn <op>(req, credentials)` of an operation (called by the binding writer)"""
    return _emitter_under(X, BINDING_WRITER, r"^\s*pub (?:async )?fn \{\}\(req")


def method_emitter(X):
    """the function that writes the client method `pub async fn <op>(&self, req)` of an operation (called by the service writer)"""
    return _emitter_under(X, SERVICE_WRITER, r"^\s*pub (?:async )?fn \{\}\(&self")


# ---- which XML attributes a function reads ----------------------------------------------------------------------------------------

def _attribute_params(F):
    """{local fn path: set of parameter positions whose value is handed to `.attribute(..)` of an XML node}: small helpers such as
    `required_attribute(node, "name")`"""
    def f():
        out = {}
        for b in F.lib.bodies:
            if b.get("hir") is None or b.get("closure"):
                continue
            nb = Hh.norm_body(b)
            ids = {}
            for i, p in enumerate(nb["params"]):
                for bid, _name in Hh.pat_bindings(p):
                    ids[bid] = i
            pos = set()
            for x in Hh.exprs(nb["value"]):
                if x.get("k") == "MethodCall" and x["name"] == "attribute" and x["args"]:
                    a0 = Hh.strip(x["args"][0])
                    if a0.get("k") == "Path" and a0.get("res") == "local" and a0.get("id") in ids:
                        pos.add(ids[a0["id"]])
            if pos:
                out[b["path"]] = pos
        return out
    return _cache(F, "attribute_params", f)


def attribute_reads(F, path):
    """names of the XML attributes the function reads: `.attribute("x")` or a call of an attribute-reading helper with the literal"""
    b = F.lib.body(path)
    if b is None or b.get("hir") is None:
        return set()
    helpers = _attribute_params(F)
    out = set()
    for x in Hh.exprs(Hh.norm_body(b)["value"]):
        if x.get("k") == "MethodCall" and x["name"] == "attribute" and x["args"]:
            a0 = Hh.strip(x["args"][0])
            if a0.get("k") == "Lit" and a0.get("lit") == "str":
                out.add(a0["v"])
        if x.get("k") in ("Call", "MethodCall"):
            cp = Hh.callee_path(x) or ""
            if cp in helpers:
                args = ([x["recv"]] if x.get("k") == "MethodCall" else []) + list(x["args"])
                for i in helpers[cp]:
                    if i < len(args):
                        a = Hh.strip(args[i])
                        if a.get("k") == "Lit" and a.get("lit") == "str":
                            out.add(a["v"])
    return out


# ---- the fixed text around the generated items ------------------------------------------------------------------------------------

HEADER_WRITER = "<model::file_header::FileHeader as reader::WriteXml<W>>::write_xml"
HELPERS_WRITER = "<model::helpers::Helpers as reader::WriteXml<W>>::write_xml"


def fixed_text(X, fn):
    """(text, problem): everything the writer function `fn` writes, when that is the same text for every document: literals and
    constants whose value the compiler evaluated, written unconditionally with the result propagated. problem says why not."""
    from rules import templates as T
    CE = og.CallExpander(X.F)
    out = []
    try:
        evs = [e for e in T.inline(X, fn) if e.kind == "emit"]
    except og.Unrecognised as u:
        return None, f"not readable: {u.what}"
    if not evs:
        return None, "writes nothing"
    for e in evs:
        if e.ctx:
            return None, f"writes conditionally / in a loop at {e.site}"
        if getattr(e.ev, "propagated", "try") not in ("try", "tail", "returned", "propagated"):
            return None, f"drops the result of a write at {e.site}"
        for p in e.parts:
            if p[0] == "lit":
                out.append(p[1])
            elif isinstance(p[1], tuple) and p[1][0] == "const" and (len(p) < 3 or p[2] == "display") and CE.const_text(p[1][1]) is not None:
                out.append(CE.const_text(p[1][1]))
            else:
                return None, f"writes a value that is not a constant text at {e.site}"
    return "".join(out), None


def header_text(F, X=None):
    from rules import templates as T
    return fixed_text(X or T.extractor(F), HEADER_WRITER)


def helpers_text(F, X=None):
    from rules import templates as T
    return fixed_text(X or T.extractor(F), HELPERS_WRITER)


def merge_fn(F):
    """the function that merges an imported document into the importing one: `fn(&mut RustDocument, RustDocument)`, unique by signature"""
    c = [f["path"] for f in _fn_items(F) if [_norm_ty(x) for x in f["inputs"]] == ["&mutmodel::doc::RustDocument", "model::doc::RustDocument"]]
    return c[0] if len(c) == 1 else None
