"""C08 — a derived type carries its base type's members first, then its own."""
from engine.rulekit import mir as M
from engine.rulekit import og
from rules import c02 as C02
from rules import c04 as C04
from rules import c09 as C09

from rules import anchors as A
VEC_APPENDS = ("Vec::<T, A>::push", "Vec::<T, A>::extend", "iter::Extend::extend",
             "Vec::<T, A>::extend_from_slice", "Vec::<T, A>::append", "Vec::<T, A>::insert")


def run(ck, F):
    ck.explanation = (
        "On the MIR of the functions reached from the complexContent arm: (R1) the copy of the base struct's field list into the "
        "derived list happens at most once, is never reachable from a call that appends own members, and the call importing the "
        "extension precedes the own-content loop; (R2) base members are copied as whole Field values (Vec<Field> clone), Field values "
        "are constructed nowhere else; (R3) the extension handler dispatches on sequence and attribute children (shared with "
        "C02.R4); (R4) the base is looked up by (local name, namespace) through the namespace-aware lookup (C09).")
    ck.assumptions = ["the looked-up base node is a fully converted RustNode (same conversion function; recursion classified by C13.R2)"]
    ck.rule("R1", "base first: the base field copy is not reachable from any append of own members and is executed at most once")
    ck.rule("R2", "whole-field copy: base members are cloned as whole Field values from the base struct's field list")
    ck.rule("R3", "extension dispatch: own content of <extension> includes sequence and attribute children")
    ck.rule("R4", "base lookup by (local name, namespace of the prefix)")
    ck.rule("R5", "inherited members keep the namespace of the schema that declared them: a member is written with its own declaring "
                  "namespace's prefix, and the derived struct declares every prefix its members can carry (prefix coverage, C03.R3)")
    roles = A.complex_readers(F)
    EXT = A.role_path(roles, "extension")
    CC = A.role_path(roles, "complexContent")
    # the other functions that append members to a field list handed to them
    own_appenders = tuple(p for p, r in roles.items() if r == "sequence" or r.startswith("appender#"))
    APPENDERS = own_appenders + VEC_APPENDS
    fb = F.lib.body(EXT) if EXT else None
    if fb is None or not fb.get("mir"):
        ck.undecided("R1", "anchor", "-", "no function could be attributed the role of the extension importer (reads `base`, appends to a Vec<Field>)")
        return
    B = M.Body(fb)
    # the field list being filled: the `&mut Vec<Field>` parameter
    flp = [l for l in range(1, B.arg_count + 1) if "Vec<model::field::Field>" in B.local_ty(l)]
    # .. or the collector struct that carries it (`&mut self` of a method of the collector)
    HOLDER_FIELD = None
    if not flp:
        hp = [(l, A.holder_of(F, B.local_ty(l))) for l in range(1, B.arg_count + 1) if A.holder_of(F, B.local_ty(l))]
        if len(hp) == 1:
            flp, HOLDER_FIELD = [hp[0][0]], hp[0][1][1]
    returns_list = "Vec<model::field::Field>" in B.local_ty(0)
    if len(flp) != 1 and not (not flp and returns_list):
        ck.undecided("R1", "anchor", fb["span"], "the extension importer neither has exactly one Vec<Field> parameter nor returns the field list")
        return
    FL = flp[0] if flp else None

    def _root_local(op):
        """the local an operand is (a reference to), through plain moves and borrows"""
        if op.get("k") not in ("copy", "move"):
            return None
        l, proj = op["p"]["l"], [x for x in (op["p"].get("proj") or []) if x != "deref"]
        for _ in range(10):
            if proj:
                return None
            ds = B.defs().get(l, [])
            nxt = None
            if len(ds) == 1 and ds[0][0] == "assign" and ds[0][3]["k"] in ("ref", "use"):
                rv = ds[0][3]
                pl = rv["p"] if rv["k"] == "ref" else (rv["op"].get("p") if rv["op"].get("k") in ("copy", "move") else None)
                if pl is not None:
                    nxt, proj = pl["l"], [x for x in (pl.get("proj") or []) if x != "deref"]
            if nxt is None:
                return l
            l = nxt
        return l

    def is_field_list(os_, op):
        """the operand is the field list being filled: the `&mut Vec<Field>` parameter, or (when the function returns the list) a
        local Vec<Field> of its own"""
        if FL is not None and HOLDER_FIELD is not None:
            # the list inside the collector, or the collector as a whole (handed on to another of its methods)
            return bool(os_) and all(o.kind == "arg" and o.local == FL and o.fields() in ([], [HOLDER_FIELD]) for o in os_)
        if FL is not None:
            return bool(os_) and all(o.kind == "arg" and o.local == FL for o in os_)
        r = _root_local(op)
        return r is not None and not B.is_arg(r) and B.local_ty(r).replace("alloc::", "std::") == "std::vec::Vec<model::field::Field>"
    ext_short = EXT.rsplit("::", 1)[-1]
    cc_short = CC.rsplit("::", 1)[-1] if CC else "?"
    copies = []
    for bb, t in B.calls():
        d = M.Body.callee_decl(t) or ""
        if d.endswith(("clone::Clone::clone_from",)) or d.endswith(("Vec::<T, A>::extend", "iter::Extend::extend")) or d.endswith("extend_from_slice"):
            dst = M.trace(B, t["args"][0], ())
            if is_field_list(dst, t["args"][0]):
                src = M.trace(B, t["args"][1], M.IDENTITY_CALLS + ("[T]>::iter", "Vec::<T, A>::iter", "iter::Iterator::cloned", "iter::Iterator::copied",
                                                                     "IntoIterator::into_iter", "Vec::<T, A>::as_slice", "[T]>::to_vec"))
                from_base = bool(src) and all("fields" in o.fields() for o in src)
                if from_base:
                    copies.append((bb, t))
    if FL is None:
        # the list is a local that is returned: `fields = base.fields.clone();` (an assignment of the copy) is the copy as well
        for bb, t in B.calls():
            d = M.Body.callee_decl(t) or ""
            if not d.endswith(("clone::Clone::clone", "[T]>::to_vec", "borrow::ToOwned::to_owned")) or not t.get("args") or t.get("dest") is None:
                continue
            src = M.trace(B, t["args"][0], M.IDENTITY_CALLS)
            if not (src and all("fields" in o.fields() for o in src)):
                continue
            dl = t["dest"]["l"]
            lands = dl if B.local_ty(dl).replace("alloc::", "std::") == "std::vec::Vec<model::field::Field>" and B.local_name(dl) else None
            for i_ in sorted(B.reach):
                for st in B.blocks[i_]["stmts"]:
                    if st["k"] == "assign" and st["rv"].get("k") == "use" and st["rv"]["op"].get("k") in ("copy", "move") and st["rv"]["op"]["p"]["l"] == dl \
                            and not st["p"].get("proj") and B.local_ty(st["p"]["l"]).replace("alloc::", "std::") == "std::vec::Vec<model::field::Field>":
                        lands = st["p"]["l"]
            if lands is not None and not B.is_arg(lands):
                copies.append((bb, t))
    appends = []
    for bb, t in B.calls():
        d = M.Body.callee(t) or ""
        d2 = M.Body.callee_decl(t) or ""
        if (any(d.endswith(a) for a in APPENDERS) or any(d2.endswith(a) for a in VEC_APPENDS)) and (bb, t) not in copies:
            for a in t["args"]:
                os_ = M.trace(B, a, ())
                if is_field_list(os_, a):
                    appends.append((bb, t))
                    break
    # .. and appends made from a closure of the function (`children().filter(..).try_for_each(|_| import_sequence(.., base_fields))`):
    # the closure captured the field list; the site is where the closure is made (it is run by the iteration that follows)
    for i_ in sorted(B.reach):
        for st in B.blocks[i_]["stmts"]:
            if not (st["k"] == "assign" and st["rv"]["k"] == "aggregate" and st["rv"].get("closure")):
                continue
            cfact = F.lib.body(st["rv"]["closure"])
            if cfact is None or not cfact.get("mir"):
                continue
            CB = M.Body(cfact)
            for cbb_, ct_ in CB.calls():
                d = M.Body.callee(ct_) or ""
                if not any(d.endswith(a) for a in APPENDERS):
                    continue
                for a in ct_["args"]:
                    ups = [o for o in M.trace(CB, a, ()) if o.kind == "upvar"]
                    if ups and all(u.index < len(st["rv"]["ops"]) and is_field_list(M.trace(B, st["rv"]["ops"][u.index], ()), st["rv"]["ops"][u.index]) for u in ups):
                        appends.append((i_, ct_))
                        break
    if len(copies) != 1:
        ck.violation("R1", f"base-copy:count={len(copies)}", fb["span"],
                     f"{ext_short} copies the base struct's fields {len(copies)} times (expected exactly one copy from `<base>.fields`)", fn="extension")
    else:
        cbb, ct = copies[0]
        if B.in_cycle(cbb):
            ck.violation("R1", "base-copy:in-loop", B.term(cbb).get("sp"), "the base copy sits in a loop", fn="extension")
        bad = [abb for abb, _ in appends if cbb in B.reachable_from(abb)]
        if bad:
            ck.violation("R1", "own-before-base", B.term(bad[0]).get("sp"),
                         "own members can be appended before the base type's members are copied: inherited members do not come first "
                         "(or are overwritten by the copy)", fn="extension")
        else:
            ck.ok("R1", "base-before-own", B.term(cbb).get("sp"), f"the base copy precedes all {len(appends)} append sites of own members", fn="extension")
        d = M.Body.callee_decl(ct) or ""
        if d.endswith("clone_from") or "extend" in d:
            ck.ok("R2", "whole-field-copy", B.term(cbb).get("sp"), "base members are cloned as whole Field values (Vec<Field> clone)", fn="extension")
    ck.floor("R1", "append sites of own members", len(appends), 1)
    # whenever an <extension> child was found, the base is looked up: no successful return leaves the extension arm before the lookup
    look_bbs = {bb for bb, t in B.calls() if ((M.Body.callee(t) or "") in {p_ for p_, _a, _b in A.component_lookups(F)}
                                             or (M.Body.callee_decl(t) or "") in {p_ for p_, _a, _b in A.component_lookups(F)})}
    arms = []
    for i in sorted(B.reach):
        t = B.term(i)
        if t.get("k") != "switch" or t["discr"].get("k") not in ("copy", "move"):
            continue
        for o in M.trace(B, t["discr"], ()):
            if o.kind == "discr" and not o.place.get("proj") and B.local_ty(o.place["l"]).replace("core::", "std::").startswith("std::option::Option<roxmltree::Node<") \
                    and not any(x.kind == "call" and (M.Body.callee_decl(x.term) or "").endswith("Iterator::next") for x in M.trace_place(B, o.place, ())):
                # (the element of a `for` loop is not the test whether there is an extension)
                some = [b2 for v, b2 in t["targets"] if v == 1] or ([t["otherwise"]] if [v for v, _ in t["targets"]] == [0] else [])
                arms += some
    oks = [i for i in sorted(B.reach) for st_ in B.blocks[i]["stmts"]
           if st_["k"] == "assign" and st_["p"]["l"] == 0 and not st_["p"].get("proj") and st_["rv"]["k"] == "aggregate" and st_["rv"].get("variant") == "Ok"]
    if not arms or not look_bbs:
        ck.undecided("R1", "lookup-whenever-extension", fb["span"], f"the arm taken when an <extension> child exists / the base lookup could not be located in {ext_short}", fn="extension")
    else:
        early = [i for a_ in arms for i in oks if i in B.reachable_from(a_, avoid=look_bbs)]
        if early:
            ck.violation("R1", "lookup-whenever-extension", B.term(early[0]).get("sp") or fb["span"],
                         f"{ext_short} can return successfully from the arm in which an <extension> child was found without looking the base type up: "
                         f"a derived type then carries none of its base type's members", fn="extension")
        else:
            ck.ok("R1", "lookup-whenever-extension", fb["span"], "every successful path through the <extension> arm looks the base type up first", fn="extension")
    # read_complex_content_node: extension import before own sequence loop
    cb = F.lib.body(CC) if CC else None
    if cb is None:
        ck.undecided("R1", "extension-before-own-content", "-", "no reader calls the extension importer")
    if cb is not None and cb.get("mir"):
        CB = M.Body(cb)
        ext_calls = CB.calls_to(EXT)
        own = [(bb, t) for bb, t in CB.calls() if (M.Body.callee(t) or "") in own_appenders]
        if len(ext_calls) == 1 and all(ext_calls[0][0] not in CB.reachable_from(bb) for bb, _ in own):
            ck.ok("R1", "extension-before-own-content", CB.term(ext_calls[0][0]).get("sp"), f"{cc_short} imports the extension (base members) before own content", fn="complexContent")
        else:
            ck.violation("R1", "extension-before-own-content", cb["span"], f"{cc_short} can import own content before the extension/base members", fn="complexContent")
    # R2: Field values constructed only in Field::try_from_node
    others = [s for s in og.field_summaries(F, "model::field::Field") if "try_from_node" not in s[0] and "Clone" not in s[0] and "Default" not in s[0]]
    if others:
        for (fn, site, ctx, fields, base) in others:
            ck.violation("R2", "field-rewrite", site, f"{fn} builds Field values of its own (members may be rewritten while being inherited)", fn=fn)
    else:
        ck.ok("R2", "no-field-rewrite", "-", "Field values are only constructed by Field::try_from_node; inherited members are never rebuilt")
    # R2: an inherited member is the base's member: no field of an existing Field value is written in place anywhere
    from engine.rulekit import facts as factsmod
    from engine.rulekit import scans
    names = None
    for st_ in F.lib.items["structs"]:
        if st_["path"] == "model::field::Field":
            names = [f["name"] for f in st_["variants"][0]["fields"]]
    if names is None:
        ck.undecided("R2", "field-struct", "-", "struct model::field::Field not found")
    else:
        hits = [h for h in scans.struct_value_writers(F.lib, "model::field::Field", names) if "yaserde_tests" not in h[0] and "::tests::" not in h[0]]
        for (fn, site, fld, how) in hits:
            ck.violation("R2", f"field-write:{fn.rsplit('::', 1)[-1]}:{fld}", site,
                         f"{fn} modifies `{fld}` of an existing Field value ({how}): members are rewritten after they were read from their "
                         f"declaration (inherited members lose what the declaring schema said)", fn=fn)
        if not hits:
            ck.ok("R2", "no-field-write", "-", "no field of an existing Field value is assigned or mutably borrowed anywhere in the library")
        ctl = factsmod.controls()
        chits = {h[0] for h in scans.struct_value_writers(ctl, "Member", ["name", "namespace"])}
        if chits == {"c08_rewrite_in_loop", "c08_rewrite_through_borrow"}:
            ck.ok("R2", "positive-control", "engine/controls/src/lib.rs", "in-place member writes of the control crate are reported, the constructor is not")
        else:
            ck.undecided("R2", "positive-control", "engine/controls/src/lib.rs", f"member-write scanner reports {sorted(chits)} on the controls")
    # R3 shared with C02.R4
    sub = C04._Sub(ck, "R3", lambda key: key.startswith("extension"), only_rules=("R4",))
    C02.rule_dispatch(sub, F, None)
    # .. and with C02.R3: the list that holds the base members and then the own ones is only ever appended to — an operation that takes
    # members out of it or moves them (retain, dedup, split_off, sort ..) drops or displaces inherited or own members
    C02.rule_traversal(C04._Sub(ck, "R3", lambda key: ":vec-op:" in key or ":reorder:" in key, only_rules=("R3",)), F, None)
    # R4: lookup arguments
    nf_ok = False
    RESOLVE = A.qname_resolver(F)
    lookups = {p_: (ni, si) for p_, ni, si in A.component_lookups(F)}
    base_lookups = [(bb, t) for bb, t in B.calls() if (M.Body.callee(t) or M.Body.callee_decl(t) or "") in lookups or (M.Body.callee_decl(t) or "") in lookups]
    for bb, t in base_lookups:
        ni, si = lookups.get(M.Body.callee(t) or "") or lookups.get(M.Body.callee_decl(t) or "")
        name = M.trace(B, t["args"][ni], M.IDENTITY_CALLS)
        ns = M.trace(B, t["args"][si], M.IDENTITY_CALLS + ("Option::<T>::as_deref",))
        rt = lambda os_: bool(os_) and RESOLVE is not None and all(o.kind == "call" and RESOLVE in ((M.Body.callee_decl(o.term) or ""), (M.Body.callee(o.term) or "")) for o in os_)
        if rt(name) and rt(ns):
            nf_ok = True
            ck.ok("R4", "lookup-by-name-and-namespace", B.term(bb).get("sp"), "base looked up by the resolved base QName = (local name, namespace of the prefix)", fn="extension")
        else:
            ck.violation("R4", "lookup-by-name-and-namespace", B.term(bb).get("sp"), "the base lookup does not use (local name, namespace) of the base QName", fn="extension")
    if not nf_ok and not base_lookups:
        ck.undecided("R4", "lookup", fb["span"], "no base lookup found")
    # the lookup itself must select by namespace (shared with C09.R3): a base of another namespace with the same local name
    # must not be confused with a local one
    sub = C04._Sub(ck, "R4", lambda key: key.startswith(("registry-lookup", "xml-lookup", "global-components-only")), only_rules=("R3",))
    C09.run(sub, F)
    # R5: a base in another namespace: its members arrive in the derived struct with their own namespace (whole-field copy, R2) and
    # are written with that prefix; the derived struct has to declare it, or the member is not the base's member any more
    from rules import c03 as C03
    C03.run(C04._Sub(ck, "R5", lambda key: "member-prefix" in key or "floor" in key or "nsmap" in key or "prefix" in key, only_rules=("R3",)), F)
    # and a base that is found by the tree search (it follows the derived type) is converted under its own schema's namespace
    from rules import c10 as C10
    C10.rule_component_read_out_of_turn(C04._Sub(ck, "R5", lambda key: key.startswith("out-of-turn") or "floor" in key), F, rule="R6")
