"""C12 — generation is a deterministic function of the input files."""
from engine.rulekit import facts as factsmod
from engine.rulekit import inline as I
from engine.rulekit import mir as M
from engine.rulekit import scans

ATOMIC_STORE = "std::sync::atomic::Atomic::<bool>::store"
ATOMIC_LOAD = "std::sync::atomic::Atomic::<bool>::load"
ITER_IDENT = M.IDENTITY_CALLS + ("iter::IntoIterator::into_iter",)


def in_scope(fn):
    return "yaserde_tests" not in fn


def cycle_blocks(B, bb):
    """Blocks on a cycle through bb (empty when bb is not in a loop)."""
    if not B.in_cycle(bb):
        return set()
    fwd = B.reachable_from(bb)
    return {x for x in fwd if bb in B.reachable_from(x)}


CRATE = None   # set by run(): the crate whose closures / helpers are looked up


def _callable_path(o):
    """path of the closure literal or of the local function item that an operand denotes"""
    if o.kind == "aggregate" and o.rv.get("closure"):
        return o.rv["closure"]
    if o.kind == "const" and (o.const.get("inst_path") or o.const.get("fn_path")):
        return o.const.get("inst_path") or o.const.get("fn_path")
    return None


def closure_only_resets(B, operand):
    """The closure literal passed as operand does nothing but store constants into atomic flags (helpers it calls inlined)."""
    for o in M.trace(B, operand, ()):
        target = _callable_path(o)
        if target and CRATE is not None:
            CB = I.inlined_body(CRATE, target)
            if CB is None:
                return False, "closure body not available"
            n_store = 0
            for bb, t in CB.calls():
                d = M.Body.callee_decl(t) or ""
                if d == ATOMIC_STORE:
                    vals = M.trace(CB, t["args"][1], M.IDENTITY_CALLS)
                    if not vals or any(v.kind != "const" for v in vals):
                        return False, "a non-constant value is stored by the closure"
                    n_store += 1
                    continue
                if d.startswith("std::sync::atomic::Ordering::"):
                    continue
                return False, f"the closure calls {d}"
            return (n_store > 0), "closure body only stores constants into atomic flags"
    return False, "the consumer of the iterator is not a closure literal"


def order_insensitive_loop(B, iter_bb):
    """The hash iterator created in block iter_bb only drives a loop whose body stores constants into
    AtomicBool flags (resetting flags is independent of the visiting order). Returns (ok, why)."""
    nexts = []
    for bb, t in B.calls_to("iter::Iterator::next"):
        for o in M.trace(B, t["args"][0], ITER_IDENT):
            if (o.kind == "call" and o.bb == iter_bb) or any(st[0] == "call" and st[2] == iter_bb for st in o.steps):
                nexts.append((bb, t))
                break
    if not nexts:
        # iterator adaptor form: `map.values().for_each(|f| f.flag.store(CONST))`
        for bb, t in B.calls_to("iter::Iterator::for_each"):
            if any(o.kind == "call" and o.bb == iter_bb for o in M.trace(B, t["args"][0], ITER_IDENT)):
                return closure_only_resets(B, t["args"][1])
    if len(nexts) != 1:
        return False, "the iterator is not consumed by exactly one `for` loop"
    nbb, nt = nexts[0]
    cyc = cycle_blocks(B, nbb)
    if not cyc:
        return False, "no loop found"
    # a transfer loop: each (key, value) of the hash map is put into another map (`insert`, `entry(k).or_insert(v)`) and nothing
    # else happens: the keys of one map are distinct, so every element is handled independently of the others and of the order
    transfer = _transfer_loop(B, cyc, nbb, nt)
    if transfer:
        return True, "loop body only moves each (key, value) into another map (keys are distinct: order-independent)"
    # the iterator must not escape: its only consumer is that next()
    for x in sorted(cyc):
        t = B.term(x)
        if t.get("k") == "call":
            d = M.Body.callee_decl(t) or ""
            if d.endswith("iter::Iterator::next"):
                continue
            if d == ATOMIC_STORE:
                vals = M.trace(B, t["args"][1], M.IDENTITY_CALLS)
                if not vals or any(v.kind != "const" for v in vals):
                    return False, "a non-constant value is stored inside the loop"
                continue
            if d.startswith("std::sync::atomic::Ordering::"):
                continue
            return False, f"the loop body calls {d}"
        if t.get("k") in ("return", "yield"):
            return False, "the loop body leaves the function"
    return True, "loop body only stores constants into atomic flags"


def run(ck, F):
    ck.explanation = (
        "Zero-count / who-may-call rules over the MIR of all non-test zeep-lib bodies, resolved through type information: creation "
        "of an order-revealing iterator over a std hash container (accepted only when it drives a loop that merely stores constants "
        "into atomic flags), ambient inputs (time, env, thread, random state), and a dominance rule: the shared processed-flags are "
        "re-initialised on entry of the public reading entry point before the first load. Each zero-count rule is re-run over a "
        "positive-control crate on every invocation. Nothing is executed.")
    ck.assumptions = ["Vec / insertion-ordered containers iterate in insertion order; roxmltree iterates in document order",
                      "dependencies (Inflector, url, roxmltree) are deterministic"]
    ck.rule("R1", "no order-revealing iteration over std::collections::HashMap/HashSet in non-test zeep-lib code, unless the loop body "
                  "only stores constants into atomic flags")
    ck.rule("R2", "no state survives a call: on entry of the public read entry point every processed flag is reset (a loop storing "
                  "`false` into each FileContent.processed) and that loop dominates the first load of a flag")
    ck.rule("R3", "no ambient inputs: no SystemTime/Instant/env::var*/thread::current/RandomState/rand in zeep-lib")
    ck.rule("R4", "the file table is only accessed by key (see C11.R3)")
    global CRATE
    CRATE = F.lib
    # ---- R1
    hits = [h for h in scans.scan_hash_iteration(F.lib) if in_scope(h[0])]
    ck.count("bodies scanned", sum(1 for _ in scans.bodies(F.lib)))
    n_ok = 0
    for (fn, site, what, n) in hits:
        ok, why = iteration_verdict(F, fn, site)
        if ok:
            n_ok += 1
            ck.ok("R1", f"{what}#{n}", site, f"hash iteration accepted: {why}", fn=fn)
        else:
            ck.violation("R1", f"{what}#{n}", site,
                         f"{what}: the iteration order of a std hash container (random per process) can reach the output or a "
                         f"decision ({why})", fn=fn)
    if not hits:
        ck.ok("R1", "no-hash-iteration", "-", "no iteration over a std hash container in zeep-lib")
    ctl = factsmod.controls()
    chits = {h[0] for h in scans.scan_hash_iteration(ctl)}
    want = {"c12_hash_iter_into_writer", "c12_hash_first", "c12_hashset_iter"}
    if chits == want:
        ck.ok("R1", "positive-control", "engine/controls/src/lib.rs", f"controls flagged: {sorted(chits)}")
    else:
        ck.undecided("R1", "positive-control", "engine/controls/src/lib.rs",
                     f"hash-iteration scanner reports {sorted(chits)} on the controls, expected {sorted(want)}")
    # ---- R3
    amb = [h for h in scans.scan_ambient(F.lib) if in_scope(h[0])]
    for (fn, site, decl) in amb:
        ck.violation("R3", decl, site, f"ambient input {decl} in library code: output may differ between runs", fn=fn)
    if not amb:
        ck.ok("R3", "no-ambient", "-", "no ambient input call in zeep-lib")
    camb = {h[0] for h in scans.scan_ambient(ctl)}
    if camb == {"c12_ambient_time", "c12_ambient_env"}:
        ck.ok("R3", "positive-control", "engine/controls/src/lib.rs", f"controls flagged: {sorted(camb)}")
    else:
        ck.undecided("R3", "positive-control", "engine/controls/src/lib.rs", f"ambient scanner reports {sorted(camb)} on the controls")
    # .. and how the process configured its logger is one: what the logging macros evaluate they evaluate only when the level is enabled,
    # so nothing that changes a value is computed there
    effs, n_lv = scans.scan_log_guarded_effects(F.lib, lambda p: in_scope(p) or "yaserde_tests" in p)
    for (fn, site, what) in effs:
        ck.violation("R3", f"effect-under-log-level:{fn.rsplit('::', 1)[-1]}", site,
                     f"{fn}: {what} happens only when the logging level is enabled (inside the arguments of a logging macro, or under a test of the "
                     f"level): with another logger configuration (`RUST_LOG`, a library caller without a logger) the same input gives another output", fn=fn)
    if not effs:
        ck.ok("R3", "no-effect-under-log-level", "-", f"nothing is changed under a test of the logging level ({n_lv} level test(s) looked at)")
    ceff, _n = scans.scan_log_guarded_effects(ctl)
    if {h[0] for h in ceff} == {"c12_effect_under_log_level"}:
        ck.ok("R3", "positive-control:log-level", "engine/controls/src/lib.rs", "the control that records under the level test is flagged, the one that only logs there is not")
    else:
        ck.undecided("R3", "positive-control:log-level", "engine/controls/src/lib.rs", f"log-level scanner reports {sorted({h[0] for h in ceff})} on the controls")
    # .. and what the output file held before the run is an ambient input too: when the CLI opens the file itself, it opens it empty
    # (decided under C17.R6, kept here)
    from rules import c04 as C04
    from rules import c17 as C17
    C17.run(C04._Sub(ck, "R3", lambda key: key.startswith(("output-opened-empty", "open-options"))), F)
    # ---- R2
    rule_reset_on_entry(ck, F)
    # ---- R4: keys of the file table are the registered names themselves (shared with C11.R4): with a normalising key two files
    # can land in one slot and which of them is read depends on the order of registration / directory enumeration
    from rules import c11 as C11
    C11.rule_verbatim_keys(ck, F, "R4")
    # .. and which sibling files are registered does not depend on the order in which the directory lists them (shared with C11.R4)
    ub_ = F.lib.body("utils::read_input_file_and_xsd_files_at_path")
    if ub_ is not None:
        C11.rule_all_siblings_visited(ck, F, ub_, "R4")


def flag_loads(F):
    """(fn, bb) of every AtomicBool::load on a `.processed` field"""
    out = []
    for b in scans.bodies(F.lib):
        if not in_scope(b["path"]):
            continue
        B = M.Body(b)
        for bb, t in B.calls_to(ATOMIC_LOAD):
            os_ = M.trace(B, t["args"][0])
            if any("processed" in o.fields() for o in os_):
                out.append((b["path"], bb))
    return out


def rule_reset_on_entry(ck, F):
    loads = flag_loads(F)
    ck.count("R2:flag loads", len(loads))
    if not loads:
        ck.ok("R2", "no-shared-flags", "-", "no interior-mutable processed flag is read: nothing can survive a call")
        return
    # public entry points that can reach a load
    g = scans.call_graph(F.lib)
    loaders = {fn for fn, _ in loads}
    pubs = [b for b in F.lib.bodies if b.get("vis") == "Public" and b.get("mir") and in_scope(b["path"])
            and b["path"].startswith("reader::")]
    n = 0
    for b in pubs:
        reach = scans.reachable(g, [b["path"]])
        if not (reach & loaders):
            continue
        n += 1
        B = I.inlined_body(F.lib, b["path"])
        stores = []
        for bb, t in B.calls_to(ATOMIC_STORE):
            os_ = M.trace(B, t["args"][0])
            vals = M.trace(B, t["args"][1], M.IDENTITY_CALLS)
            if any("processed" in o.fields() for o in os_) and vals and all(
                    v.kind == "const" and str(v.const.get("text")).strip() in ("false", "const false") for v in vals):
                stores.append(bb)
        # closure form of the reset: <file table>.values().for_each(|f| f.processed.store(false))
        closure_heads = []
        for bb, t in B.calls_to("iter::Iterator::for_each"):
            src = [o for o in M.trace(B, t["args"][0], ITER_IDENT) if o.kind == "call"]
            over_table = any(f == "map" for o in src for oo in M.trace(B, o.term["args"][0]) for f in oo.fields())
            okc, _why = closure_only_resets(B, t["args"][1])
            if over_table and okc and _closure_stores_false(B, t["args"][1]):
                closure_heads.append(bb)
        # the store must sit in a loop over all entries of the file table, and that loop must dominate every call that can load
        ok = False
        why = "no store of `false` into the processed flags on entry"
        for sbb in stores:
            cyc = cycle_blocks(B, sbb)
            if not cyc:
                why = "the processed flag is reset for one file only, not in a loop over the file table"
                continue
            # loop source: values()/iter() of a hash map field `map`
            src_ok = False
            for x in sorted(cyc):
                t = B.term(x)
                if t.get("k") == "call" and (M.Body.callee_decl(t) or "").endswith("iter::Iterator::next"):
                    for o in M.trace(B, t["args"][0], ITER_IDENT):
                        if o.kind == "call" and any(f == "map" for oo in M.trace(B, o.term["args"][0]) for f in oo.fields()):
                            src_ok = True
            if not src_ok:
                why = "the reset loop does not range over the file table"
                continue
            head = min(cyc)
            if _reads_after(B, head, cyc, reach, loaders, g):
                why = "a call that reads the flags is not dominated by the reset loop"
                continue
            ok = True
        for hbb in closure_heads:
            if _reads_after(B, hbb, {hbb}, reach, loaders, g):
                why = "a call that reads the flags is not dominated by the reset"
                continue
            ok = True
        if ok:
            ck.ok("R2", "reset-on-entry", b["span"], f"{b['path']}: processed flags are reset before any flag is read", fn=b["path"])
        else:
            ck.violation("R2", "reset-on-entry", b["span"],
                         f"{b['path']} can read processed flags left over from an earlier call on the same FilesToRead ({why}): "
                         f"a repeated call returns a different (empty) document", fn=b["path"])
    ck.floor("R2", "public entry points reaching the flags", n, 1)
    # .. and nothing else can: the library holds no process-wide or thread-wide mutable item (a `static` / `thread_local!` with a
    # Cell, RefCell, Mutex, RwLock or atomic inside). Such an item outlives the call: what a run leaves in it (names already written,
    # counters, caches keyed by content) makes the next run on the same thread differ. (A OnceLock / LazyLock of plain data is a
    # constant computed late, not state.)
    MUTABLE = ("std::cell::RefCell<", "std::cell::Cell<", "std::sync::Mutex<", "std::sync::RwLock<", "std::sync::atomic::Atomic",
               "std::cell::UnsafeCell<", "std::cell::OnceCell<", "parking_lot::", "std::sync::mpsc::")
    n_items = 0
    for c in F.lib.items.get("consts", []):
        pth = c["path"]
        if "yaserde_tests" in pth or "::tests::" in pth or "{constant" in pth or "__RUST_STD_INTERNAL" in pth or "__rust_std_internal" in pth:
            continue
        n_items += 1
        ty = c.get("ty") or ""
        inner = [m_ for m_ in MUTABLE if m_ in ty]
        if inner or ty.startswith("std::thread::LocalKey<") and inner:
            ck.violation("R2", f"global-state:{pth.rsplit('::', 1)[-1]}", c.get("span") if "rustlib" not in str(c.get("span")) else pth,
                         f"`{pth}` is a {'thread-local' if 'LocalKey' in ty else 'static'} item of type `{ty[:90]}`: it outlives the library call, so a "
                         f"second generation on the same thread starts from what the first one left in it and can produce different output", fn=pth)
    ck.count("R2:constant and static items of the library", n_items)
    if not [o for o in ck.obligations if o["key"].split("|")[1] == "R2" and "global-state" in o["key"] and o["status"] == "violated"]:
        ck.ok("R2", "no-global-state", "-", f"none of the {n_items} constant / static items of the library holds interior-mutable state")
    ck.floor("R2", "constant and static items of the library", n_items, 1)


def _reads_after(B, head, inside, reach, loaders, g):
    """Blocks that can read a processed flag (directly, or through a call that reaches a loader) without being dominated by head."""
    later = [bb for bb, t in B.calls() if ((M.Body.callee(t) or "") in loaders or scans.reachable(g, [M.Body.callee(t) or ""]) & loaders)]
    for bb, t in B.calls_to(ATOMIC_LOAD):
        if any("processed" in o.fields() for o in M.trace(B, t["args"][0])):
            later.append(bb)
    return [bb for bb in later if bb not in inside and (not B.dominates(head, bb))] + [bb for bb in later if bb in inside and bb != head]


def _closure_stores_false(B, operand):
    for o in M.trace(B, operand, ()):
        target = _callable_path(o)
        if target:
            CB = I.inlined_body(CRATE, target)
            if CB is None:
                continue
            for bb, t in CB.calls_to(ATOMIC_STORE):
                tgt = M.trace(CB, t["args"][0])
                vals = M.trace(CB, t["args"][1], M.IDENTITY_CALLS)
                if any("processed" in x.fields() for x in tgt) and vals and all(
                        v.kind == "const" and str(v.const.get("text")).strip() in ("false", "const false") for v in vals):
                    return True
    return False


def _iterator_returned(B, bb):
    """the value produced by the call in block bb reaches the function's return place (through identity steps)"""
    t = B.term(bb)
    if t.get("dest", {}).get("proj"):
        return False
    seen, work = set(), [t["dest"]["l"]]
    while work:
        l = work.pop()
        if l == 0:
            return True
        if l in seen:
            continue
        seen.add(l)
        for (ubb, where, j, x) in M.uses_of_local(B, l):
            if where == "stmt" and x["rv"]["k"] in ("use", "ref", "cast") and not x["p"].get("proj"):
                work.append(x["p"]["l"])
            if where == "term" and x.get("k") == "call" and any((M.Body.callee_decl(x) or "").endswith(i_) for i_ in ITER_IDENT) and not x["dest"].get("proj"):
                work.append(x["dest"]["l"])
    return False


_GRAPH = {}


def iteration_verdict(F, fn, site):
    """(ok, why) for the hash-container iteration created at `site` in function `fn`: accepted when its only consumer is a loop
    that stores constants into atomic flags, in `fn` itself or - when `fn` hands the iterator out - in every caller."""
    B = M.Body(F.lib.body(fn))
    bb = [b for b, t in B.calls() if (t.get("cs") or t.get("sp")) == site]
    ok, why = (False, "site not found")
    for b in bb:
        ok, why = order_insensitive_loop(B, b)
        if ok:
            return ok, why
    if bb and _iterator_returned(B, bb[0]):
        # an accessor that hands the iterator out (`fn contents(&self) -> impl Iterator { self.map.values() }`): what matters
        # is what every caller does with it; looked at with the accessor inlined into the caller
        if id(F) not in _GRAPH:
            _GRAPH.clear()
            _GRAPH[id(F)] = scans.call_graph(F.lib)
        g = _GRAPH[id(F)]
        callers = [c for c, cs in g.items() if fn in cs and c != fn and F.lib.body(c) is not None and not F.lib.body(c).get("closure")
                   and in_scope(c)]
        verdicts = []
        for c in callers:
            IB = I.inlined_body(F.lib, c)
            sites = [b2 for b2, t2 in IB.calls() if (t2.get("cs") or t2.get("sp")) == site]
            verdicts += [order_insensitive_loop(IB, b2) for b2 in sites] or [(False, f"{c}: call not found after inlining")]
        if callers and all(v[0] for v in verdicts):
            return True, f"iterator handed to {len(callers)} caller(s); each only resets flags with it"
        if callers:
            why = "; ".join(v[1] for v in verdicts if not v[0])[:200]
    return ok, why


def _transfer_loop(B, cyc, nbb, nt):
    """every call in the loop is next(), HashMap::entry / Entry::or_insert / HashMap::insert / contains_key (+ clones / derefs),
    the key and the value handed over are the components of the element just taken, and the loop does not leave the function"""
    elem = nt["dest"]["l"]
    allowed = ("iter::Iterator::next", "HashMap::<K, V, S, A>::entry", "Entry::<'a, K, V, A>::or_insert", "HashMap::<K, V, S, A>::insert",
               "HashMap::<K, V, S, A>::contains_key", "clone::Clone::clone", "ops::Deref::deref", "ops::DerefMut::deref_mut")
    n_put = 0
    for x in sorted(cyc):
        t = B.term(x)
        if t.get("k") in ("return", "yield"):
            return False
        if t.get("k") != "call":
            continue
        d = M.Body.callee_decl(t) or ""
        if not d.endswith(allowed):
            return False
        if d.endswith(("::entry", "::insert", "::or_insert")):
            n_put += 1
            for a in t["args"][1:]:
                os_ = M.trace(B, a, M.IDENTITY_CALLS)
                if not os_ or not all(o.kind == "call" and o.bb == nbb for o in os_):
                    return False   # something other than the element's own key / value is stored
    return n_put > 0
