"""E4 glue: type-checked skeleton samples, shared by C01.R3 and C18.R3 (the witness crate result is cached on disk by source hash)."""
import os
import re

from engine.rulekit import skeleton
from engine.rulekit import witness as W
from rules import templates as T


def choose(F, X, base, cap):
    """Sample indices and, for the directed ones, their target contexts: the first `base` derivations, then one derivation directed
    at each emit site that is still unreached (its loops non-empty, its conditions taken as needed), up to `cap` samples. Which
    derivations are type-checked is decided by coverage, not by luck of a hash."""
    indices = list(range(base))
    targets = {}
    covered = set()
    for i in indices:
        covered |= skeleton.sample(F, X, i).covered
    sites = {}
    for e in T.inline(X, T.ROOT):
        if e.kind == "emit":
            sites.setdefault((e.fn, e.ev.order), []).append(e)
    nxt = 100
    for key in sorted(sites, key=lambda k: (k[0], k[1])):
        if key in covered or len(indices) >= cap:
            continue
        for e in sites[key]:
            r = skeleton.sample(F, X, nxt, e.ctx)
            if key in r.covered:
                indices.append(nxt)
                targets[nxt] = e.ctx
                covered |= r.covered
                nxt += 1
                break
    return indices, targets


from rules import anchors as A_


def run(F, tier):
    X = T.extractor(F)
    n = 5 if tier != "thorough" else 24
    indices, targets = choose(F, X, n, 14 if tier != "thorough" else 40)
    n = len(indices)
    segs, maps, renders, asserts = skeleton.assemble(F, X, indices, targets)
    ok, diags = W.check(F, segs, "e4-" + tier)
    allsites = {(e.fn, e.ev.order): e for e in T.inline(X, T.ROOT) if e.kind == "emit"
                and not (len(e.parts) == 1 and e.parts[0][0] == "hole" and e.parts[0][1][0] == "const")
                and e.fn not in (A_.HEADER_WRITER, A_.HELPERS_WRITER)}
    covered = set()
    for r in renders.values():
        covered |= r.covered
    tail = segs[-1].text
    template_errors = []
    send_errors = []
    other = []
    for d in diags:
        if d["segment"].startswith("sample_"):
            m = maps.get(d["segment"], {}).get(d["line"])
            template_errors.append((d, m))
        elif d["segment"] == "witness":
            lines = tail.split("\n")
            src = lines[d["line"] - 1] if 0 < d["line"] <= len(lines) else ""
            mm = re.match(r"\s*fn ([mfs])_(\d+)_\d+\(", src)
            if mm:
                send_errors.append((d, mm.group(1), src.strip()))
            else:
                other.append(d)
        else:
            other.append(d)
    return {"ok": ok, "template_errors": template_errors, "send_errors": send_errors, "other": other, "samples": n,
            "instances": sum(len(r.lines) for r in renders.values()), "sites": len(allsites), "covered": len(covered & set(allsites)),
            "uncovered": [allsites[k] for k in allsites if k not in covered], "asserts": asserts, "renders": renders}
