"""C05 — every WSDL operation gets correct SOAP envelopes and one client method."""
import re

from engine.rulekit import hir as Hh
from engine.rulekit import og
from rules import c03 as C03
from rules import templates as T

SOAP11 = "http://schemas.xmlsoap.org/soap/envelope/"
from rules import anchors as A
SERVICE = A.SERVICE_WRITER
BINDING = A.BINDING_WRITER
ADAPTERS = ("iter::filter", "iter::skip", "iter::take", "iter::step_by", "iter::rev", "iter::take_while", "iter::skip_while", "iter::filter_map")


# attributes of the SOAP binding extension whose absence has a meaning (WSDL 1.1, 3.3 / 3.4): an absent `style` is `document`
ATTRIBUTE_DEFAULTS = {"style": "document"}


def _mentions_lit(nf, text):
    if isinstance(nf, tuple):
        if len(nf) == 2 and nf[0] == "lit" and nf[1] == text:
            return True
        return any(_mentions_lit(x, text) for x in nf)
    return False


def _comparisons(nf, out):
    if isinstance(nf, tuple):
        if nf and nf[0] == "binop" and nf[1] in ("Eq", "Ne") and len(nf) == 4:
            out.append((nf[2], nf[3]))
        if nf and nf[0] == "call" and str(nf[1]).rsplit("::", 1)[-1] in ("eq", "ne") and len(nf) > 2 and len(nf[2]) == 2:
            out.append((nf[2][0], nf[2][1]))
        for x in nf:
            _comparisons(x, out)
    return out


NAME_ACCESS = {"xml_name", "named", "referenced_xml_name", "ok_or", "ok_or_else", "map", "and_then", "as_str", "as_deref", "as_ref", "Some", "Ok", "to_string",
               "clone", "to_owned", "deref", "borrow"}


def _is_name_of(CE, nf, what):
    """is the value the XML name of the component `what` (a path like `soap_operation.body`): reached from `what` (or its `rust_type`)
    through accessors of the model only — `xml_name` / `named` / `referenced_xml_name` and Option / Result plumbing —, whichever of
    them the code spells out (a method of the node, a trait it implements, the type's own accessor)?"""
    e = CE.expand(nf)
    names = {str(c_[1]).rsplit("::", 1)[-1] for c_ in og.nf_calls(e)}
    if not names or not names <= NAME_ACCESS or not names & {"xml_name", "named", "referenced_xml_name"}:
        return False
    roots = {og.nf_str(r) for r in og.nf_roots(e) if r[0] not in ("lit", "const")}
    text = og.nf_str(e)
    return bool(roots) and (what + ".rust_type" in text or what + ")" in text or text.count(what) > 0) and all(r in what or what.startswith(r) or r.startswith(what.split(".")[0].split("(")[-1]) for r in roots)


NAME_PLUMBING = {"ok_or", "ok_or_else", "to_string", "to_owned", "into", "from", "as_str", "unwrap_or_default", "map_err", "clone", "Some", "Ok", "as_ref", "as_deref"}


def _success_value(n):
    """what `x?` / the `Ok` payload is of a value written as `match v { Some(x) => Ok(x), None => Err(..) }` (a helper that turns an
    absent value into an error): the x of the succeeding arm — the failing arm ends the function and is no part of the value"""
    if not isinstance(n, tuple):
        return n
    if n[0] == "payload" and n[1] in ("Ok", "Some") and len(n) == 3:
        inner = _success_value(n[2])
        if isinstance(inner, tuple) and inner[0] == "call" and str(inner[1]).rsplit("::", 1)[-1] == n[1] and len(inner[2]) == 1:
            return inner[2][0]
        if isinstance(inner, tuple) and inner[0] == "ifelse" and len(inner) == 4:
            def arm(a):
                if isinstance(a, tuple) and a[0] == "call" and len(a[2]) == 1 and str(a[1]).rsplit("::", 1)[-1] == n[1]:
                    return ("ok", a[2][0])
                if isinstance(a, tuple) and ((a[0] == "call" and str(a[1]).rsplit("::", 1)[-1] in ("Err",)) or (a[0] == "const" and str(a[1]).endswith("None"))):
                    return ("fail", None)
                return ("other", None)
            a1, a2 = arm(inner[2]), arm(inner[3])
            if {a1[0], a2[0]} == {"ok", "fail"}:
                return _success_value(a1[1] if a1[0] == "ok" else a2[1])
        return ("payload", n[1], inner)
    return n


def rule_absent_is_default(ck, F, CE, rule="R6"):
    """Which operations get envelopes may depend on `style` only in a way that takes an absent attribute for its default: a test
    that compares what was read (None when absent) with the default value itself treats `no style` and `style="document"` differently,
    and a WSDL that leaves the attribute out loses its operations."""
    from rules import c02 as C02
    W = og.EnvWalker(F)
    seen = set()
    n = 0
    for b in F.lib.bodies:
        if b.get("hir") is None or not b["path"].startswith(("model::soap", "<model::soap")) or "tests::" in b["path"]:
            continue
        found = []

        def cb(e, env, ctx, found=found):
            for c in ctx:
                if c[0] == "alt" and id(c[1]) not in seen:
                    seen.add(id(c[1]))
                    found.append((c[1], Hh.sp(e)))
        try:
            W.walk_fn(b["path"], cb)
        except og.Unrecognised:
            continue
        short = b["path"].rsplit("::", 1)[-1]
        done = set()
        for cond, site in found:
            x = CE.expand(cond)
            for a_, b_ in _comparisons(x, []):
                for val, other in ((a_, b_), (b_, a_)):
                    for attr, dflt in ATTRIBUTE_DEFAULTS.items():
                        is_default = val in (("lit", dflt), ("call", "Some", (("lit", dflt),)), ("some", ("lit", dflt)))
                        if not is_default or attr not in C02._attribute_names(other):
                            continue
                        key = f"absent-is-default:{attr}:{short}"
                        if key in done:
                            continue
                        done.add(key)
                        n += 1
                        if _mentions_lit(other, dflt):
                            ck.ok(rule, key, site, f"{short}: an absent `{attr}` is given its default `{dflt}` before it is compared", fn=short)
                        else:
                            ck.violation(rule, key, site,
                                         f"{short} compares what it read from `{attr}` with `{dflt}` without giving an absent attribute that value first: `{attr}` "
                                         f"left out (which means `{dflt}`) is treated differently from `{attr}=\"{dflt}\"`", fn=short)
    if n == 0:
        ck.ok(rule, "absent-is-default:none", "-", "no attribute with a default is compared with its default value")


def run(ck, F):
    ck.explanation = (
        "Decided on the output grammar of the binding and service emitters and on the typed HIR of the WSDL readers: the three "
        "envelope templates (prefix/rename/namespaces, Header iff header parts are bound, Body always), the provenance of the Body "
        "and Header members (element name, element namespace, PascalCase struct of the element), that envelope emitter and method "
        "emitter range over the same operation collection without filtering and emit one `pub async fn` per operation named "
        "snake_case(op), the literal shape of the emitted method body, and the reader-side chain part -> element, operation -> "
        "messages, binding operation -> parts (keyed lookups only). The serialized bytes are yaserde's.")
    ck.assumptions = ["yaserde honours prefix/rename/namespaces", "the emitted method body text is type-checked against the helper by C01/C18 skeletons"]
    ck.rule("R1", "envelope shape: prefix=soapenv, rename=Envelope, soapenv bound to the SOAP 1.1 URI; members Header (iff header parts) and Body, both soapenv")
    ck.rule("R2", "Body member: rename = body element's XML name, prefix = that element's namespace abbreviation, type = its PascalCase struct in that namespace's module")
    ck.rule("R3", "Header members: one per bound header part (unfiltered loop); rename/prefix/type from the part's element; field name from the part name")
    ck.rule("R4", "one method per operation: service and binding emitters iterate the same operation collection unfiltered; one `pub async fn` per iteration named to_snake_case(op)")
    ck.rule("R5", "method shape: signature (&self, req: <Op>InputEnvelope) -> error::SoapResult<..>; body forwards client, location and mapped credentials to the helper and awaits it; location literal = port address")
    ck.rule("R6", "resolution chain: parts keyed by part@name and resolved from part@element by (name, namespace); operations resolve input/output@message; "
                  "binding body part from body@parts else the message's first part; header parts by key")
    X = T.extractor(F)
    CE = og.CallExpander(F)
    rule_absent_is_default(ck, F, CE)
    # the emitters are found by what they write under the binding / service writers, not by name
    ENV_EMITTER = A.envelope_emitter(X)
    OP_EMITTERS = (A.method_emitter(X), A.operation_fn_emitter(X))
    if ENV_EMITTER is None or None in OP_EMITTERS:
        ck.undecided("R1", "anchor", "-", f"the envelope / method / operation-function emitters could not be attributed: {ENV_EMITTER}, {OP_EMITTERS}")
        return
    wso = [ENV_EMITTER]
    groups = T.struct_groups(X, wso[0])
    byname = {}
    for g in groups:
        byname[C03._gname(g)] = g
    env = byname.get("envelope_name")
    hdr = byname.get("{}Header")
    body = byname.get("{}Body")
    if not (env and hdr and body):
        ck.undecided("R1", "groups", "-", f"envelope struct templates not recognised: {sorted(byname)}")
        return
    HEADERS = "!is_empty(soap_operation.headers)"

    def cond_headers(ctx):
        """the context says "the operation has header parts": `!headers.is_empty()` taken, or `headers.is_empty()` not taken"""
        for c in ctx:
            if c[0] != "alt":
                continue
            cond, br = c[1], c[2]
            while isinstance(cond, tuple) and cond[0] == "not":
                cond, br = cond[1], not br
            if og.nf_str(("not", cond)) == HEADERS and br is False:
                return True
        return False

    # ---- R1
    attrs = [C03.parse_attr(e) for e in env.pre if "#[yaserde(" in e.skeleton()]
    a = attrs[0] if attrs else {}
    ok = a.get("prefix") == ("lit", "soapenv") and a.get("rename") == ("lit", "Envelope")
    (ck.ok if ok else ck.violation)("R1", "envelope-attr", env.open.site, "Envelope struct: prefix=soapenv, rename=Envelope" if ok else
                                    f"Envelope struct attribute is {a}: not soapenv:Envelope", fn="envelope")
    ns, _found = C03.nsmap_entries(a, CE)
    if ns and any(k == ("lit", "soapenv") and v == ("lit", SOAP11) for k, v, _ in ns):
        ck.ok("R1", "soapenv-uri", env.open.site, "soapenv -> " + SOAP11, fn="envelope")
    else:
        ck.violation("R1", "soapenv-uri", env.open.site, "soapenv is not bound to the SOAP 1.1 envelope namespace", fn="envelope")
    mem = {og.nf_str(n): (ev, ctx) for (ev, n, ctx, ty) in env.members}
    mattrs = {}
    last = None
    for e in env.body_emits:
        if "#[yaserde(" in e.skeleton():
            last = C03.parse_attr(e)
        elif T.RE_MEMBER.match(e.skeleton()):
            mattrs[T.RE_MEMBER.match(e.skeleton()).group(1)] = (last, e)
    for name, want in (("header", "Header"), ("body", "Body")):
        if name not in mattrs:
            ck.violation("R1", f"member:{name}", env.open.site, f"Envelope has no `{name}` member", fn="envelope")
            continue
        at, e = mattrs[name]
        good = at and at.get("prefix") == ("lit", "soapenv") and at.get("rename") == ("lit", want)
        conditional = cond_headers(e.ctx)
        if name == "header" and not conditional:
            good = False
        if name == "body" and any(c[0] == "alt" for c in T.relative_ctx(e.ctx, env.open.ctx)):
            good = False
        (ck.ok if good else ck.violation)("R1", f"member:{name}", e.site,
                                          f"Envelope.{name}: soapenv:{want}" + (" iff header parts are bound" if name == "header" else ", always") if good else
                                          f"Envelope.{name} is annotated {at} / conditioned {T.ctx_str(T.relative_ctx(e.ctx, env.open.ctx))}", fn="envelope")
    # header struct and header check under the same condition
    same = cond_headers(hdr.open.ctx) and all(cond_headers(c[2]) for c in env.checks if og.nf_str(c[1]) == "'header'")
    (ck.ok if same else ck.violation)("R1", "header-condition", hdr.open.site,
                                      "Header struct, header member and header check share the condition `headers non-empty`" if same else
                                      "Header struct / member / check are emitted under different conditions", fn="envelope")
    # ---- R2
    rows = _pair_attrs(body)
    for (la, e) in rows:
        has_ns = any(c[0] == "alt" and "in_namespace" in og.nf_str(c[1]) and c[2] for c in e.ctx)
        tag = "+ns" if has_ns else "-ns"
        at = la[0] if la else {}
        rn = at.get("rename")
        rn_s = og.nf_str(rn[1]) if rn and rn[0] == "hole" else str(rn)
        ok_rn = ("xml_name(soap_operation.body.rust_type)" in rn_s and "to_pascal_case" not in rn_s and "to_snake_case" not in rn_s) or (
            rn is not None and rn[0] == "hole" and _is_name_of(CE, rn[1], "soap_operation.body"))
        (ck.ok if ok_rn else ck.violation)("R2", f"rename:{tag}", e.site, f"Body member rename = {rn_s[:80]}" + ("" if ok_rn else " — not the body element's XML name"), fn="envelope")
        if has_ns:
            pf = at.get("prefix")
            pf_s = og.nf_str(pf[1]) if pf and pf[0] == "hole" else str(pf)
            ok_pf = pf_s == "Some⟨soap_operation.body.in_namespace⟩.abbreviation"
            (ck.ok if ok_pf else ck.violation)("R2", "prefix", e.site, f"Body member prefix = {pf_s[:80]}" + ("" if ok_pf else " — not the body element's namespace"), fn="envelope")
        holes = [og.nf_str(CE.expand(h[0])) for h in e.holes()]
        ty_ok = any(_is_struct_of(CE.expand(h[0]), "soap_operation.body.rust_type") for h in e.holes()[1:])
        mod_ok = (not has_ns) or any(h == "Some⟨soap_operation.body.in_namespace⟩.rust_mod_name" for h in holes[1:])
        (ck.ok if ty_ok and mod_ok else ck.violation)("R2", f"type:{tag}", e.site,
                                                       "Body member type = <module of the element's namespace>::PascalCase(element name)" if ty_ok and mod_ok else
                                                       f"Body member type holes {holes[1:]} are not module::PascalCase(element)", fn="envelope")
    ck.floor("R2", "Body member templates", len(rows), 2)
    # ---- R3
    rows = _pair_attrs(hdr)
    HS = "soap_operation.headers"
    for (la, e) in rows:
        st = [og.nf_str(s) for s in T.stars(T.relative_ctx(e.ctx, hdr.open.ctx))]
        has_ns = any(c[0] == "alt" and "in_namespace" in og.nf_str(c[1]) and c[2] for c in e.ctx)
        tag = "+ns" if has_ns else "-ns"
        if st != [HS]:
            ck.violation("R3", f"loop:{tag}", e.site, f"header members are emitted over {st}, not once per bound header part (`{HS}` unfiltered)", fn="envelope")
        at = la[0] if la else {}
        rn = at.get("rename")
        rn_s = og.nf_str(rn[1]) if rn and rn[0] == "hole" else str(rn)
        ok_rn = (f"xml_name(each({HS}).1.rust_type)" in rn_s and "to_pascal_case" not in rn_s) or (
            rn is not None and rn[0] == "hole" and _is_name_of(CE, rn[1], f"each({HS}).1"))
        (ck.ok if ok_rn else ck.violation)("R3", f"rename:{tag}", e.site,
                                           f"Header member rename = {rn_s[:90]}" + ("" if ok_rn else " — not the XML name of the element the part refers to "
                                                                                   "(a part named differently from its element is serialized under the wrong name)"), fn="envelope")
        if has_ns:
            pf = at.get("prefix")
            pf_s = og.nf_str(pf[1]) if pf and pf[0] == "hole" else str(pf)
            ok_pf = pf_s == f"Some⟨each({HS}).1.in_namespace⟩.abbreviation"
            (ck.ok if ok_pf else ck.violation)("R3", "prefix", e.site, f"Header member prefix = {pf_s[:80]}" + ("" if ok_pf else " — not the element's namespace"), fn="envelope")
        holes = [og.nf_str(CE.expand(h[0])) for h in e.holes()]
        nch, nroot = og.sanitiser_chain(CE.expand(e.holes()[0][0])) if e.holes() else ([], None)
        nm_ok = bool(e.holes()) and "to_snake_case" in nch and nch[0] == "rename_keywords" and og.nf_str(nroot) == f"each({HS}).0"
        ty_ok = any(_is_struct_of(CE.expand(h[0]), f"each({HS}).1.rust_type") for h in e.holes()[1:])
        opt_ok = "Option<" in e.skeleton()
        (ck.ok if nm_ok and ty_ok and opt_ok else ck.violation)("R3", f"member:{tag}", e.site,
                                                               "Header member: field name from the part name, type Option<PascalCase(element)>" if nm_ok and ty_ok and opt_ok else
                                                               f"Header member template `{e.skeleton().strip()}` with holes {holes}", fn="envelope")
    ck.floor("R3", "Header member templates", len(rows), 2)
    # ---- R4
    svc_calls = [ev for ev in X.events.get(SERVICE, []) if ev.kind == "call" and ev.callee == OP_EMITTERS[0]]
    bnd_calls = [ev for ev in X.events.get(BINDING, []) if ev.kind == "call" and ev.callee == ENV_EMITTER]
    def loop_of(ev):
        st = T.stars(ev.ctx)
        return og.nf_str(st[-1]) if st else None
    ok = len(svc_calls) == 1 and loop_of(svc_calls[0]) == "self.binding.operations" and not any(c[0] == "alt" for c in svc_calls[0].ctx)
    (ck.ok if ok else ck.violation)("R4", "service-loop", svc_calls[0].site if svc_calls else "-",
                                    "service emitter: one method call per element of self.binding.operations, unconditional" if ok else
                                    f"service emitter iterates {[loop_of(e) for e in svc_calls]} (filtered / conditional / missing)", fn="SoapService::write_xml")
    bl = {loop_of(e) for e in bnd_calls}
    okb = bl == {"self.operations"} and any(not any(c[0] == "alt" for c in e.ctx) for e in bnd_calls)
    (ck.ok if okb else ck.violation)("R4", "binding-loop", bnd_calls[0].site if bnd_calls else "-",
                                     "binding emitter: input envelope for every element of self.operations, unconditional" if okb else
                                     f"binding emitter iterates {sorted(map(str, bl))}", fn="SoapBinding::write_xml")
    # the client type is named after the service: PascalCase of the service's `name` attribute, whatever else the document holds (a
    # name that is changed when some other component happens to be called alike is not the service's name any more)
    stored = next((s_[3] for s_ in og.field_summaries(F, "service::SoapService") if not s_[0].endswith("tests")), {})
    svc_types = [e for e in X.events.get(SERVICE, []) if e.kind == "emit" and re.match(r"^\s*(pub struct|impl) \w*\{\}\w* \{", e.skeleton()) and e.holes()]
    for e in svc_types:
        what = "struct" if "struct" in e.skeleton() else "impl"
        glued = re.match(r"^\s*(?:pub struct|impl) (\w*)\{\}(\w*) \{", e.skeleton())
        if glued and (glued.group(1) or glued.group(2)):
            ck.violation("R4", f"service:type-name:{what}", e.site,
                         f"the client {what} is named `{glued.group(1)}<name>{glued.group(2)}`: the name of the service with something added, not the "
                         f"PascalCase form of the service's `name` attribute", fn="service")
            continue
        h0 = CE.expand(e.holes()[0][0])
        names, root = og.spine(h0)
        full = h0
        if root[0] == "field" and root[1] == ("param", "self") and root[2] in stored:
            # a member of the service value stands for what the reader stored in it
            full = _success_value(CE.expand(stored[root[2]]))
            names2, root = og.spine(full)
            names = names + names2
        chain = [x for x in names if x in og.SANITISERS]
        rest = [x for x in names if x not in og.SANITISERS and x not in NAME_PLUMBING and not x.startswith("<")]
        def has_format(n):
            return isinstance(n, tuple) and (n[:1] == ("format",) or any(has_format(x) for x in n))
        reads_name = not has_format(h0) and not has_format(full) and rest == ["attribute"] and any(str(c_[1]).rsplit("::", 1)[-1] == "attribute" and len(c_[2]) == 2 and c_[2][1] == ("lit", "name") for c_ in og.nf_calls(full))
        if "to_pascal_case" in chain and reads_name:
            ck.ok("R4", f"service:type-name:{what}", e.site, f"client {what}: named {og.nf_str(h0)[:80]} (PascalCase of the service's name attribute)", fn="service")
        else:
            ck.violation("R4", f"service:type-name:{what}", e.site,
                         f"the client {what} is named {og.nf_str(h0)[:100]} (from {og.nf_str(root)[:100]}): not the PascalCase form of the service's `name` attribute and "
                         f"nothing else — the client type is no longer named after the WSDL service for some documents", fn="service")
    ck.floor("R4", "client type templates (struct, impl)", len(svc_types), 2)
    stream = [e for e in T.inline(X, T.ROOT) if e.kind == "emit"]
    for fn in OP_EMITTERS:
        sigs_local = [e for e in X.events.get(fn, []) if e.kind == "emit" and re.match(r"^\s*pub async fn \{\}\(", e.skeleton())]
        short = fn.rsplit("::", 1)[-1]
        # exactly one signature per call: one unconditional template, or templates that are pairwise exclusive and together exhaustive
        decs = [[og.decision(c[1], c[2]) for c in e.ctx if c[0] == "alt"] for e in sigs_local]
        one = len(sigs_local) == 1 and not decs[0]
        two = len(sigs_local) == 2 and all(len(d) == 1 for d in decs) and decs[0][0][0] == decs[1][0][0] and decs[0][0][1] != decs[1][0][1]
        if one or two:
            ck.ok("R4", f"{short}:one-fn", sigs_local[0].site, f"{short}: exactly one `pub async fn` per call" + (" (two exclusive variants: with / without output)" if two else ""), fn=short)
        else:
            ck.violation("R4", f"{short}:one-fn", sigs_local[0].site if sigs_local else "-",
                         f"{short}: {len(sigs_local)} `pub async fn` templates under conditions {[[ (og.nf_str(k[1]), v) for k, v in d] for d in decs]}", fn=short)
        # the method is named after the operation: looked at in the document's grammar, where the parameter is the loop element
        sigs = [e for e in stream if e.fn == fn and re.match(r"^\s*pub async fn \{\}\(", e.skeleton())]
        for e in sigs:
            h0 = CE.expand(e.holes()[0][0])
            nm = og.nf_str(h0)
            nch, nroot = og.sanitiser_chain(h0)
            root_s = og.nf_str(nroot)
            if "to_snake_case" in nch and root_s.endswith("operations).0"):
                ck.ok("R4", f"{short}:fn-name", e.site, f"{short}: method name = {nm[:80]}", fn=short)
            else:
                ck.violation("R4", f"{short}:fn-name", e.site, f"{short}: method name is {nm[:100]}, not the snake_case form of the operation name", fn=short)
        if not sigs:
            ck.undecided("R4", f"{short}:fn-name", "-", f"{short}: no method signature template found in the document's grammar", fn=short)
    # ---- R5
    evs = [e for e in X.events.get(OP_EMITTERS[0], []) if e.kind == "emit"]
    # (comment lines and attributes in front of the signature are not statements; that schema text cannot leave a comment is C14's)
    body = [e for e in evs if not re.match(r"^\s*pub async fn", e.skeleton()) and e.skeleton().strip() not in ("}", "")
            and not e.skeleton().strip().startswith(("//", "#[")) ]
    cred = [e for e in body if re.match(r"^let credentials = self\.credentials\.as_ref\(\)\.map\(\|\(u, p\)\| \(u\.as_str\(\), p\.as_str\(\)\)\);$", e.skeleton().strip())]
    fwd, other = [], []
    for e in body:
        if e in cred:
            continue
        m = re.match(r"^helpers::send_soap_request_using_client(?:::<[^()]*>)?\((.*)\)\.await(\.map\(\|_\| \(\)\))?$", e.skeleton().strip())
        if m and [a.strip() for a in m.group(1).split(",")] == ["&self.client", "&self.location", "credentials", "req"]:
            fwd.append(e)
        else:
            other.append(e)
    alts = [tuple((og.nf_str(c[1]), c[2]) for c in e.ctx if c[0] == "alt") for e in fwd]
    exhaustive = (len(fwd) == 1 and alts[0] == ()) or (len(fwd) == 2 and all(len(a) == 1 for a in alts) and alts[0][0][0] == alts[1][0][0] and alts[0][0][1] != alts[1][0][1])
    # on the path of every forward exactly one credentials mapping, before it (one unconditional line, or one per branch)
    def on_path(c, f):
        fa = {(og.nf_str(x[1]), x[2]) for x in f.ctx if x[0] == "alt"}
        return all((og.nf_str(x[1]), x[2]) in fa for x in c.ctx if x[0] == "alt")
    cred_ok = bool(cred) and bool(fwd) and all(
        len([c for c in cred if on_path(c, f)]) == 1 and all(evs.index(c) < evs.index(f) for c in cred if on_path(c, f)) for f in fwd)
    if cred_ok and exhaustive and not other:
        ck.ok("R5", "method-body", evs[0].site, "method body: map credentials, then on every path exactly one forward of (&self.client, &self.location, credentials, req) to the checked helper, awaited and returned")
    else:
        why = []
        if not cred_ok:
            why.append("the credentials are not mapped once, unconditionally, before the forward")
        if not exhaustive:
            why.append(f"{len(fwd)} forwarding statement(s) under conditions {alts}: not exactly one on every path")
        if other:
            why.append(f"statements other than the forward: {[e.skeleton().strip()[:80] for e in other]}")
        ck.violation("R5", "method-body", (other or fwd or evs)[0].site if evs else "-", "the emitted method does more/less than forwarding to the checked helper: " + "; ".join(why))
    for e in evs:
        m = re.match(r"^\s*pub async fn \{\}\((.*)\) -> (.*) \{$", e.skeleton().strip())
        if m:
            okp = m.group(1) in ("&self, req: {}", "&self, req: {}InputEnvelope") and \
                m.group(2) in ("error::SoapResult<{}>", "error::SoapResult<{}OutputEnvelope>", "error::SoapResult<()>")
            (ck.ok if okp else ck.violation)("R5", "signature:" + ("output" if "{}" in m.group(2) else "no-output"), e.site,
                                             f"signature ({m.group(1)}) -> {m.group(2)}" + ("" if okp else " is not (&self, req: <Op>InputEnvelope) -> error::SoapResult<..>"))
    loc = [e for e in X.events.get(SERVICE, []) if e.kind == "emit" and "location:" in e.skeleton() and e.holes()]
    if loc and og.nf_str(loc[0].holes()[0][0]) == "self.location" and ".to_string()" in loc[0].skeleton():
        sums = [s for s in og.field_summaries(F, "service::SoapService") if "try_from_node" in s[0]]
        where = og.CallExpander(F).expand(sums[0][3]["location"]) if sums else None   # reading helpers count as their bodies
        src = og.nf_str(where) if sums else ""
        lits = _lits(where) if sums else []
        if "location" in lits and "address" in lits and "port" in lits:
            ck.ok("R5", "location", loc[0].site, "new(): location = the port's address@location")
        else:
            ck.violation("R5", "location", loc[0].site, f"SoapService.location comes from {src[:140]}, not from port/address@location")
    else:
        ck.violation("R5", "location", "-", "new() does not initialise `location` from the service's location")
    rule_resolution(ck, F)
    # "returning the response envelope": the method forwards to the emitted helper, so what the method returns for a reply is what
    # the helper makes of it — the helper's obligations about the payload (C16.R4) are obligations of every method
    from rules import c16 as C16
    from rules import c04 as C04
    C16.run(C04._Sub(ck, "R5", lambda key: key.startswith(("reply-judged", "payload-provenance")), only_rules=("R4",)), F)


def _is_struct_of(nf, node_type_nf_str):
    """nf = PascalCase(type name) of the XML name of the given node's rust_type"""
    names, root = og.spine(nf)
    return "to_pascal_case" in names and "xml_name" in names and og.nf_str(root) == node_type_nf_str


def _pair_attrs(g):
    """[(parsed attribute, attr emit) or None, member emit]: the latest attribute template whose branch conditions are compatible."""
    from rules.c01 import _exclusive
    out = []
    attrs = []
    for e in g.body_emits:
        if "#[yaserde(" in e.skeleton():
            attrs.append(e)
        elif T.RE_MEMBER.match(e.skeleton()):
            cand = [a for a in attrs if not _exclusive(a.ctx, e.ctx)]
            out.append(((C03.parse_attr(cand[-1]), cand[-1]) if cand else None, e))
    return out


def _lits(nf, out=None):
    out = [] if out is None else out
    if isinstance(nf, tuple):
        if nf and nf[0] == "lit":
            out.append(nf[1])
        for x in nf:
            if isinstance(x, tuple):
                _lits(x, out)
    return out


def rule_resolution(ck, F):
    W = og.EnvWalker(F)
    # message parts
    seen = {}

    def cb(e, env, ctx):
        if e.get("k") == "MethodCall" and e["name"] == "find_node_by_xml_name":
            seen["lookup"] = [og.nf_str(W.NF.nf(a, env)) for a in e["args"]]
        if e.get("k") == "Call" and (Hh.callee_path(e) or "").endswith("Ok") and e["args"]:
            a = Hh.strip(e["args"][0])
            if a.get("k") == "Tup" and len(a["es"]) == 2:
                seen["entry"] = og.nf_str(W.NF.nf(a["es"][0], env))
    # the conversion function and the private helpers of its module that it calls (a loop body extracted into `read_part`)
    from engine.rulekit import scans
    root = "<model::soap::message::SoapMessage as model::TryFromNode<'n>>::try_from_node"
    g = scans.call_graph(F.lib)
    fns, frontier = [root], [root]
    for _ in range(2):
        nxt = []
        for f_ in frontier:
            for c in sorted(g.get(f_, ())):
                cb_ = F.lib.body(c)
                if c not in fns and cb_ is not None and cb_.get("hir") is not None and not cb_.get("closure") and c.startswith("model::soap::message::"):
                    fns.append(c)
                    nxt.append(c)
        frontier = nxt
    for f_ in fns:
        W.walk_fn(f_, cb)
    lk = seen.get("lookup")
    if lk and "'element'" in lk[1] and "'element'" in lk[2] and "resolve_type" in lk[1] + lk[2] or lk and "split_once" in lk[1]:
        ck.ok("R6", "part->element", "message.rs", "message part resolved from part@element by (local name, namespace of the prefix)")
    else:
        ck.violation("R6", "part->element", "message.rs", f"message parts are not resolved from part@element by (name, namespace): {lk}")
    if not (seen.get("entry") and "'name'" in seen["entry"]):
        # the key read off the value of the parts table (helpers and the closures handed to them taken in): the first component of
        # the pair each `part` child is mapped to
        CE = og.CallExpander(F)
        for (_fn, _site, _ctx, fields, _base) in og.field_summaries(F, "model::soap::message::SoapMessage"):
            cur = CE.expand(fields.get("parts")) if fields.get("parts") is not None else None
            for _ in range(8):
                if isinstance(cur, tuple) and cur[0] == "payload":
                    cur = cur[2]
                elif isinstance(cur, tuple) and cur[0] == "call" and cur[1] in ("Ok", "Some") and len(cur[2]) == 1:
                    cur = cur[2][0]
                elif isinstance(cur, tuple) and cur[0] == "call" and cur[1] == "iter::map":
                    cur = cur[2][1]
                elif isinstance(cur, tuple) and cur[0] == "list" and len(cur[1]) == 1 and cur[1][0][0] == "star":
                    cur = cur[1][0][2]       # a table filled in one loop: what each round puts in
                else:
                    break
            if isinstance(cur, tuple) and cur[0] == "tuple" and len(cur[1]) == 2:
                seen["entry"] = og.nf_str(cur[1][0])
    if seen.get("entry") and "'name'" in seen["entry"]:
        ck.ok("R6", "part-key", "message.rs", "parts are keyed by part@name")
    else:
        ck.violation("R6", "part-key", "message.rs", f"parts are keyed by {seen.get('entry')}")
    # binding side: the functions reached from SoapBinding's conversion are read by what they do (which attribute they read, which
    # table they search), not by their names
    from rules import anchors as A
    g = scans.call_graph(F.lib)
    broot = "<model::soap::binding::SoapBinding as model::TryFromNode<'n>>::try_from_node"
    bfns = [f_ for f_ in [broot] + sorted(scans.reachable(g, [broot])) if A._local_fn(F, f_) and f_.startswith(("model::soap::binding", "<model::soap::binding"))]
    bfns = list(dict.fromkeys(bfns))
    if not bfns or F.lib.body(broot) is None:
        ck.undecided("R6", "body-part", "-", "SoapBinding's conversion function not found")
        return

    def is_parts_table(e):
        base = Hh.strip(e)
        while base.get("k") == "MethodCall" and base["name"] in ("iter", "into_iter", "as_ref", "clone", "by_ref", "deref"):
            base = Hh.strip(base["recv"])
        bty = (base.get("ty") or "") + (base.get("adj_ty") or "")
        return "OrderedMap<" in bty and "RustNode" in bty

    # every lookup in a message's part table: `parts.get(name)`, or a search whose predicate is exactly `key == name`
    looks, fetchers, firsts, attr_reads = [], set(), [], {}
    for f_ in bfns:
        def cbm(e, env, ctx, f_=f_):
            if e.get("k") != "MethodCall":
                return
            recv = W.NF.nf(e["recv"], env)
            on_parts = (isinstance(recv, tuple) and recv[0] == "field" and recv[2] == "parts") or is_parts_table(e["recv"])
            if e["name"] in ("get", "get_key_value") and on_parts and e["args"]:
                looks.append(("get", e, None))
                fetchers.add(f_)
            if e["name"] in ("find", "position", "any", "filter", "find_map", "rfind") and on_parts and e["args"]:
                pred = W.NF.closure_apply(e["args"][0], [("elem", recv)], env)
                looks.append((e["name"], e, pred))
                fetchers.add(f_)
            if e["name"] in ("next", "first") and not e["args"] and on_parts:
                firsts.append((f_, e))
        W.walk_fn(f_, cbm)
        for a_ in A.attribute_reads(F, f_):
            attr_reads.setdefault(a_, set()).add(f_)

    def reaches_fetcher(f_):
        return f_ in fetchers or bool(scans.reachable(g, [f_]) & fetchers)
    # "the message's first part" means the first in document order: the table of parts has to keep insertion order
    tables = [(st_["path"], f_["name"], f_["ty"]) for st_ in F.lib.items["structs"] for f_ in st_["variants"][0]["fields"]
              if f_["name"] == "parts" and "RustNode" in f_["ty"]]
    for (sp_, fname_, fty_) in tables:
        ordered = fty_.replace(" ", "").startswith(("model::ordered_map::OrderedMap<", "std::vec::Vec<", "indexmap::"))
        (ck.ok if ordered else ck.violation)("R6", "parts-table-ordered", sp_, f"{sp_.rsplit('::', 1)[-1]}.{fname_} keeps the parts in document order" if ordered else
                                             f"{sp_.rsplit('::', 1)[-1]}.{fname_} is a `{fty_[:60]}`: it does not keep the parts in document order, so the implicit body part "
                                             f"(the message's first part) and the order of members depend on the part names")
    if not tables:
        ck.undecided("R6", "parts-table-ordered", "-", "no struct with a `parts` table of components was found")
    body_fns = sorted(attr_reads.get("parts", ()))
    bspan = F.lib.body(body_fns[0])["span"] if body_fns else F.lib.body(broot)["span"]
    explicit = bool(body_fns) and all(reaches_fetcher(f_) for f_ in body_fns)
    first = bool(body_fns) and any(f_ in body_fns or f_ in scans.reachable(g, body_fns) for f_, _ in firsts)
    (ck.ok if explicit else ck.violation)("R6", "body-part:explicit", bspan, "body@parts selects the body part by key" if explicit else "body@parts is not used to select the body part")
    (ck.ok if first else ck.violation)("R6", "body-part:default", bspan, "without body@parts the message's first part (document order) is the body" if first else
                                       "the default body part is not the first part of the message")
    bad = []
    for how, e, pred in looks:
        if how == "get":
            continue
        ps = og.nf_str(pred)
        exact = isinstance(pred, tuple) and pred[0] == "binop" and pred[1] == "Eq" and ".0" in ps and " Or " not in ps and " And " not in ps
        if not exact:
            bad.append((how, Hh.sp(e), ps[:140]))
    fspan = F.lib.body(sorted(fetchers)[0])["span"] if fetchers else bspan
    if looks and not bad:
        ck.ok("R6", "parts-by-key", fspan, f"named parts are fetched by key ({len(looks)} lookup(s): {sorted({l[0] for l in looks})})")
    elif not looks:
        ck.violation("R6", "parts-by-key", fspan, "named parts are not fetched by key: no lookup in the message's part table found")
    else:
        for how, site, ps in bad:
            ck.violation("R6", "parts-by-key", site, f"a bound part is selected by `{how}` with the predicate {ps}: not (only) the part name, so another part can be "
                         f"taken for the bound one")
    header_fns = sorted(attr_reads.get("part", ()))
    if header_fns:
        okh = all(reaches_fetcher(f_) for f_ in header_fns)
        (ck.ok if okh else ck.violation)("R6", "header-part", F.lib.body(header_fns[0])["span"], "header part = header@part, fetched by key" if okh else "header parts are not taken from header@part")
    # every `header` child of the binding's input / output becomes one header of the envelope: the list is the children filtered by
    # that tag only (a further filter drops bound headers)
    def chain_view(nf):
        conds = []
        cur = nf
        for _ in range(12):
            if not isinstance(cur, tuple):
                break
            if cur[0] == "payload":
                cur = cur[2]
            elif cur[0] == "call" and cur[2] and str(cur[1]).rsplit("::", 1)[-1] in ("into_iter", "iter", "collect", "cloned", "to_vec", "into_boxed_slice"):
                cur = cur[2][0]
            elif cur[0] == "list" and len(cur[1]) == 1 and cur[1][0][0] == "star":
                # built with a loop: `for h in children.filter(..) { headers.push(read(h)?) }`
                it_ = cur[1][0]
                if len(it_) > 4 and it_[3] == "conditional":
                    conds += list(it_[4])
                cur = it_[1]
            elif cur[0] == "call" and str(cur[1]).startswith("iter::"):
                src, val, cs = og.iter_view(cur)
                if src == cur:
                    break
                conds += [c for c, _b in cs]
                cur = src
            else:
                break
        return cur, conds
    n_env = 0
    CE_ = og.CallExpander(F)
    for (fn_, site_, ctx_, fields_, base_) in og.field_summaries(F, "binding::SoapEnvelope"):
        if "headers" not in fields_ or "tests" in fn_:
            continue
        n_env += 1
        src_, conds_ = chain_view(CE_.expand(fields_["headers"]))
        if isinstance(src_, tuple) and src_[0] == "call" and A._local_fn(F, src_[1]):
            src_, more_ = chain_view(CE_.expand(src_))    # a local helper returning the (filtered) children
            conds_ += more_
        conds_ = [CE_.expand(c) for c in conds_]
        over_children = isinstance(src_, tuple) and src_[0] == "call" and str(src_[1]).rsplit("::", 1)[-1] == "children"
        atoms = []
        for c in conds_:
            st_ = [c]
            while st_:
                a_ = st_.pop()
                if isinstance(a_, tuple) and a_[0] == "binop" and a_[1] == "And":
                    st_ += [a_[2], a_[3]]
                else:
                    atoms.append(a_)

        def kind_of(a_):
            """'element' for is_element(<child>), 'header' for tag_name(<child>).name() == "header", None for anything else"""
            if isinstance(a_, tuple) and a_[0] == "call" and str(a_[1]).rsplit("::", 1)[-1] == "is_element" and len(a_[2]) == 1 and a_[2][0][0] == "elem":
                return "element"
            if isinstance(a_, tuple) and a_[0] == "binop" and a_[1] == "Eq":
                for x_, y_ in ((a_[2], a_[3]), (a_[3], a_[2])):
                    if x_ == ("lit", "header") and isinstance(y_, tuple) and y_[0] == "call" and str(y_[1]).rsplit("::", 1)[-1] == "name" \
                            and y_[2] and isinstance(y_[2][0], tuple) and y_[2][0][0] == "call" and str(y_[2][0][1]).rsplit("::", 1)[-1] == "tag_name" \
                            and y_[2][0][2] and y_[2][0][2][0][0] == "elem":
                        return "header"
            return None
        extra = [a_ for a_ in atoms if kind_of(a_) is None]
        tagged = any(kind_of(a_) == "header" for a_ in atoms)
        if over_children and tagged and not extra:
            ck.ok("R6", "headers:every-header-child", site_, "envelope headers = one entry per `header` child of the binding's input / output")
        elif not over_children:
            ck.undecided("R6", "headers:every-header-child", site_, f"the header list is not read off an iteration over the child elements: {og.nf_str(fields_['headers'])[:120]}")
        else:
            ck.violation("R6", "headers:every-header-child", site_,
                         "the header list of an envelope is not every `header` child of the binding's input / output: " +
                         (f"it is filtered further by {og.nf_str(extra[0])[:120]}" if extra else "it is not selected by the tag `header`") +
                         " — a bound header can be dropped and is then missing from the envelope")
    ck.floor("R6", "SoapEnvelope construction sites", n_env, 1)
    # port side: input/output@message resolved through the by-(name, namespace) lookup of WSDL messages
    proots = [b_["path"] for b_ in F.lib.bodies if b_["path"].startswith("<model::soap::port::") and b_["path"].endswith("TryFromNode<'n>>::try_from_node")]
    pfns = [f_ for f_ in list(proots) + sorted(scans.reachable(g, proots)) if A._local_fn(F, f_) and "soap::port" in f_]
    msg_lookups = {f_["path"] for f_ in A._fn_items(F) if "SoapMessage" in f_["output"] and any(A._norm_ty(x) == "std::option::Option<&model::Namespace>" for x in f_["inputs"])}
    reads_message, resolves = None, False
    for f_ in dict.fromkeys(pfns):
        nb_ = Hh.norm_body(F.lib.body(f_))
        for x in Hh.exprs(nb_["value"]):
            if "message" in A.attribute_reads(F, f_):
                reads_message = f_
            if x.get("k") in ("MethodCall", "Call") and (Hh.callee_path(x) or "") in msg_lookups:
                resolves = True
    if pfns:
        okp = reads_message is not None and resolves
        (ck.ok if okp else ck.violation)("R6", "operation->message", F.lib.body(reads_message or pfns[0])["span"],
                                         "input/output@message resolved to the WSDL message" if okp else "operations do not resolve input/output@message")
