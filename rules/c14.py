"""C14 — schema-supplied text reaches the output only as data, never as code."""
import re

from engine.rulekit import hir as Hh
from engine.rulekit import og
from engine.rulekit import rustlex
from engine.rulekit import scans
from rules import templates as T

# edition 2024
STRICT = ["as", "break", "const", "continue", "crate", "else", "enum", "extern", "false", "fn", "for", "if", "impl", "in", "let", "loop",
          "match", "mod", "move", "mut", "pub", "ref", "return", "self", "Self", "static", "struct", "super", "trait", "true", "type",
          "unsafe", "use", "where", "while", "async", "await", "dyn"]
RESERVED = ["abstract", "become", "box", "do", "final", "macro", "override", "priv", "typeof", "unsized", "virtual", "yield", "try", "gen"]
WEAK = ["union", "macro_rules", "safe", "raw", "auto"]
NOT_RAW = {"self", "Self", "super", "crate", "_"}
IDENT_RE = re.compile(r"^(r#)?[A-Za-z_][A-Za-z0-9_]*$")
CASE_NORMALISERS = {"to_pascal_case", "to_snake_case", "to_class_case", "to_camel_case"}
IDENT_GUARDS = {"as_identifier", "legal_identifier", "sanitize_identifier", "to_identifier"}
CASE_NORMALISERS = ("to_pascal_case", "to_class_case", "to_snake_case", "to_camel_case")
INT_TYPES = {"i8", "i16", "i32", "i64", "i128", "u8", "u16", "u32", "u64", "u128", "usize", "isize", "bool"}
DISPLAY = "<model::field::RustFieldType as std::fmt::Display>::fmt"
RENAME = "model::field::rename_keywords"


def keyword_table(F):
    b = F.lib.body(RENAME)
    if b is None:
        return None, None
    nb = Hh.norm_body(b)
    for x in Hh.exprs(nb["value"]):
        if x.get("k") == "Match":
            tab = {}
            for a in x["arms"]:
                p = a["pat"]
                lits = []
                if p.get("k") == "Expr" and p.get("lit") == "str":
                    lits = [p["v"]]
                elif p.get("k") == "Or":
                    lits = [q["v"] for q in p["pats"] if q.get("k") == "Expr" and q.get("lit") == "str"]
                body = Hh.strip(a["body"])
                if body.get("k") == "Lit" and body.get("lit") == "str":
                    for l in lits:
                        tab[l] = body["v"]
            if len(tab) >= 5:
                return tab, Hh.sp(x)
    # the table as data, possibly behind a quick test that sorts most names out (length, first letter): what the function answers is
    # read off its text for every keyword of the language and for every key of its table (ceval: constants, comparisons of literals,
    # a bisection of the constant table; the table has to be sorted for that or the evaluation refuses)
    from engine.rulekit import ceval
    try:
        keys = set(STRICT + RESERVED + list(WEAK if "WEAK" in globals() else []))
        rows_keys = []
        for y in Hh.exprs(nb["value"]):
            if y.get("k") == "Path" and y.get("res") == "def" and str(y.get("dk", "")).startswith(("Const", "Static")):
                cb = F.lib.body(y.get("path") or "")
                if cb is not None and cb.get("hir") is not None:
                    for z in Hh.exprs(Hh.norm_body(cb)["value"]):
                        if z.get("k") == "Tup" and len(z["es"]) == 2 and Hh.strip(z["es"][0]).get("lit") == "str":
                            rows_keys.append(Hh.strip(z["es"][0])["v"])
        if len(rows_keys) > 5:
            tab = {}
            for kw in sorted(keys | set(rows_keys)):
                if kw == "Self":
                    continue
                out = ceval.evaluate(F, RENAME, [kw])
                if not isinstance(out, str):
                    raise ceval.Unsupported("the keyword function does not answer with a string")
                if out != kw:
                    tab[kw] = str(out)
            # names that are no keywords stay as they are (a sample around the quick test's borders)
            for plain in ("a", "id", "name", "value", "Type", "x1", "abstracts", "continued", "zz", "_x"):
                if ceval.evaluate(F, RENAME, [plain]) != plain:
                    raise ceval.Unsupported(f"the keyword function changes the plain name `{plain}`")
            TABLE_ORDER.clear()
            return tab, b["span"]
    except ceval.Unsupported:
        pass
    # the table as data: a constant array of (keyword, replacement) pairs that the function searches
    for y in Hh.exprs(nb["value"]):
        if y.get("k") == "Path" and y.get("res") == "def" and str(y.get("dk", "")).startswith(("Const", "Static")):
            cb = F.lib.body(y.get("path") or "")
            if cb is None or cb.get("hir") is None:
                continue
            rows = []
            for z in Hh.exprs(Hh.norm_body(cb)["value"]):
                if z.get("k") == "Array":
                    for el in z["es"]:
                        el = Hh.strip(el)
                        if el.get("k") == "Tup" and len(el["es"]) == 2:
                            a, b_ = Hh.strip(el["es"][0]), Hh.strip(el["es"][1])
                            if a.get("k") == "Lit" and a.get("lit") == "str" and b_.get("k") == "Lit" and b_.get("lit") == "str":
                                rows.append((a["v"], b_["v"]))
            if len(rows) > 5:
                TABLE_ORDER["rows"] = [k for k, _ in rows]
                TABLE_ORDER["binary"] = any(m.get("k") == "MethodCall" and str(m.get("name", "")).startswith("binary_search") for m in Hh.exprs(nb["value"]))
                return dict(rows), cb.get("span", "-")
    return None, None


TABLE_ORDER = {}


def is_literal_only(nf):
    """The value is chosen among literals of the generator itself (no schema text)."""
    roots = og.nf_roots(nf)
    if not roots:
        return True
    if nf[0] == "ifelse":
        return is_literal_only(nf[2]) and is_literal_only(nf[3])
    if nf[0] == "lit":
        return True
    if nf[0] == "const":
        return True
    if nf[0] == "match":
        return all(is_literal_only(v) for _, v in nf[2])
    return False


spine = og.spine


class Typer:
    """Type of a provenance normal form, walked through the struct/enum definitions of the crate."""

    def __init__(self, F):
        self.structs = {}
        for st in F.lib.items["structs"]:
            self.structs[st["path"]] = {f["name"]: f["ty"] for f in st["variants"][0]["fields"]}
        self.enums = {}
        for en in F.lib.items["enums"]:
            self.enums[en["path"]] = {v["name"]: [f["ty"] for f in v["fields"]] for v in en["variants"]}

    @staticmethod
    def peel(ty):
        ty = ty.strip()
        changed = True
        while changed:
            changed = False
            for w in ("&mut ", "&", "std::rc::Rc<", "std::boxed::Box<", "std::sync::Arc<"):
                if ty.startswith(w):
                    ty = ty[len(w):]
                    if w.endswith("<") and ty.endswith(">"):
                        ty = ty[:-1]
                    changed = True
        return ty.strip()

    def elem(self, ty):
        ty = self.peel(ty)
        for w in ("std::vec::Vec<", "[", "model::ordered_map::OrderedMap<"):
            if ty.startswith(w):
                inner = ty[len(w):-1]
                if w.startswith("model::ordered_map"):
                    k, v = self._split2(inner)
                    return f"({k}, {v})"
                return inner
        return None

    @staticmethod
    def _split2(s):
        depth = 0
        for i, c in enumerate(s):
            if c in "<(":
                depth += 1
            elif c in ">)":
                depth -= 1
            elif c == "," and depth == 0:
                return s[:i].strip(), s[i + 1:].strip()
        return s, ""

    def ty(self, nf, root_ty):
        if not isinstance(nf, tuple):
            return None
        k = nf[0]
        if k == "param":
            return root_ty.get(nf[1])
        if k == "field":
            b = self.ty(nf[1], root_ty)
            if b is None:
                return None
            b = self.peel(b)
            if b.startswith("(") and nf[2].isdigit():
                parts = []
                depth = 0
                cur = ""
                for c in b[1:-1]:
                    if c in "<(":
                        depth += 1
                    if c in ">)":
                        depth -= 1
                    if c == "," and depth == 0:
                        parts.append(cur.strip())
                        cur = ""
                    else:
                        cur += c
                parts.append(cur.strip())
                i = int(nf[2])
                return parts[i] if i < len(parts) else None
            return (self.structs.get(b) or {}).get(nf[2])
        if k == "elem":
            b = self.ty(nf[1], root_ty)
            return self.elem(b) if b else None
        if k == "payload":
            b = self.ty(nf[2], root_ty)
            if b is None:
                return None
            b = self.peel(b)
            if b.startswith("std::option::Option<") and nf[1] == "Some":
                return b[len("std::option::Option<"):-1]
            if b in self.enums and nf[1] in self.enums[b]:
                tys = self.enums[b][nf[1]]
                return tys[0] if len(tys) == 1 else "(" + ", ".join(tys) + ")"
            return None
        if k == "call":
            name = str(nf[1]).rsplit("::", 1)[-1]
            if name in ("filter", "iter", "skip", "take") and nf[2]:
                return self.ty(nf[2][0], root_ty)
            return None
        return None

    def owner_of_field(self, nf, root_ty):
        """(struct path, field) of a `x.field` normal form"""
        if isinstance(nf, tuple) and nf[0] == "field":
            b = self.ty(nf[1], root_ty)
            if b:
                return self.peel(b), nf[2]
        return None


def render(nf, trait, ty, ce=None, _depth=0):
    """Expand a (possibly composite) hole value into template variants: each a list of ('lit', s) | ('hole', nf, trait, ty)."""
    if not isinstance(nf, tuple):
        return [[("hole", nf, trait, ty)]]
    k = nf[0]
    if trait == "display" and ce is not None and _depth < 6 and k not in ("lit", "format"):
        # a value of a type of the crate shown through its own Display: what that writes, with the value in the place of `self`
        summ = ce.display_summary(ty)
        if summ is not None:
            return render(og.nf_subst(summ, {"self": nf}), "display", "?", ce, _depth + 1)
    if k == "match" and len(nf) >= 3 and _depth < 6:
        out = []
        for _pat, val in nf[2]:
            out += render(val, trait, ty, ce, _depth + 1)
        return out[:16]
    if k == "lit" and isinstance(nf[1], str):
        return [[("lit", nf[1])]]
    if k == "format":
        variants = [[]]
        for p in nf[1]:
            if p[0] == "lit":
                variants = [v + [("lit", p[1])] for v in variants]
            else:
                subs = render(p[1], p[2], p[3] if len(p) > 3 else "?", ce, _depth + 1)
                variants = [v + s for v in variants for s in subs][:16]
        return variants
    if k == "ifelse" and ("lit", "") in (nf[2], nf[3]):
        # a text that is written or left out (`if wanted { format!(..) } else { "" }`): the template, or nothing
        other = nf[3] if nf[2] == ("lit", "") else nf[2]
        return (render(other, trait, ty, ce, _depth + 1) + [[]])[:16]
    if k == "ifelse":
        a_lit = is_literal_only(nf[2])
        b_lit = is_literal_only(nf[3])
        if a_lit != b_lit:
            return [[("hole", nf, trait, ty)]]  # a guard (`if x == "Self" { "Self_" } else { x }`): one value, not two templates
        return (render(nf[2], trait, ty, ce, _depth + 1) + render(nf[3], trait, ty, ce, _depth + 1))[:16]
    if k == "joinmap":
        body = render(nf[2], "display", "?", ce, _depth + 1)
        sep = nf[3] if isinstance(nf[3], str) else ", "
        return [b + [("lit", sep)] + b for b in body][:8]
    if k == "map" and isinstance(nf[2], tuple) and nf[2][0] == "format":
        return render(nf[2], trait, ty, ce, _depth + 1)
    if k == "payload" and isinstance(nf[2], tuple) and nf[2][0] in ("map", "format", "ifelse"):
        return render(nf[2], trait, ty, ce, _depth + 1)
    return [[("hole", nf, trait, ty)]]


VERBATIM_STEPS = {"attribute", "to_string", "to_owned", "from", "into", "clone", "cloned", "as_str", "as_ref", "as_deref", "deref", "Some", "Ok",
                  "text", "ok_or", "ok_or_else", "unwrap_or_default", "borrow", "collect", "to_vec", "into_iter", "iter", "children", "descendants",
                  "is_element", "tag_name", "name", "iter::filter", "filter", "iter::filter_map", "iter::map", "iter::flat_map", "is_empty", "not"}


def _value_steps(n, out):
    """short names of the calls on the value side of a collected list (the conditions of `filter` select elements, they do not
    change what is stored)"""
    if not isinstance(n, tuple):
        return
    if n[0] == "call":
        short = str(n[1]).rsplit("::", 1)[-1] if not str(n[1]).startswith("iter::") else str(n[1])
        out.append(short)
        args = n[2]
        if short in ("iter::filter", "iter::take_while", "iter::skip_while", "filter") and len(args) == 2:
            _value_steps(args[0], out)       # (the predicate is not part of the value)
            return
        for a in args:
            _value_steps(a, out)
        return
    if n[0] in ("lit", "param", "const", "local", "tok", "closure"):
        return
    if n[0] == "islet":
        return
    if n[0] == "ifelse":
        _value_steps(n[2], out)
        _value_steps(n[3], out)
        return
    for x in n[1:]:
        if isinstance(x, tuple):
            if x and isinstance(x[0], str):
                _value_steps(x, out)
            else:
                for y in x:
                    if isinstance(y, tuple):
                        _value_steps(y, out)


def rule_enumeration_verbatim(ck, F, rule="R1"):
    """An `xs:enumeration` value is written into the output as a string literal that has to evaluate to the schema's text: leading or
    trailing blanks are part of the value (whiteSpace=preserve for xs:string). Decided by provenance on the reader's side: what is
    stored as the enumeration list is the `value` attribute of each `enumeration` child through copying steps only (the writer's
    side, `{:?}`, is R1's literal-hole obligation)."""
    from rules import anchors as A_
    builders = [f_["path"] for f_ in A_._fn_items(F) if A_._norm_ty(f_["output"]) == "model::structures::restrictions::Restrictions"
                and any("roxmltree::Node<" in A_._norm_ty(x) for x in f_["inputs"])]
    if len(builders) != 1:
        ck.undecided(rule, "enumeration-verbatim", "-", f"the function that reads a <restriction> into the model could not be attributed uniquely ({builders})")
        return
    W = og.EnvWalker(F)
    CE = og.CallExpander(F)
    found = []

    def cb(e, env, ctx):
        if e.get("k") == "Assign":
            lhs = Hh.strip(e["a"])
            if lhs.get("k") == "Field" and lhs["name"] == "enumeration":
                found.append((Hh.sp(e), W.NF.nf(e["b"], env)))
        if e.get("k") == "Struct" and (e["path"].get("path") or "").endswith("restrictions::Restrictions"):
            for f in e["fields"]:
                if f["name"] == "enumeration":
                    found.append((Hh.sp(e), W.NF.nf(f["e"], env)))
    try:
        W.walk_fn(builders[0], cb)
    except og.Unrecognised as u:
        ck.undecided(rule, "enumeration-verbatim", "-", f"the reader of <restriction> is of unrecognised shape: {u.what}")
        return
    found = [(sp_, v_) for sp_, v_ in found if og.nf_str(v_) not in ("None",)]
    if not found:
        ck.undecided(rule, "enumeration-verbatim", F.lib.body(builders[0])["span"], "no place where the enumeration list of the model is filled was found")
        return
    for sp_, v_ in found:
        steps = []
        _value_steps(CE.expand(v_), steps)
        extra = sorted({x for x in steps if x not in VERBATIM_STEPS})
        if "attribute" not in steps and "text" not in steps:
            ck.undecided(rule, "enumeration-verbatim", sp_, f"the enumeration values are not read off an attribute: {og.nf_str(v_)[:120]}")
        elif extra:
            ck.violation(rule, "enumeration-verbatim", sp_,
                         f"the enumeration values stored in the model went through {extra} after they were read: the string literals written for them "
                         f"do not evaluate to the schema's text (for xs:string every character of an enumeration value counts, blanks included)")
        else:
            ck.ok(rule, "enumeration-verbatim", sp_, "enumeration values are stored as they are read (copying steps only)")


def run(ck, F):
    ck.explanation = (
        "Context-sensitive taint analysis on the output grammar: every template is rendered with a marker per hole and lexed with a "
        "Rust lexer to classify each hole's lexical context (string literal, identifier/path position, numeric code, line/doc "
        "comment, block comment). Every hole whose value is not chosen among the generator's own literals is tainted (it is schema "
        "text or derived from it); the functions on its provenance spine (writer side, plus the constructor summary of the model "
        "field it reads) must contain a sanitiser adequate for the context. The keyword table is extracted from the typed HIR of "
        "rename_keywords and evaluated on every strict/reserved/weak keyword of edition 2024. Inflector's behaviour on arbitrary "
        "Unicode is not decided: an explicit identifier guard is demanded instead of assumed.")
    ck.assumptions = ["`{:?}` on str produces a Rust string literal that evaluates to the original text",
                      "Inflector / Url Display are not trusted as sanitisers"]
    ck.rule("R1", "context-sensitive taint: string-literal holes are Debug-formatted/escaped; identifier holes pass a case normaliser, the "
                  "keyword table and a legal-identifier guard; numeric holes are integer-typed; doc-comment text is split on \\n and \\r; no "
                  "tainted text inside block comments")
    ck.rule("R2", "keyword table: every strict/reserved keyword maps to a different, legal identifier (r#kw, but never r#self/r#crate/r#super/r#Self); weak keywords may map to themselves")
    ck.rule("R4", "every legal-identifier guard on an identifier hole's chain establishes, for all input strings, a result that is non-empty, not the lone "
                  "underscore, starts with `_`/XID_Start and continues with XID_Continue (finite-domain evaluation of the guard's HIR over "
                  "character classes; unsupported operations are undecided)")
    ck.rule("R3", "every identifier-position hole passes through the keyword table (or is a PascalCase name, which only needs `Self` handled)")
    X = T.extractor(F)
    rule_enumeration_verbatim(ck, F)
    CE = og.CallExpander(F)
    for fn, u in X.errors.items():
        ck.undecided("R1", f"unrecognised:{u.what[:60]}", "-", f"{fn}: {u.what}", fn=fn)
    # ---- R2
    tab, site = keyword_table(F)
    if tab is None:
        ck.undecided("R2", "table", "-", "keyword table (match on literals in rename_keywords) not found")
    else:
        ck.count("R2:table rows", len(tab))
        if TABLE_ORDER.get("binary"):
            keys = TABLE_ORDER["rows"]
            if keys == sorted(keys) and len(set(keys)) == len(keys):
                ck.ok("R2", "table-sorted", site, "the keyword table is searched by bisection and its rows are in ascending order of the keyword")
            else:
                bad = next((b_ for a_, b_ in zip(keys, keys[1:]) if not a_ < b_), "?")
                ck.violation("R2", "table-sorted", site, f"the keyword table is searched by bisection but is not sorted (at `{bad}`): rows behind the "
                             f"misplaced one are not found and those keywords are written as they are")
        missing = []
        illegal = []
        for kw in STRICT + RESERVED:
            if kw == "Self":
                continue  # cannot be the result of a snake_case conversion; handled under R3 for PascalCase positions
            img = tab.get(kw, kw)
            if img == kw:
                missing.append(kw)
            elif not IDENT_RE.match(img) or (img.startswith("r#") and img[2:] in NOT_RAW) or img in STRICT + RESERVED:
                illegal.append((kw, img))
        for kw in missing:
            ck.violation("R2", f"missing:{kw}", site, f"keyword `{kw}` is not renamed: an element/attribute/part named `{kw}` yields `pub {kw}: ..`, which does not parse")
        for kw, img in illegal:
            ck.violation("R2", f"illegal-image:{kw}", site, f"keyword `{kw}` is renamed to `{img}`, which is not a legal identifier (`{kw}` cannot be a raw identifier)")
        for kw in STRICT + RESERVED:
            if kw not in missing and kw not in [k for k, _ in illegal] and kw != "Self":
                ck.ok("R2", f"kw:{kw}", site, f"`{kw}` -> `{tab.get(kw)}`")
        for kw, img in tab.items():
            if kw not in STRICT + RESERVED + WEAK:
                if not IDENT_RE.match(img):
                    ck.violation("R2", f"extra-row:{kw}", site, f"table row `{kw}` -> `{img}` produces an illegal identifier")
    # ---- model field summaries: chains by field name
    field_chain = {}
    live = scans.api_reachable(F.lib)
    TY = Typer(F)
    for struct in ("model::field::Field", "model::field::OtherRustType", "model::Namespace", "model::soap::service::SoapService",
                   "model::structures::complex::ComplexProps", "model::structures::simple::SimpleProps",
                   "model::structures::element::ElementProps"):
        for (fn, site2, ctx, fields, base) in og.field_summaries(F, struct.split("model::", 1)[1] if struct != "model::Namespace" else "model::Namespace"):
            if fn not in live or " as std::clone::Clone>" in fn or fn.endswith("::new"):
                continue
            for k, v in fields.items():
                sp_, root = spine(CE.expand(v))
                field_chain.setdefault((struct, k), []).append(sp_)
    # ---- R1 / R3: all emits of all writer functions (inlined from the root so that parameters are resolved) + Display arms
    abbr_ok = _abbreviation_alphabet_ok(F)
    from rules import anchors as A_
    abbr_fns = [m_.rsplit("::", 1)[-1] for m_ in A_.abbreviation_makers(F)]
    CE.keep |= set(A_.abbreviation_makers(F))      # the allocator stays a call in the chains: it is judged as a whole (alphabet rule)
    stream = [(e, {"self": "model::doc::RustDocument"}) for e in T.inline(X, T.ROOT) if e.kind == "emit"]
    stream += [(T.IEmit(ev, ev.parts, ev.ctx, ()), {"self": "model::field::RustFieldType"}) for ev in X.events.get(DISPLAY, []) if ev.kind == "emit"]
    n_holes = 0
    seen = set()
    used_guards = set()

    def chains_of(nf, root_ty, depth=0):
        """All sanitiser chains (outermost first) that can produce the value, following model-field summaries."""
        e = CE.expand(nf)
        sp_, root = spine(e)
        if root[0] in ("lit",):
            return [sp_ + ["<literal>"]]
        if root[0] in ("ifelse", "match") and depth < 6:
            # a value chosen by a test: whatever either branch can produce (an absent value produces nothing)
            branches = [root[2], root[3]] if root[0] == "ifelse" else [v for _, v in root[2]]
            out = []
            for br in branches:
                if og.nf_str(br) in ("None", "std::option::Option::None") or (isinstance(br, tuple) and br[0] == "const" and str(br[1]).endswith("::None")):
                    continue
                out += [sp_ + c for c in chains_of(br, root_ty, depth + 1 if depth else 0)]
            if out:
                return out
        owner = TY.owner_of_field(root, root_ty) if depth == 0 else None
        if owner is None and root[0] == "field":
            # second level: a summary value that reads another model field (e.g. Namespace.rust_mod_name)
            for (st, fld), chs in field_chain.items():
                if fld == root[2] and fld in ("rust_mod_name", "abbreviation", "namespace") and st == "model::Namespace":
                    owner = (st, fld)
        if owner and owner in field_chain and depth < 3:
            out = []
            for (fn_, site_, ctx_, fields_, base_) in summaries.get(owner[0], []):
                if owner[1] in fields_:
                    for c in chains_of(fields_[owner[1]], {"self": owner[0]}, depth + 1):
                        out.append(sp_ + c)
            if out:
                return out
        return [sp_]

    summaries = {}
    for struct in ("model::field::Field", "model::field::OtherRustType", "model::Namespace", "model::soap::service::SoapService",
                   "model::structures::complex::ComplexProps", "model::structures::simple::SimpleProps", "model::structures::element::ElementProps"):
        key = struct.split("model::", 1)[1] if struct != "model::Namespace" else "model::Namespace"
        summaries[struct] = [x for x in og.field_summaries(F, key) if x[0] in live and " as std::clone::Clone>" not in x[0] and not x[0].endswith("::new")]

    for ev, root_ty in stream:
        holes = ev.holes()
        if not holes:
            continue
        fnshort = ev.fn.rsplit("::", 1)[-1] if not ev.fn.startswith("<") else ev.fn.split(" as ")[0][1:].rsplit("::", 1)[-1]
        for i, (hnf, htr, hty) in enumerate(holes):
            if is_literal_only(hnf):
                continue
            for variant in render(CE.expand(hnf), htr, hty, CE):
                segs = []
                idx = -1
                for p in ev.parts:
                    if p[0] == "lit":
                        segs.append(("lit", p[1], False))
                    else:
                        idx += 1
                        if idx == i:
                            segs += [(x[0],) + tuple(x[1:]) + (True,) if x[0] == "hole" else ("lit", x[1], True) for x in variant]
                        else:
                            segs.append(("hole", p[1], p[2], p[3], False))
                text = "".join(x[1] if x[0] == "lit" else rustlex.HOLE for x in segs)
                ctxs = rustlex.contexts(text)
                hs = [x for x in segs if x[0] == "hole"]
                if len(ctxs) != len(hs):
                    ck.undecided("R1", f"lex:{fnshort}:{_hole_desc(ev, i)}", ev.site, f"template could not be lexed hole by hole: {ev.skeleton()!r}")
                    continue
                for (seg, cx) in zip(hs, ctxs):
                    if not seg[-1]:
                        continue
                    _, nf, tr, ty = seg[:4]
                    if is_literal_only(nf):
                        continue
                    tys = (ty or "?").replace("&", "").strip()
                    key = f"{fnshort}:{_hole_desc(ev, i)}:{_leaf_key(nf)}"
                    ctx = cx["ctx"]
                    if (key, ctx) in seen:
                        continue
                    seen.add((key, ctx))
                    n_holes += 1
                    where = f"…{cx['left'][-16:]}⟨hole⟩{cx['right'][:10]}…".replace(rustlex.HOLE, "◦")
                    if tys in INT_TYPES:
                        ck.ok("R1", key, ev.site, f"hole of integer type `{tys}` in {ctx} context", fn=fnshort)
                        continue
                    ntt = og.numeric_text_type(nf, CE)
                    if ntt is not None:
                        ck.ok("R1", key, ev.site, f"hole is the decimal text of a parsed `{ntt}` in {ctx} context", fn=fnshort)
                        continue
                    chains = chains_of(nf, root_ty)
                    if ctx in ("string", "raw_string", "char"):
                        escaped = tr == "debug" or all(any(c in ("escape_default", "escape_debug") for c in ch) for ch in chains)
                        if escaped:
                            ck.ok("R1", key, ev.site, "string-literal hole is escaped", fn=fnshort)
                        else:
                            ck.violation("R1", f"string:{key}", ev.site,
                                         f"{fnshort}: `{og.nf_str(nf)[:70]}` is interpolated with Display inside a string literal ({where}): a `\"` or `\\` in "
                                         f"the schema text ends the literal and the rest is parsed as code", fn=fnshort)
                    elif ctx in ("code", "ident") and tr == "debug" and tys.replace(" ", "") in ("str", "std::string::String", "std::rc::Rc<str>"):
                        ck.ok("R1", key, ev.site, "text emitted as a Debug-formatted (escaped) string literal", fn=fnshort)
                    elif ctx in ("code", "ident") and tr == "debug":
                        ck.violation("R1", f"debug-non-str:{key}", ev.site,
                                     f"{fnshort}: `{og.nf_str(nf)[:70]}` of type `{tys}` is Debug-formatted into code: its Debug output is not a string literal", fn=fnshort)
                    elif ctx in ("ident", "code"):
                        if tys.endswith("RustFieldType") or str(TY.ty(nf, root_ty) or "").endswith("RustFieldType"):
                            ck.ok("R1", key, ev.site, "type position filled by RustFieldType's Display (its own holes are checked in the Display arms)", fn=fnshort)
                            continue
                        problems = set()
                        for chain in chains:
                            if chain and chain[-1] == "<literal>":
                                continue
                            pascal = any(c in ("to_pascal_case", "to_class_case") for c in chain)
                            snake = any(c in ("to_snake_case", "to_camel_case") for c in chain)
                            guard = any(c in IDENT_GUARDS for c in chain)
                            kwt = "rename_keywords" in chain
                            abbr = any(m_ in chain for m_ in abbr_fns) and abbr_ok and (
                                _literal_ident_prefix(cx) or "<literal-ident-prefix>" in chain)
                            glued = bool(re.search(r"[A-Za-z0-9_]$", cx["left"])) or bool(re.match(r"^[A-Za-z0-9_]", cx["right"]))
                            if abbr:
                                continue
                            if not (pascal or snake):
                                problems.add("no case normaliser")
                            if snake and not kwt and not pascal:
                                problems.add("keyword table not applied")
                            if pascal and not snake and "<self-guard>" not in chain and not glued:
                                problems.add("`Self` not handled")
                            if kwt and re.search(r"[A-Za-z0-9_]$", cx["left"]):
                                problems.add("the name went through the keyword table and is glued to what stands before it: for a keyword the "
                                             "table answers with a raw identifier (`r#type`), and `prefix_r#type` is not a token")
                            if not guard:
                                problems.add("no legal-identifier guard (empty name, leading digit, or characters the normaliser keeps)")
                            else:
                                gi = min(j for j, c in enumerate(chain) if c in IDENT_GUARDS)
                                if any(c in CASE_NORMALISERS for c in chain[:gi]):
                                    problems.add("a case normaliser runs after the legal-identifier guard and can undo it (`__` becomes the empty string)")
                                used_guards.update(c for c in chain if c in IDENT_GUARDS)
                        r3 = sorted(p for p in problems if "keyword" in p or "Self" in p)   # (the glued raw identifier is one of them)
                        r1 = sorted(p for p in problems if p not in r3)
                        if r3:
                            ck.violation("R3", f"ident:{key}", ev.site,
                                         f"{fnshort}: identifier `{og.nf_str(nf)[:70]}` ({where}): " + "; ".join(r3) +
                                         ": a schema name that is a Rust keyword yields code that does not parse", fn=fnshort)
                        if r1:
                            ck.violation("R1", f"ident:{key}", ev.site, f"{fnshort}: identifier `{og.nf_str(nf)[:70]}` ({where}): " + "; ".join(r1), fn=fnshort)
                        if not problems:
                            ck.ok("R1", key, ev.site, "identifier hole: case-normalised, keyword-safe and guarded", fn=fnshort)
                    elif ctx in ("doc_comment", "line_comment"):
                        sdesc = og.nf_str(CE.expand(nf))
                        # `str::lines` ends a line at \n and \r\n only: a bare carriage return stays inside the line, so it does not count
                        ok = tr == "debug" or ("split(" in sdesc and "\\r" in sdesc and "\\n" in sdesc) or _split_on_both(nf)
                        if ok:
                            ck.ok("R1", key, ev.site, "comment text is split on both line terminators / Debug-escaped", fn=fnshort)
                        else:
                            ck.violation("R1", f"comment:{key}", ev.site,
                                         f"{fnshort}: `{og.nf_str(nf)[:70]}` is written into a line/doc comment without being split on both `\\n` and `\\r`: a "
                                         f"carriage return in the documentation is rejected by rustc inside a doc comment / ends a line comment", fn=fnshort)
                    elif ctx == "block_comment":
                        ck.violation("R1", f"block-comment:{key}", ev.site,
                                     f"{fnshort}: `{og.nf_str(nf)[:70]}` is written inside a block comment: `*/` in the schema text ends it", fn=fnshort)
                    else:
                        ck.undecided("R1", f"context:{key}", ev.site, f"hole in unclassified context {ctx}")
    ck.floor("R1", "tainted holes classified", n_holes, 20)
    # ---- R4: the guards the identifier holes rely on establish the lexical definition of an identifier
    _guard_bodies(ck, F, used_guards)
    # where the code tells "a keyword was replaced" by the length of the result (`renamed.len() != identifier.len()`), the table has
    # to make that true: every replacement differs in length from its keyword
    if RENAME in og.RELIED_LENGTH_DISTINCT and tab is not None:
        same = sorted(k_ for k_, v_ in tab.items() if len(k_) == len(v_) and k_ != v_)
        if same:
            ck.violation("R2", "replacement-length", site, f"a caller tells a renamed keyword from an unchanged name by its length, but `{same[0]}` is "
                         f"replaced by `{tab[same[0]]}` of the same length: the replacement is thrown away and the keyword written as it is")
        else:
            ck.ok("R2", "replacement-length", site, "every replacement of the keyword table differs in length from its keyword (a caller relies on that)")


def _split_on_both(nf):
    """each(split(x, ['\n','\r'])) : the separator argument mentions both characters"""
    for c in og.nf_calls(nf):
        if str(c[1]).endswith("split") and len(c[2]) > 1:
            sep = og.nf_str(c[2][1])
            if "\\n" in sep and "\\r" in sep:
                return True
    return False


def _leaf_key(nf):
    chain, root = og.sanitiser_chain(nf)
    r = og.nf_str(root)
    r = re.sub(r"[^A-Za-z0-9_.]", "", r.rsplit("⟩", 1)[-1])[-28:]
    return "/".join(chain + [r])


def _literal_ident_prefix(cx):
    """The hole is glued to a literal identifier prefix (`mod_{abbr}`) so that the whole token is an identifier."""
    return bool(re.search(r"[A-Za-z_][A-Za-z0-9_]*$", cx["left"]))


def _abbreviation_alphabet_ok(F):
    """Every character that make_abbreviated_namespace (and the local functions it calls) puts into a String comes from a
    `chars()` iteration and passes an `is_ascii_alphanumeric` test on that very character: as an iterator filter before `collect`,
    or as the condition under which it is pushed (including `if !ok { continue }`). At least one such sink must exist."""
    from engine.rulekit import scans
    from rules import anchors as A
    roots = A.abbreviation_makers(F)
    if not roots:
        return False
    g = scans.call_graph(F.lib)
    fns, frontier = list(roots), list(roots)
    for _ in range(2):
        nxt = []
        for fn in frontier:
            for c in sorted(g.get(fn, ())):
                cb = F.lib.body(c)
                if cb is not None and cb.get("hir") is not None and not cb.get("closure") and c not in fns:
                    fns.append(c)
                    nxt.append(c)
        frontier = nxt
    W = og.EnvWalker(F)
    sinks = []

    def is_alnum_test(cond, branch, el):
        c = cond
        while isinstance(c, tuple) and c[0] == "not":
            c, branch = c[1], not branch
        return branch and isinstance(c, tuple) and c[0] == "call" and str(c[1]).endswith("is_ascii_alphanumeric") and c[2] and c[2][0] == el

    def cb(e, env, ctx):
        if e.get("k") != "MethodCall":
            return
        if e["name"] == "collect" and "String" in (e.get("ty") or ""):
            src, val, conds = og.iter_view(_strip_take(W.NF.nf(e["recv"], env)))
            if isinstance(src, tuple) and src[0] == "call" and str(src[1]).endswith("chars"):
                el = ("elem", src)
                sinks.append(val == el and any(is_alnum_test(c, b, el) for c, b in conds))
            else:
                sinks.append(False)
        if e["name"] == "extend" and len(e["args"]) == 1 and "String" in (Hh.strip(e["recv"]).get("ty") or "") + (Hh.strip(e["recv"]).get("adj_ty") or ""):
            # `text.extend(chars)`: the same sink as `collect`, into a String that exists already
            src, val, conds = og.iter_view(_strip_take(W.NF.nf(e["args"][0], env)))
            if isinstance(src, tuple) and src[0] == "call" and str(src[1]).endswith("chars"):
                el = ("elem", src)
                sinks.append(val == el and any(is_alnum_test(c, b, el) for c, b in conds))
            else:
                sinks.append(False)
        if e["name"] == "push" and "String" in (Hh.strip(e["recv"]).get("ty") or "") + (Hh.strip(e["recv"]).get("adj_ty") or ""):
            v = W.NF.nf(e["args"][0], env)
            if v[0] == "lit":
                return
            stars = [c for c in ctx if c[0] == "star"]
            ok = False
            for st in stars:
                el = ("elem", st[1])
                if v == el and isinstance(st[1], tuple) and st[1][0] == "call" and str(st[1][1]).endswith("chars"):
                    ok = any(c[0] == "alt" and is_alnum_test(c[1], c[2], el) for c in ctx)
            sinks.append(ok)
    for fn in fns:
        try:
            W.walk_fn(fn, cb)
        except og.Unrecognised:
            return False
    return bool(sinks) and all(sinks)


def _strip_take(nf):
    """`iter.take(n)` / `.skip(n)` only shorten the sequence: the characters that remain still passed what comes before"""
    while isinstance(nf, tuple) and nf[0] == "call" and isinstance(nf[1], str) and nf[1].rsplit("::", 1)[-1] in ("take", "skip", "rev", "fuse", "peekable", "by_ref") and nf[2]:
        nf = nf[2][0]
    return nf


def _hole_desc(ev, i):
    """Stable descriptor of hole i of a template: literal text around it."""
    parts = ev.parts
    idx = -1
    left = ""
    right = ""
    for j, p in enumerate(parts):
        if p[0] == "hole":
            idx += 1
            if idx == i:
                left = parts[j - 1][1] if j > 0 and parts[j - 1][0] == "lit" else ""
                right = parts[j + 1][1] if j + 1 < len(parts) and parts[j + 1][0] == "lit" else ""
                break
    clean = lambda s: re.sub(r"\s+", " ", s)
    return (clean(left)[-16:] + "{}" + clean(right)[:10]).strip()


def _guard_bodies(ck, F, used):
    from engine.rulekit import identguard as IG
    bodies = {}
    for b in F.lib.bodies:
        if b.get("kind") == "fn" or not b.get("closure"):
            bodies.setdefault(b["path"], b)
    cache = {}

    def local_fn(path):
        b = bodies.get(path)
        if b is None or b.get("hir") is None:
            return None
        if path not in cache:
            cache[path] = og.with_literal_consts(F, Hh.norm_body(b))
        return cache[path]

    n = 0
    for name in sorted(used):
        cands = [p for p in bodies if p.rsplit("::", 1)[-1] == name and bodies[p].get("hir") is not None]
        if not cands:
            ck.undecided("R4", f"guard:{name}", "-", f"identifier holes rely on `{name}` but the crate has no function of that name with a body")
            continue
        for p in cands:
            b = bodies[p]
            site = b.get("span", "-")
            n += 1
            try:
                nb = local_fn(p)
                bound = IG.BOUND + (1 if ck.tier == "thorough" else 0)
                tried, cex, classes = IG.decide(nb, local_fn, bound)
            except IG.Unsupported as u:
                ck.undecided("R4", f"guard:{name}", u.sp or site, f"{p}: {u.what}: the guard is outside the operation set whose post-condition can be decided")
                continue
            except Hh.Unrecognised as u:
                ck.undecided("R4", f"guard:{name}", site, f"{p}: {u.what}")
                continue
            if not cex:
                ck.ok("R4", f"guard:{name}", site, f"{p}: {tried} input strings (length <= {bound} over {classes} character classes) all map to legal identifiers", fn=name)
            for kind, (inp, out, why) in sorted(cex.items()):
                ck.violation("R4", f"guard:{name}:{kind}", site,
                             f"{p}: for the name {inp!r} the guard returns {out!r}: {why}; the generated item does not parse", fn=name)
    ck.floor("R4", "identifier guards decided", n, 1)
