"""C04 — schema-valid instances deserialize losslessly and round-trip.

Decides the necessary conditions the property names as mechanisms: every repeatable member is a Vec (occurrence
truth table, shared with C02.R2), the Rust primitive's range includes the XSD builtin's value space for the builtins
whose value space is bounded (width table), simple types carry their text (C03.R5) and every prefix a member
carries is declared (C03.R3: an undeclared prefix cannot be parsed back). The round trip itself runs inside
yaserde on runtime values and is not decided."""
from rules import c02 as C02
from rules import c03 as C03
from rules import templates as T
from engine.rulekit import og
from engine.rulekit import hir as Hh

# XSD builtins with a bounded value space -> (min, max) / named IEEE type
XSD_RANGE = {
    "byte": (-2**7, 2**7 - 1), "short": (-2**15, 2**15 - 1), "int": (-2**31, 2**31 - 1), "long": (-2**63, 2**63 - 1),
    "unsignedByte": (0, 2**8 - 1), "unsignedShort": (0, 2**16 - 1), "unsignedInt": (0, 2**32 - 1), "unsignedLong": (0, 2**64 - 1),
}
RUST_RANGE = {
    "i8": (-2**7, 2**7 - 1), "i16": (-2**15, 2**15 - 1), "i32": (-2**31, 2**31 - 1), "i64": (-2**63, 2**63 - 1),
    "u8": (0, 2**8 - 1), "u16": (0, 2**16 - 1), "u32": (0, 2**32 - 1), "u64": (0, 2**64 - 1), "i128": (-2**127, 2**127 - 1),
    "u128": (0, 2**128 - 1),
}
EXACT = {"boolean": ("bool",), "float": ("f32", "f64"), "double": ("f64",)}
TEXTUAL = ("string", "normalizedString", "base64Binary", "hexBinary", "anyURI", "date", "dateTime", "time", "language", "duration")
UNBOUNDED = ("integer", "negativeInteger", "nonNegativeInteger", "nonPositiveInteger", "positiveInteger", "decimal")


XML_READS = ("attribute", "uri", "namespaces", "default_namespace", "lookup_namespace_uri", "tag_name", "namespace", "next", "children",
             "descendants", "filter", "find", "parent", "root_element", "root", "iter::filter", "iter::map", "iter::find", "ok_or", "ok_or_else",
             "Some", "Ok", "unwrap_or_default")


def rule_namespace_verbatim(ck, F, rule="R6"):
    """XML namespace names are compared character by character (Namespaces in XML §2.3): an instance document that is valid for the
    schema carries the schema's spelling. A generated type that declares a normalised spelling (lower-cased host, added slash,
    trimmed) does not match such a document. Decided by provenance: at every place a Namespace value is built, its name is the
    function's text parameter through identity steps only, and the callers hand in what they read from the XML, unchanged."""
    CE = og.CallExpander(F)
    sites = [x for x in og.field_summaries(F, "model::Namespace")
             if " as std::clone::Clone>" not in x[0] and "tests" not in x[0] and " as std::default::Default>" not in x[0]]
    ck.floor(rule, "Namespace construction sites", len(sites), 2)
    builders = {}
    for (fn, site, ctx, fields, base) in sites:
        v = CE.expand(fields.get("namespace", ("unknown", "?")))
        names, root = og.spine(v)
        short = fn.rsplit("::", 1)[-1]
        if names or root[0] not in ("param", "field", "elem", "payload"):
            ck.violation(rule, f"name-not-verbatim:{short}", site,
                         f"{short}: the namespace name stored is {og.nf_str(v)[:100]} — computed by {names or [root[0]]}, not the text that was read: the "
                         f"generated `namespaces = {{..}}` then differs from the schema's namespace name and valid instances are rejected", fn=short)
        else:
            ck.ok(rule, f"name-verbatim:{short}", site, f"{short}: the namespace name is stored as it was handed in", fn=short)
            if root[0] == "param":
                builders.setdefault(fn, set()).add(root[1])
    # the callers of those functions: the text they pass for that parameter is what they read
    W = og.EnvWalker(F)
    n_calls = 0
    for b in F.lib.bodies:
        if b.get("hir") is None or b.get("closure") or "yaserde_tests" in b["path"] or "::tests" in b["path"]:
            continue

        def cb(e, env, ctx, caller=b["path"]):
            nonlocal n_calls
            if e.get("k") not in ("Call", "MethodCall"):
                return
            cp = Hh.callee_path(e)
            if cp not in builders or cp == caller:
                return
            cbody = F.lib.body(cp)
            try:
                pnames = [[n for _i, n in Hh.pat_bindings(p)] for p in Hh.norm_body(cbody)["params"]]
            except og.Unrecognised:
                return
            args = ([e["recv"]] if e.get("k") == "MethodCall" else []) + list(e["args"])
            for names_, a in zip(pnames, args):
                if len(names_) == 1 and names_[0] in builders[cp]:
                    n_calls += 1
                    v = CE.expand(W.NF.nf(a, env))
                    steps, root = og.spine(v)
                    # what happens to the text after it was read counts; how the node it is read from was reached does not
                    text_reads = [i_ for i_, s_ in enumerate(steps) if s_ in ("attribute", "uri", "text", "lookup_namespace_uri", "default_namespace")]
                    if text_reads:
                        steps = steps[:text_reads[0] + 1]
                    extra = [s_ for s_ in steps if s_ not in XML_READS]
                    short = caller.rsplit("::", 1)[-1]
                    if extra:
                        ck.violation(rule, f"name-not-verbatim:{short}->{cp.rsplit('::', 1)[-1]}", Hh.sp(e),
                                     f"{short} hands {og.nf_str(v)[:100]} to {cp.rsplit('::', 1)[-1]} as the namespace name: it went through {extra}, "
                                     f"so it is not the spelling the schema uses", fn=short)
                    else:
                        ck.ok(rule, f"name-verbatim:{short}->{cp.rsplit('::', 1)[-1]}", Hh.sp(e), "the namespace name is handed on as it was read", fn=short)
        try:
            W.walk_fn(b["path"], cb)
        except og.Unrecognised:
            continue
    ck.floor(rule, "calls that hand a namespace name to a registry function", n_calls, 2)


LOWERING = ("to_lowercase", "to_ascii_lowercase", "to_string", "to_owned", "clone", "as_str", "into", "from", "as_ref", "deref", "into_owned",
            "Owned", "Borrowed", "borrow", "as_deref")


def rule_prefixes_are_names(ck, F, rule="R7"):
    """The abbreviation allocated for a namespace is written as an XML prefix (`#[yaserde(prefix = "..")]`): yaserde puts it in
    front of every element name. A prefix that is empty or starts with a digit gives `<:Order>` / `<202:Order>`, which no XML
    reader accepts — neither the service nor yaserde itself reading the document back. Decided on the allocator: every value it
    returns begins with the result of a guard function of the crate (`fn(&str) -> String`) whose post-condition — non-empty, starts
    with a letter or `_`, goes on with name characters — holds for all strings (finite-domain evaluation, engine/rulekit/identguard);
    what is appended after it (a counter) are name characters."""
    from engine.rulekit import identguard as IG
    from rules import anchors as A
    makers = A.abbreviation_makers(F)
    if len(makers) != 1:
        ck.undecided(rule, "allocator", "-", f"the function that allocates namespace abbreviations could not be attributed uniquely ({makers})")
        return
    MAKE = makers[0]
    mb = F.lib.body(MAKE)
    short = MAKE.rsplit("::", 1)[-1]
    CE = og.CallExpander(F)
    try:
        rets = og.returned_values(F, MAKE)
    except og.Unrecognised as u:
        ck.undecided(rule, "allocator", mb["span"], f"{short} is of unrecognised shape: {u.what}")
        return
    ck.floor(rule, "return sites of the abbreviation allocator", len(rets), 1)
    bodies = {b["path"]: b for b in F.lib.bodies if not b.get("closure")}
    cache = {}

    def local_fn(path):
        b = bodies.get(path)
        if b is None or b.get("hir") is None:
            return None
        if path not in cache:
            cache[path] = og.with_literal_consts(F, Hh.norm_body(b))
        return cache[path]
    verdicts = {}
    reserved = {}

    def guard_ok(path):
        """is `path` a function of the crate from text to text whose every result is an NCName?"""
        if path in verdicts:
            return verdicts[path]
        verdicts[path] = None
        f = next((x for x in A._fn_items(F) if x["path"] == path), None)
        if f is None or len(f["inputs"]) != 1 or A._norm_ty(f["inputs"][0]) not in ("&str", "std::string::String", "&std::string::String") \
                or A._norm_ty(f["output"]) != "std::string::String":
            return None
        try:
            tried, cex, classes = IG.decide(local_fn(path), local_fn, IG.BOUND, legal=IG.legal_ncname)
        except (IG.Unsupported, Hh.Unrecognised, og.Unrecognised):
            return None
        verdicts[path] = (not cex, tried, classes, cex)
        try:
            _t, rcex, _c = IG.decide(local_fn(path), local_fn, IG.BOUND, legal=IG.reserved_xml_prefix, extra_chars="xmlXML")
            reserved[path] = rcex
        except (IG.Unsupported, Hh.Unrecognised, og.Unrecognised) as u:
            reserved[path] = {"undecided": ("?", "?", str(u))}
        return verdicts[path]

    def leaves(v):
        if isinstance(v, tuple) and v[0] == "call" and len(v[2]) == 1 and str(v[1]).rsplit("::", 1)[-1] in LOWERING:
            return leaves(v[2][0])       # (`candidate.into_owned()` of a choice is the choice of the `into_owned()`s)
        if isinstance(v, tuple) and v[0] == "ifelse":
            return leaves(v[2]) + leaves(v[3])
        if isinstance(v, tuple) and v[0] == "match":
            return [x for _p, arm in v[2] for x in leaves(arm)]
        return [v]

    def head(v):
        """the value the text starts with: the first hole of a format that starts with a hole, through copying / lower-casing steps"""
        cur = v
        for _ in range(12):
            if isinstance(cur, tuple) and cur[0] == "format" and cur[1] and cur[1][0][0] == "hole":
                cur = cur[1][0][1]
            elif isinstance(cur, tuple) and cur[0] == "call" and len(cur[2]) == 1 and str(cur[1]).rsplit("::", 1)[-1] in LOWERING:
                cur = cur[2][0]
            elif isinstance(cur, tuple) and cur[0] == "payload":
                cur = cur[2]
            else:
                break
        return cur
    for site, v in rets:
        if v is None:
            ck.undecided(rule, "prefix-is-a-name", site, f"{short} returns a value that is not a plain `return` of a readable expression")
            continue
        bad = None
        for leaf in og.value_alternatives(v):
            h = head(leaf)
            g = guard_ok(h[1]) if isinstance(h, tuple) and h[0] == "call" and isinstance(h[1], str) else None
            if not g or not g[0]:
                bad = (leaf, h, g)
                break
        if bad is None:
            ck.ok(rule, "prefix-is-a-name", site, f"{short}: every returned abbreviation begins with the result of a guard whose results are XML names for all inputs")
            # .. and none of them is a reserved prefix: `xml` is bound to the XML namespace by definition and writers do not declare it
            res = [(p_, c_) for p_, c_ in sorted(reserved.items()) if c_]
            if res:
                p_, c_ = res[0]
                inp, outp, why = list(c_.values())[0]
                ck.violation(rule, "prefix-not-reserved", site,
                             f"{short} can return an abbreviation that starts with `xml` ({p_.rsplit('::', 1)[-1]} returns {outp!r} for {inp!r}): a namespace whose "
                             f"last path segment starts with `xml` (`.../xmlconfig`) gets the reserved prefix; the writer does not declare it and "
                             f"`<xml:Setting>` lies in the XML namespace, not in the schema's")
            else:
                ck.ok(rule, "prefix-not-reserved", site, f"{short}: no returned abbreviation starts with the reserved `xml`")
        else:
            leaf, h, g = bad
            why = (f"the guard {h[1].rsplit('::', 1)[-1]} returns {list(g[3].values())[0][1]!r} for {list(g[3].values())[0][0]!r}" if g and g[3] else
                   "it does not pass a function of the crate that makes it a name (non-empty, starting with a letter)")
            ck.violation(rule, "prefix-is-a-name", site,
                         f"{short} can return an abbreviation that is not an XML name — {og.nf_str(h)[:70]}: {why}. A namespace whose last path segment is "
                         f"empty (`http://tempuri.org/`) or starts with a digit (`.../2024`) gets the prefix `` / `202`; yaserde then writes `<:Order>` / "
                         f"`<202:Order>`, which cannot be read back (and is what a client sends)")


def run(ck, F):
    ck.explanation = (
        "Width table: the builtin mapping (extracted from the `match` of as_rust_type composed with Display of RustFieldType) is "
        "compared, for every XSD builtin with a bounded value space, with reference ranges: the Rust type's range must include the "
        "builtin's. Textual builtins must be carried as String. The unbounded integer family and decimal cannot be carried by any "
        "primitive; the width rule is stated as not armed for them. The repeatable=>Vec rows of the occurrence truth table (finite-"
        "domain evaluation, see C02.R2), prefix coverage (C03.R3) and the simple-type carrier (C03.R5) are re-decided here because "
        "each is a necessary condition of lossless deserialization. The round trip itself is not decided.")
    ck.assumptions = ["yaserde parses a member only when its prefix resolves to a declared namespace (confirmed once on the real crate)",
                      "unbounded XSD integers / decimals are outside the width claim"]
    ck.rule("R1", "width: for byte/short/int/long/unsigned*/boolean/float/double the mapped Rust type includes the XSD value space; "
                  "textual builtins map to String")
    ck.rule("R2", "repeatable => Vec: every row of the occurrence table with maxOccurs unbounded or >1 (own or parent) is emitted as Vec<T>")
    ck.rule("R3", "every prefix a struct's members can carry is declared by the struct (undeclared prefixes do not deserialize)")
    ck.rule("R5", "simple types carry their text: text=true on String / flatten on a user type")
    ck.rule("R7", "XML prefixes are names: every abbreviation the allocator returns begins with the result of a guard whose results are "
                  "NCNames for all inputs (non-empty, starting with a letter or `_`)")
    ck.rule("R6", "namespace names are carried verbatim: the name a generated type declares is the text of the schema's "
                  "targetNamespace / xmlns declaration, not a trimmed, re-cased or otherwise normalised spelling of it")
    X = T.extractor(F)
    rule_namespace_verbatim(ck, F)
    rule_prefixes_are_names(ck, F)
    table, fall, site = C02.builtin_table(F)
    if table is None:
        ck.undecided("R1", "table", "-", "builtin table not found")
    else:
        disp = C02.display_table(X)
        for b, (lo, hi) in sorted(XSD_RANGE.items()):
            rust = disp.get(table.get(b))
            rr = RUST_RANGE.get(rust)
            if rr and rr[0] <= lo and hi <= rr[1]:
                ck.ok("R1", b, site, f"xs:{b} [{lo}, {hi}] fits {rust}")
            else:
                ck.violation("R1", b, site, f"xs:{b} has value space [{lo}, {hi}] but is carried by `{rust}`: valid instances overflow / are rejected on deserialization")
        for b, okts in EXACT.items():
            rust = disp.get(table.get(b))
            if rust in okts:
                ck.ok("R1", b, site, f"xs:{b} -> {rust}")
            else:
                ck.violation("R1", b, site, f"xs:{b} is carried by `{rust}` (expected one of {okts}): values are lost")
        for b in TEXTUAL:
            rust = disp.get(table.get(b))
            if rust == "String":
                ck.ok("R1", b, site, f"xs:{b} -> String (lexical form kept)")
            else:
                ck.violation("R1", b, site, f"xs:{b} is carried by `{rust}`, which cannot hold every lexical form")
        # the unbounded integer family fits no primitive, whatever its width: the width is not judged. The sign is: a type whose values
        # are (also) negative has to be carried by a signed type — an unsigned carrier refuses every negative value of a valid instance
        NEEDS_SIGN = {"integer": "-5", "negativeInteger": "-5", "nonPositiveInteger": "-5", "decimal": "-0.5"}
        for b in UNBOUNDED:
            ck.count("R1:unbounded builtins (width rule not armed)")
            rust = disp.get(table.get(b))
            if b in NEEDS_SIGN and rust is not None:
                if str(rust).startswith("u"):
                    ck.violation("R1", f"{b}:sign", site, f"xs:{b} is carried by the unsigned `{rust}`: the schema-valid value `{NEEDS_SIGN[b]}` is refused on deserialization")
                else:
                    ck.ok("R1", f"{b}:sign", site, f"xs:{b} is carried by `{rust}`, which has negative values")
    # R2: reuse the occurrence evaluation, keep only the Vec rows
    sub = _Sub(ck, "R2", lambda key: "not-Vec" in key or key.endswith("truth-table") or "floor" in key or "undecided" in key or "flags" in key)
    C02.rule_occurrence(sub, F, X)
    # R3 / R5 from C03
    sub3 = _Sub(ck, None, lambda key: True, only_rules=("R3", "R5"))
    C03.run(sub3, F)


class _Sub:
    """Adapter: runs another property's rule function and keeps selected obligations under this property's id."""

    def __init__(self, ck, rule, keep, only_rules=None):
        self.ck = ck
        self.rule_ = rule
        self.keep = keep
        self.only = only_rules
        self.explanation = ""
        self.assumptions = []

    def rule(self, *a):
        pass

    @property
    def obligations(self):
        return self.ck.obligations    # (keys carry this property's id and rule: callers that look for their own earlier verdicts find none)

    def count(self, name, n=1):
        self.ck.count(name, n)

    def _fwd(self, method, rule, desc, *a, **kw):
        if self.only is not None and rule not in self.only:
            return
        if not self.keep(desc):
            return
        getattr(self.ck, method)(self.rule_ or rule, desc, *a, **kw)

    def ok(self, rule, desc, *a, **kw):
        self._fwd("ok", rule, desc, *a, **kw)

    def violation(self, rule, desc, *a, **kw):
        self._fwd("violation", rule, desc, *a, **kw)

    def undecided(self, rule, desc, *a, **kw):
        self._fwd("undecided", rule, desc, *a, **kw)

    def floor(self, rule, name, count, floor, site="-"):
        if self.only is not None and rule not in self.only:
            return
        self.ck.floor(self.rule_ or rule, name, count, floor, site)
