"""C04 — schema-valid instances deserialize losslessly and round-trip.

Decides the necessary conditions the property names as mechanisms: every repeatable member is a Vec (occurrence
truth table, shared with C02.R2), the Rust primitive's range includes the XSD builtin's value space for the builtins
whose value space is bounded (width table), simple types carry their text (C03.R5) and every prefix a member
carries is declared (C03.R3: an undeclared prefix cannot be parsed back). The round trip itself runs inside
yaserde on runtime values and is not decided."""
from rules import c02 as C02
from rules import c03 as C03
from rules import templates as T

# XSD builtins with a bounded value space -> (min, max) / named IEEE type
XSD_RANGE = {
    "byte": (-2**7, 2**7 - 1), "short": (-2**15, 2**15 - 1), "int": (-2**31, 2**31 - 1), "long": (-2**63, 2**63 - 1),
    "unsignedByte": (0, 2**8 - 1), "unsignedShort": (0, 2**16 - 1), "unsignedInt": (0, 2**32 - 1), "unsignedLong": (0, 2**64 - 1),
}
RUST_RANGE = {
    "i8": (-2**7, 2**7 - 1), "i16": (-2**15, 2**15 - 1), "i32": (-2**31, 2**31 - 1), "i64": (-2**63, 2**63 - 1),
    "u8": (0, 2**8 - 1), "u16": (0, 2**16 - 1), "u32": (0, 2**32 - 1), "u64": (0, 2**64 - 1), "i128": (-2**127, 2**127 - 1),
    "u128": (0, 2**128 - 1),
}
EXACT = {"boolean": ("bool",), "float": ("f32", "f64"), "double": ("f64",)}
TEXTUAL = ("string", "normalizedString", "base64Binary", "hexBinary", "anyURI", "date", "dateTime", "time", "language", "duration")
UNBOUNDED = ("integer", "negativeInteger", "nonNegativeInteger", "nonPositiveInteger", "positiveInteger", "decimal")


def run(ck, F):
    ck.explanation = (
        "Width table: the builtin mapping (extracted from the `match` of as_rust_type composed with Display of RustFieldType) is "
        "compared, for every XSD builtin with a bounded value space, with reference ranges: the Rust type's range must include the "
        "builtin's. Textual builtins must be carried as String. The unbounded integer family and decimal cannot be carried by any "
        "primitive; the width rule is stated as not armed for them. The repeatable=>Vec rows of the occurrence truth table (finite-"
        "domain evaluation, see C02.R2), prefix coverage (C03.R3) and the simple-type carrier (C03.R5) are re-decided here because "
        "each is a necessary condition of lossless deserialization. The round trip itself is not decided.")
    ck.assumptions = ["yaserde parses a member only when its prefix resolves to a declared namespace (confirmed once on the real crate)",
                      "unbounded XSD integers / decimals are outside the width claim"]
    ck.rule("R1", "width: for byte/short/int/long/unsigned*/boolean/float/double the mapped Rust type includes the XSD value space; "
                  "textual builtins map to String")
    ck.rule("R2", "repeatable => Vec: every row of the occurrence table with maxOccurs unbounded or >1 (own or parent) is emitted as Vec<T>")
    ck.rule("R3", "every prefix a struct's members can carry is declared by the struct (undeclared prefixes do not deserialize)")
    ck.rule("R5", "simple types carry their text: text=true on String / flatten on a user type")
    X = T.extractor(F)
    table, fall, site = C02.builtin_table(F)
    if table is None:
        ck.undecided("R1", "table", "-", "builtin table not found")
    else:
        disp = C02.display_table(X)
        for b, (lo, hi) in sorted(XSD_RANGE.items()):
            rust = disp.get(table.get(b))
            rr = RUST_RANGE.get(rust)
            if rr and rr[0] <= lo and hi <= rr[1]:
                ck.ok("R1", b, site, f"xs:{b} [{lo}, {hi}] fits {rust}")
            else:
                ck.violation("R1", b, site, f"xs:{b} has value space [{lo}, {hi}] but is carried by `{rust}`: valid instances overflow / are rejected on deserialization")
        for b, okts in EXACT.items():
            rust = disp.get(table.get(b))
            if rust in okts:
                ck.ok("R1", b, site, f"xs:{b} -> {rust}")
            else:
                ck.violation("R1", b, site, f"xs:{b} is carried by `{rust}` (expected one of {okts}): values are lost")
        for b in TEXTUAL:
            rust = disp.get(table.get(b))
            if rust == "String":
                ck.ok("R1", b, site, f"xs:{b} -> String (lexical form kept)")
            else:
                ck.violation("R1", b, site, f"xs:{b} is carried by `{rust}`, which cannot hold every lexical form")
        for b in UNBOUNDED:
            ck.count("R1:unbounded builtins (width rule not armed)")
    # R2: reuse the occurrence evaluation, keep only the Vec rows
    sub = _Sub(ck, "R2", lambda key: "not-Vec" in key or key.endswith("truth-table") or "floor" in key or "undecided" in key or "flags" in key)
    C02.rule_occurrence(sub, F, X)
    # R3 / R5 from C03
    sub3 = _Sub(ck, None, lambda key: True, only_rules=("R3", "R5"))
    C03.run(sub3, F)


class _Sub:
    """Adapter: runs another property's rule function and keeps selected obligations under this property's id."""

    def __init__(self, ck, rule, keep, only_rules=None):
        self.ck = ck
        self.rule_ = rule
        self.keep = keep
        self.only = only_rules
        self.explanation = ""
        self.assumptions = []

    def rule(self, *a):
        pass

    @property
    def obligations(self):
        return self.ck.obligations    # (keys carry this property's id and rule: callers that look for their own earlier verdicts find none)

    def count(self, name, n=1):
        self.ck.count(name, n)

    def _fwd(self, method, rule, desc, *a, **kw):
        if self.only is not None and rule not in self.only:
            return
        if not self.keep(desc):
            return
        getattr(self.ck, method)(self.rule_ or rule, desc, *a, **kw)

    def ok(self, rule, desc, *a, **kw):
        self._fwd("ok", rule, desc, *a, **kw)

    def violation(self, rule, desc, *a, **kw):
        self._fwd("violation", rule, desc, *a, **kw)

    def undecided(self, rule, desc, *a, **kw):
        self._fwd("undecided", rule, desc, *a, **kw)

    def floor(self, rule, name, count, floor, site="-"):
        if self.only is not None and rule not in self.only:
            return
        self.ck.floor(self.rule_ or rule, name, count, floor, site)
