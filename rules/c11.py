"""C11 — each reachable schema file is read exactly once; others never matter."""
from engine.rulekit import mir as M
from engine.rulekit import scans
from rules import c12 as C12

PARSE = "roxmltree::parse::<impl roxmltree::Document<'input>>::parse"


def sccs(graph, nodes):
    """Tarjan over the sub-graph induced by `nodes`."""
    index = {}
    low = {}
    stack = []
    on = set()
    out = []
    counter = [0]
    import sys
    sys.setrecursionlimit(10000)

    def strong(v):
        index[v] = low[v] = counter[0]
        counter[0] += 1
        stack.append(v)
        on.add(v)
        for w in graph.get(v, ()):
            if w not in nodes:
                continue
            if w not in index:
                strong(w)
                low[v] = min(low[v], low[w])
            elif w in on:
                low[v] = min(low[v], index[w])
        if low[v] == index[v]:
            comp = []
            while True:
                w = stack.pop()
                on.discard(w)
                comp.append(w)
                if w == v:
                    break
            out.append(comp)

    for v in sorted(nodes):
        if v not in index:
            strong(v)
    return out


def run(ck, F):
    ck.explanation = (
        "Call-graph SCC + dominance analysis on MIR: the strongly connected component that contains the document-parsing function "
        "(the import recursion) is located on the resolved call graph; inside it, the store of `true` into the file's processed flag "
        "must dominate every call that stays in the component, and the guarding load must dominate the parse. The file table is "
        "checked to be accessed by key only, the import result to be merged exactly once, and sibling contents to flow nowhere but "
        "into the keyed table. Nothing is executed.")
    ck.assumptions = ["HashMap::get is a pure keyed lookup", "schemaLocation is used verbatim as the key (other spellings are outside the claim)"]
    ck.rule("R1", "mark before descent: in the import recursion, `processed <- true` dominates every call that stays inside the "
                  "recursion, and the load guarding the early return dominates the parse")
    ck.rule("R2", "once-only merge: the document returned for an import is passed to the merge function exactly once, per import child")
    ck.rule("R3", "keyed access only: Files.map is touched only by get/get_key_value/insert/from, or by a loop that merely resets flags")
    ck.rule("R4", "sibling files enter the table keyed by their file name and their content flows nowhere else")
    g = scans.call_graph(F.lib)
    local = {b["path"] for b in F.lib.bodies if b.get("mir")}
    parsers = []
    for b in scans.bodies(F.lib):
        if "yaserde_tests" in b["path"]:
            continue
        B = M.Body(b)
        if B.calls_to(PARSE):
            parsers.append(b)
    ck.floor("R1", "functions parsing a document", len(parsers), 1)
    comps = sccs(g, local)
    for pb in parsers:
        comp = [c for c in comps if pb["path"] in c][0]
        cyclic = len(comp) > 1 or pb["path"] in g.get(pb["path"], ())
        fn = pb["path"]
        B = M.Body(pb)
        if not cyclic:
            ck.ok("R1", "no-recursion", pb["span"], f"{fn} is not part of a call cycle", fn=fn)
            continue
        ck.count("R1:functions in the import recursion", len(comp))
        comp_set = set(comp)
        parse_bb = B.calls_to(PARSE)[0][0]
        # guard: load of <param>.processed whose true arm returns early, dominating the parse
        loads = []
        for bb, t in B.calls_to(C12.ATOMIC_LOAD):
            os_ = M.trace(B, t["args"][0])
            if os_ and all(o.kind == "arg" and "processed" in o.fields() for o in os_):
                loads.append((bb, t, os_[0].local))
        stores = []
        for bb, t in B.calls_to(C12.ATOMIC_STORE):
            os_ = M.trace(B, t["args"][0])
            v = t["args"][1]
            if os_ and all(o.kind == "arg" and "processed" in o.fields() for o in os_) and v.get("k") == "const" \
                    and "true" in str(v.get("text")):
                stores.append((bb, t, os_[0].local))
        guard_ok = any(B.dominates(bb, parse_bb) for bb, _, _ in loads)
        if not guard_ok:
            # alternatively every recursive caller tests the flag of the file it is about to read
            callers_ok = True
            n_callers = 0
            for c in comp:
                CB = M.Body(F.lib.body(c))
                for cbb, ct in CB.calls():
                    if (M.Body.callee(ct) or "") != fn:
                        continue
                    n_callers += 1
                    a0 = {getattr(o, "local", None) for o in M.trace(CB, ct["args"][0])} | {
                        o.bb for o in M.trace(CB, ct["args"][0]) if o.kind == "call"}
                    ok_here = False
                    for lbb, lt in CB.calls_to(C12.ATOMIC_LOAD):
                        los = M.trace(CB, lt["args"][0])
                        same = any(("processed" in o.fields()) and ((getattr(o, "local", None) in a0) or (o.kind == "call" and o.bb in a0)) for o in los)
                        if not same or lt.get("target") is None:
                            continue
                        sw = CB.term(lt["target"])
                        if sw.get("k") == "switch":
                            for v, tgt in sw["targets"]:
                                if v == 0 and CB.dominates(tgt, cbb):
                                    ok_here = True
                    callers_ok = callers_ok and ok_here
            guard_ok = callers_ok and n_callers > 0
        if guard_ok:
            ck.ok("R1", "guard-before-parse", B.term(loads[0][0]).get("sp") if loads else pb["span"], "the processed flag is tested before the document is parsed (in the parser or at every recursive call site)", fn=fn)
        else:
            ck.violation("R1", "guard-before-parse", pb["span"],
                         "the file is parsed without first testing its processed flag: a file imported twice is read twice", fn=fn)
        inner_calls = [(bb, t) for bb, t in B.calls() if (M.Body.callee(t) or "") in comp_set]
        if not inner_calls:
            ck.undecided("R1", "descent-calls", pb["span"], "no call that stays inside the import recursion found", fn=fn)
        for bb, t in inner_calls:
            callee = M.Body.callee(t)
            if any(B.dominates(sbb, bb) and sbb != bb for sbb, _, _ in stores):
                ck.ok("R1", f"mark-before:{callee}", B.term(bb).get("sp"), f"`processed <- true` dominates the descent into {callee}", fn=fn)
            else:
                ck.violation("R1", f"mark-before:{callee}", B.term(bb).get("sp"),
                             f"the descent into {callee} (which follows imports) is not dominated by the store `processed <- true`: "
                             f"a self- or mutual import re-enters this file without bound", fn=fn)
        # R2 : in the component, process_import-like call -> extend
        for c in comp:
            CB = M.Body(F.lib.body(c))
            for bb, t in CB.calls():
                d = M.Body.callee(t) or ""
                if d.endswith("RustDocument::extend"):
                    src = M.trace(CB, t["args"][1], M.IDENTITY_CALLS + ("ops::Try::branch",))
                    callees = [M.Body.callee(o.term) for o in src if o.kind == "call"]
                    if len(src) == 1 and callees and callees[0] in comp_set:
                        # the producing call must not feed anything else
                        pbb = src[0].bb
                        others = [x for x, tt in CB.calls_to("RustDocument::extend") if x != bb and any(
                            o.kind == "call" and o.bb == pbb for o in M.trace(CB, tt["args"][1], M.IDENTITY_CALLS + ("ops::Try::branch",)))]
                        if others:
                            ck.violation("R2", "merged-twice", CB.term(bb).get("sp"), "an imported document is merged more than once", fn=c)
                        else:
                            ck.ok("R2", "merge-once", CB.term(bb).get("sp"), f"result of {callees[0]} is merged exactly once", fn=c)
                    else:
                        ck.violation("R2", "merge-source", CB.term(bb).get("sp"),
                                     f"the merged document does not come (only) from the import reader: {src}", fn=c)
    # ---- R3 keyed access
    allowed = ("::get", "::get_key_value", "::insert", "::contains_key", "::from", "::len", "::is_empty", "::new")
    n_acc = 0
    for b in scans.bodies(F.lib):
        if "yaserde_tests" in b["path"]:
            continue
        B = M.Body(b)
        for bb, t in B.calls():
            for ai, a in enumerate(t["args"]):
                if a.get("k") not in ("copy", "move"):
                    continue
                os_ = M.trace(B, a, ())
                for o in os_:
                    if "map" in o.fields() and _root_is_files(B, o):
                        n_acc += 1
                        d = M.Body.callee_decl(t) or ""
                        if d.endswith(allowed) and "HashMap" in d:
                            ck.ok("R3", f"{d.rsplit('::', 1)[-1]}", B.term(bb).get("sp"), f"Files.map accessed by key ({d})", fn=b["path"])
                        else:
                            ok, why = C12.order_insensitive_loop(B, bb)
                            if ok:
                                ck.ok("R3", "reset-loop", B.term(bb).get("sp"), "Files.map iterated only to reset flags", fn=b["path"])
                            else:
                                ck.violation("R3", f"{d}", B.term(bb).get("sp"),
                                             f"Files.map is accessed through {d} ({why}): files that are not reachable by an import can influence the result", fn=b["path"])
    ck.floor("R3", "Files.map access sites", n_acc, 3)
    # ---- R4 utils
    ub = F.lib.body("utils::read_input_file_and_xsd_files_at_path")
    if ub is None:
        ck.undecided("R4", "utils", "-", "utils::read_input_file_and_xsd_files_at_path not found")
        return
    B = M.Body(ub)
    adds = B.calls_to("reader::Files::add")
    news = B.calls_to("reader::Files::new")
    ck.floor("R4", "Files::new/add calls", len(adds) + len(news), 2)
    ident = M.IDENTITY_CALLS + ("ops::Try::branch", "Option::<T>::ok_or")
    for bb, t in adds + news:
        key = M.trace(B, t["args"][1] if (M.Body.callee_decl(t) or "").endswith("add") else t["args"][0], ident)
        key_ok = bool(key) and all(o.kind == "call" and (M.Body.callee_decl(o.term) or "").endswith("OsStr::to_str") for o in key)
        if key_ok:
            for o in key:
                src = M.trace(B, o.term["args"][0], ident)
                key_ok = key_ok and all(x.kind == "call" and (M.Body.callee_decl(x.term) or "").endswith("Path::file_name") for x in src)
        xml_arg = t["args"][2] if (M.Body.callee_decl(t) or "").endswith("add") else t["args"][1]
        xml = M.trace(B, xml_arg, ident)
        xml_ok = bool(xml) and all(o.kind == "call" and (M.Body.callee_decl(o.term) or "").endswith("fs::read_to_string") for o in xml)
        if key_ok and xml_ok:
            ck.ok("R4", f"keyed-by-file-name#{bb}", B.term(bb).get("sp"), "file registered under its file_name() with its full content", fn=ub["path"])
        else:
            ck.violation("R4", f"registration#{'add' if (bb, t) in adds else 'new'}", B.term(bb).get("sp"),
                         f"a file is not registered as (file_name(), read_to_string(path)) (key ok: {key_ok}, content ok: {xml_ok})", fn=ub["path"])
    # content of a sibling flows only into Files::add / Files::new
    for bb, t in B.calls_to("fs::read_to_string"):
        flows = M.result_flow(B, bb, t)
        if {k for k, _ in flows} != {"propagated"}:
            ck.violation("R4", "read-result", B.term(bb).get("sp"), f"read_to_string result is {flows}", fn=ub["path"])


def _root_is_files(B, o):
    """The origin's root local (or the place the field `map` is taken from) has type reader::Files."""
    l = getattr(o, "local", None)
    tys = []
    if l is not None:
        tys.append(B.local_ty(l))
    if o.kind == "upvar":
        return True
    if o.kind in ("call", "aggregate"):
        return True
    return any("reader::Files" in t and "FilesToRead" not in t for t in tys) or any("reader::Files" in t for t in tys)
